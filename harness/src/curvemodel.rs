//! Closed forms of the five interpolation rules on two nodes (generic over f64 / RefDual), the
//! interval rule by linear scan, and helpers to build curve inputs.
#![allow(dead_code)]

use crate::refdual::RefDual;
use chrono::{DateTime, NaiveDateTime};

pub const RULES: [&str; 5] = ["linear", "log_linear", "linear_zero_rate", "flat_forward", "flat_backward"];
pub const DAY: i64 = 86400;

pub fn ts_to_ndt(t: i64) -> NaiveDateTime {
    DateTime::from_timestamp(t, 0).unwrap().naive_utc()
}

/// "the interval whose right end is the first node on or after the date, clamped"
pub fn interval_of(xs: &[i64], x: i64) -> usize {
    let n = xs.len();
    let first_ge = xs.iter().position(|k| *k >= x).unwrap_or(n);
    let i = first_ge as i64 - 1;
    i.clamp(0, n as i64 - 2) as usize
}

pub trait Arith: Clone {
    fn c(v: f64) -> Self;
    fn add(&self, o: &Self) -> Self;
    fn sub(&self, o: &Self) -> Self;
    fn mul(&self, o: &Self) -> Self;
    fn ln(&self) -> Self;
    fn exp(&self) -> Self;
}
impl Arith for f64 {
    fn c(v: f64) -> f64 {
        v
    }
    fn add(&self, o: &f64) -> f64 {
        self + o
    }
    fn sub(&self, o: &f64) -> f64 {
        self - o
    }
    fn mul(&self, o: &f64) -> f64 {
        self * o
    }
    fn ln(&self) -> f64 {
        f64::ln(*self)
    }
    fn exp(&self) -> f64 {
        f64::exp(*self)
    }
}
impl Arith for RefDual {
    fn c(v: f64) -> RefDual {
        RefDual::constant(v)
    }
    fn add(&self, o: &RefDual) -> RefDual {
        RefDual::add(self, o)
    }
    fn sub(&self, o: &RefDual) -> RefDual {
        RefDual::sub(self, o)
    }
    fn mul(&self, o: &RefDual) -> RefDual {
        RefDual::mul(self, o)
    }
    fn ln(&self) -> RefDual {
        RefDual::ln(self)
    }
    fn exp(&self) -> RefDual {
        RefDual::exp(self)
    }
}

/// value of `rule` at x on the interval (x1,y1)-(x2,y2); x0 is the first node of the curve
pub fn closed_form<T: Arith>(rule: usize, x0: i64, x1: i64, y1: &T, x2: i64, y2: &T, x: i64) -> T {
    let w = (x - x1) as f64 / (x2 - x1) as f64;
    match rule {
        0 => y1.add(&y2.sub(y1).mul(&T::c(w))),
        1 => {
            let (l1, l2) = (y1.ln(), y2.ln());
            l1.add(&l2.sub(&l1).mul(&T::c(w))).exp()
        }
        2 => {
            let (t1, t2, t) = ((x1 - x0) as f64, (x2 - x0) as f64, (x - x0) as f64);
            let r2 = y2.ln().mul(&T::c(-1.0 / t2));
            let r = if x1 == x0 {
                r2
            } else {
                let r1 = y1.ln().mul(&T::c(-1.0 / t1));
                r1.add(&r2.sub(&r1).mul(&T::c((t - t1) / (t2 - t1))))
            };
            r.mul(&T::c(-t)).exp()
        }
        3 => {
            if x >= x2 {
                y2.clone()
            } else {
                y1.clone()
            }
        }
        _ => {
            if x <= x1 {
                y1.clone()
            } else {
                y2.clone()
            }
        }
    }
}

pub const GAPS: [i64; 4] = [1, 30, 365, 3650];
/// awkward but finite positive values: near the largest double, subnormal, and far apart neighbours
pub const VEXTREME: [f64; 6] = [1.0e300, 1.0e-300, 1.0e150, 1.0e-150, 1.0, 5.0e-324];
pub const VSETS: [[f64; 6]; 4] = [
    [1.0, 0.99, 0.95, 0.8, 0.5, 0.3],
    [1.0, 1.02, 0.97, 1.3, 0.6, 0.9],
    [0.97, 0.99, 0.93, 1.1, 0.7, 0.85],
    [1.0, 1.0, 0.96, 0.96, 0.96, 0.9], // equal adjacent values (flat segments)
];
pub fn t0() -> i64 {
    1_640_995_200 // 2022-01-01T00:00:00Z
}

pub fn node_times(gaps: &[u8]) -> Vec<i64> {
    let mut v = vec![t0()];
    for g in gaps {
        let last = *v.last().unwrap();
        v.push(last + GAPS[*g as usize] * DAY);
    }
    v
}

/// query timestamps: each node, node +- 1 day, quarter/mid points of every interval, 400 days outside
pub fn queries(xs: &[i64]) -> Vec<i64> {
    let mut q = vec![xs[0] - 400 * DAY, xs[xs.len() - 1] + 400 * DAY];
    for (i, x) in xs.iter().enumerate() {
        q.push(*x);
        q.push(*x - DAY);
        q.push(*x + DAY);
        if i + 1 < xs.len() {
            let d = xs[i + 1] - x;
            q.push(x + d / 4);
            q.push(x + d / 2);
            q.push(x + 3 * d / 4);
        }
    }
    q.sort();
    q.dedup();
    q
}

/// node times of long curves: grid 0 = uneven (gap pattern from `mult`), 1 = evenly spaced weekly, 2 = weekly
/// with interior nodes moved off the grid (first step, last step and total span unchanged), 3 = daily nodes
/// followed by yearly nodes, 4 = yearly nodes followed by daily nodes, 5 = uneven grid starting 200 days before
/// 1970-01-01 (negative timestamps)
pub fn grid_times(n: usize, grid: u8, mult: usize) -> Vec<i64> {
    match grid {
        0 => node_times(&(0..n - 1).map(|i| ((i * mult + 1) % 3) as u8).collect::<Vec<u8>>()),
        5 => {
            // uneven grid that starts before 1970-01-01 and crosses it (negative timestamps)
            let mut v = vec![-200 * DAY];
            for i in 0..n - 1 {
                let last = *v.last().unwrap();
                v.push(last + GAPS[(i * mult + 1) % 2] * DAY);
            }
            v
        }
        3 | 4 => {
            // a dense end and a sparse end: two thirds of the gaps are one day, the others one year
            let dense = 2 * (n - 1) / 3;
            let gaps: Vec<u8> = (0..n - 1).map(|i| if (i < dense) == (grid == 3) { 0 } else { 2 }).collect();
            node_times(&gaps)
        }
        _ => {
            let mut v: Vec<i64> = (0..n).map(|i| t0() + 7 * DAY * i as i64).collect();
            if grid == 2 && n >= 8 {
                v[n / 2] += 3 * DAY;
                v[3] -= 2 * DAY;
                v[n - 3] += 5 * DAY;
            }
            v
        }
    }
}
