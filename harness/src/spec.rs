//! Serializable description of a dual number (the unit of enumeration for C03, C17-C19) and its
//! realisation as the real `Dual` / `Dual2` and as the reference `RefDual`.
#![allow(dead_code)]

use crate::refdual::RefDual;
use rateslib::dual::{Dual, Dual2, Number};
use serde::{Deserialize, Serialize};

#[derive(Clone, Debug, Serialize, Deserialize, PartialEq)]
pub struct NumSpec {
    pub v: f64,
    /// indices into the property's name universe, in *storage* order
    pub names: Vec<usize>,
    /// first derivative per listed name
    pub g: Vec<f64>,
    /// true second partials, row-major n*n, symmetric (empty = all zero)
    pub h: Vec<f64>,
}

impl NumSpec {
    pub fn constant(v: f64) -> Self {
        NumSpec { v, names: vec![], g: vec![], h: vec![] }
    }
    pub fn n(&self) -> usize {
        self.names.len()
    }
    pub fn name_strings(&self, uni: &[String]) -> Vec<String> {
        self.names.iter().map(|i| uni[*i].clone()).collect()
    }
    pub fn hess(&self, i: usize, j: usize) -> f64 {
        if self.h.is_empty() {
            0.0
        } else {
            self.h[i * self.n() + j]
        }
    }
    pub fn dual(&self, uni: &[String]) -> Dual {
        if self.names.is_empty() {
            Dual::new(self.v, vec![])
        } else {
            Dual::try_new(self.v, self.name_strings(uni), self.g.clone()).expect("spec builds")
        }
    }
    pub fn dual2(&self, uni: &[String]) -> Dual2 {
        if self.names.is_empty() {
            Dual2::new(self.v, vec![])
        } else {
            let n = self.n();
            let mut half = vec![0.0; n * n];
            for i in 0..n {
                for j in 0..n {
                    half[i * n + j] = 0.5 * self.hess(i, j);
                }
            }
            Dual2::try_new(self.v, self.name_strings(uni), self.g.clone(), half).expect("spec builds")
        }
    }
    /// the same first-order number realised through the public `clone_from` with a gradient array whose memory
    /// order is the reverse of its logical order (negative stride)
    pub fn dual_nonstd(&self, uni: &[String]) -> Dual {
        use ndarray::{Array1, Axis};
        use rateslib::dual::Gradient1;
        let base = self.dual(uni);
        let mut rev: Vec<f64> = base.dual().to_vec();
        rev.reverse();
        let mut arr = Array1::from(rev);
        arr.invert_axis(Axis(0));
        Dual::clone_from(&base, self.v, arr)
    }
    /// second order: negative-stride gradient and a column-major (Fortran order) second-derivative array
    pub fn dual2_nonstd(&self, uni: &[String]) -> Dual2 {
        use ndarray::{Array1, Array2, Axis};
        use rateslib::dual::{Gradient1, Gradient2};
        let base = self.dual2(uni);
        let n = base.dual().len();
        let mut rev: Vec<f64> = base.dual().to_vec();
        rev.reverse();
        let mut g = Array1::from(rev);
        g.invert_axis(Axis(0));
        let h = base.dual2();
        let ht = Array2::from_shape_fn((n, n), |(i, j)| h[[j, i]]);
        let hf = ht.reversed_axes(); // logical content h, column-major memory
        Dual2::clone_from(&base, self.v, g, hf)
    }
    pub fn number(&self, uni: &[String], order: u8) -> Number {
        match order {
            0 => Number::F64(self.v),
            1 => Number::Dual(self.dual(uni)),
            _ => Number::Dual2(self.dual2(uni)),
        }
    }
    /// reference with the full Hessian (second-order reading)
    pub fn refd2(&self) -> RefDual {
        let grads: Vec<(usize, f64)> = self.names.iter().cloned().zip(self.g.iter().cloned()).collect();
        let mut r = RefDual::leaf(self.v, &grads);
        if !self.h.is_empty() {
            let mut ent = vec![];
            for i in 0..self.n() {
                for j in 0..self.n() {
                    ent.push((self.names[i], self.names[j], self.hess(i, j)));
                }
            }
            r = r.with_hess(&ent);
        }
        r
    }
    /// reference for the first-order reading (no Hessian)
    pub fn refd1(&self) -> RefDual {
        self.refd2().drop_hessian()
    }
    /// same number, names stored in the order given by `perm` (a permutation of 0..n)
    pub fn permuted(&self, perm: &[usize]) -> NumSpec {
        let n = self.n();
        let names = perm.iter().map(|p| self.names[*p]).collect();
        let g = perm.iter().map(|p| self.g[*p]).collect();
        let mut h = vec![];
        if !self.h.is_empty() {
            h = vec![0.0; n * n];
            for (i, pi) in perm.iter().enumerate() {
                for (j, pj) in perm.iter().enumerate() {
                    h[i * n + j] = self.hess(*pi, *pj);
                }
            }
        }
        NumSpec { v: self.v, names, g, h }
    }
}

pub fn universe(n: usize) -> Vec<String> {
    ["a", "b", "c", "d", "e", "f", "g", "q"][..n].iter().map(|s| s.to_string()).collect()
}

/// A deterministic, "generic" (no accidental equalities) non-zero derivative for slot k.
pub fn gen_val(k: usize) -> f64 {
    const T: [f64; 12] = [1.25, -0.75, 2.5, -3.5, 0.375, 4.25, -1.625, 0.875, -2.125, 3.75, -0.625, 1.875];
    T[k % 12]
}
