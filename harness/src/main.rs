//! rlverif — bounded-exhaustive / explicit-state checks of attack68/rateslib (see /verif/DESIGN.md).
mod common;
mod refdual;
mod spec;
mod dynref;
mod bspline;
mod curvemodel;
mod calmodel;
mod progs;
mod largeops;
mod props;

use common::*;
use std::path::PathBuf;
use std::time::Instant;

fn main() {
    let args: Vec<String> = std::env::args().collect();
    if args.len() < 2 {
        eprintln!("usage: rlverif <ID> [--tier quick|thorough] [--replay <file>]");
        std::process::exit(2);
    }
    let id = args[1].to_uppercase();
    let mut tier = Tier::Quick;
    let mut replay_file: Option<String> = None;
    let mut i = 2;
    while i < args.len() {
        match args[i].as_str() {
            "--tier" => {
                i += 1;
                tier = match args.get(i).map(|s| s.as_str()) {
                    Some("thorough") => Tier::Thorough,
                    _ => Tier::Quick,
                };
            }
            "--replay" => {
                i += 1;
                replay_file = args.get(i).cloned();
            }
            _ => {}
        }
        i += 1;
    }
    if let Ok(t) = std::env::var("VERIF_TIER") {
        match t.as_str() {
            "thorough" => tier = Tier::Thorough,
            "quick" => tier = Tier::Quick,
            _ => {}
        }
    }
    let seed: i64 = std::env::var("VERIF_SEED").ok().and_then(|s| s.parse().ok()).unwrap_or(0);
    let root = PathBuf::from(std::env::var("VERIF_ROOT").unwrap_or_else(|_| "/verif".to_string()));
    let repo = PathBuf::from(std::env::var("VERIF_REPO").unwrap_or_else(|_| "/repo".to_string()));

    // rateslib's error type is PyErr: formatting one needs an interpreter, otherwise an
    // `unwrap()` on an `Err` inside the subject aborts instead of unwinding.
    pyo3::prepare_freethreaded_python();
    install_panic_hook();

    let ctx = Ctx { id: id.clone(), tier, seed, root, repo, start: Instant::now() };
    props::dispatch(&ctx, replay_file);
}
