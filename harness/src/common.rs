//! Shared machinery: accumulators, panic capture, verdict protocol, evidence writer.
#![allow(dead_code)]

use serde_json::{json, Map, Value};
use std::cell::RefCell;
use std::collections::hash_map::DefaultHasher;
use std::collections::{BTreeMap, HashSet};
use std::hash::{Hash, Hasher};
use std::panic::{catch_unwind, AssertUnwindSafe};
use std::path::PathBuf;
use std::time::Instant;

pub const OUTCOME_CAP: usize = 4_000_000;

#[derive(Clone, Copy, Debug, PartialEq, Eq)]
pub enum Tier {
    Quick,
    Thorough,
}

impl Tier {
    pub fn name(&self) -> &'static str {
        match self {
            Tier::Quick => "quick",
            Tier::Thorough => "thorough",
        }
    }
    pub fn pick<T>(&self, quick: T, thorough: T) -> T {
        match self {
            Tier::Quick => quick,
            Tier::Thorough => thorough,
        }
    }
}

pub struct Ctx {
    pub id: String,
    pub tier: Tier,
    pub seed: i64,
    pub root: PathBuf,
    pub repo: PathBuf,
    pub start: Instant,
}

#[derive(Clone, Debug)]
pub struct Violation {
    pub key: String,
    pub index: u64,
    pub case: Value,
    pub expected: Value,
    pub observed: Value,
}

/// Per-worker accumulator; merged deterministically at the end.
#[derive(Default)]
pub struct Acc {
    pub evals: u64,
    pub nontrivial: u64,
    pub skipped: u64,
    pub outcomes: HashSet<u64>,
    pub outcomes_capped: bool,
    pub breakdown: BTreeMap<String, u64>,
    pub samples: Vec<Value>,
    pub violations: Vec<Violation>,
    pub violation_count: u64,
    pub states: u64,
    pub transitions: u64,
}

impl Acc {
    pub fn new() -> Self {
        Self::default()
    }
    #[inline]
    pub fn eval(&mut self) {
        self.evals += 1;
    }
    #[inline]
    pub fn evals_add(&mut self, n: u64) {
        self.evals += n;
    }
    #[inline]
    pub fn nontrivial(&mut self) {
        self.nontrivial += 1;
    }
    #[inline]
    pub fn skip(&mut self) {
        self.skipped += 1;
    }
    #[inline]
    pub fn bump(&mut self, k: &str) {
        if let Some(v) = self.breakdown.get_mut(k) {
            *v += 1;
        } else {
            self.breakdown.insert(k.to_string(), 1);
        }
    }
    #[inline]
    pub fn bump_by(&mut self, k: &str, n: u64) {
        *self.breakdown.entry(k.to_string()).or_insert(0) += n;
    }
    #[inline]
    pub fn outcome<T: Hash>(&mut self, t: &T) {
        if self.outcomes.len() >= OUTCOME_CAP {
            self.outcomes_capped = true;
            return;
        }
        let mut h = DefaultHasher::new();
        t.hash(&mut h);
        self.outcomes.insert(h.finish());
    }
    pub fn sample(&mut self, f: impl FnOnce() -> Value) {
        if self.samples.len() < 3 {
            self.samples.push(f());
        }
    }
    pub fn violate(&mut self, key: &str, index: u64, case: Value, expected: Value, observed: Value) {
        self.violation_count += 1;
        // keep at most 3 per key per worker (the earliest in enumeration order survive the merge)
        let same = self.violations.iter().filter(|v| v.key == key).count();
        if same < 3 {
            self.violations.push(Violation {
                key: key.to_string(),
                index,
                case,
                expected,
                observed,
            });
        }
    }
    pub fn merge(mut self, o: Acc) -> Acc {
        self.evals += o.evals;
        self.nontrivial += o.nontrivial;
        self.skipped += o.skipped;
        self.outcomes_capped |= o.outcomes_capped;
        for h in o.outcomes {
            if self.outcomes.len() >= OUTCOME_CAP {
                self.outcomes_capped = true;
                break;
            }
            self.outcomes.insert(h);
        }
        for (k, v) in o.breakdown {
            *self.breakdown.entry(k).or_insert(0) += v;
        }
        for s in o.samples {
            if self.samples.len() < 6 {
                self.samples.push(s);
            }
        }
        self.violations.extend(o.violations);
        self.violation_count += o.violation_count;
        self.states += o.states;
        self.transitions += o.transitions;
        self
    }
}

thread_local! {
    static LAST_PANIC: RefCell<String> = RefCell::new(String::new());
}

pub fn install_panic_hook() {
    std::panic::set_hook(Box::new(|info| {
        let msg = if let Some(s) = info.payload().downcast_ref::<&str>() {
            s.to_string()
        } else if let Some(s) = info.payload().downcast_ref::<String>() {
            s.clone()
        } else {
            "<non-string panic payload>".to_string()
        };
        let loc = info
            .location()
            .map(|l| format!("{}:{}", l.file(), l.line()))
            .unwrap_or_default();
        LAST_PANIC.with(|p| *p.borrow_mut() = format!("{} @ {}", msg, loc));
    }));
}

/// Run `f`, turning a panic into `Err(message)`.
pub fn guarded<T>(f: impl FnOnce() -> T) -> Result<T, String> {
    match catch_unwind(AssertUnwindSafe(f)) {
        Ok(v) => Ok(v),
        Err(_) => Err(LAST_PANIC.with(|p| p.borrow().clone())),
    }
}

pub fn hash_f64s(xs: &[f64]) -> u64 {
    let mut h = DefaultHasher::new();
    for x in xs {
        x.to_bits().hash(&mut h);
    }
    h.finish()
}

/// Relative closeness with an absolute floor: |a-b| <= tol * max(1, |a|, |b|).
#[inline]
pub fn close(a: f64, b: f64, tol: f64) -> bool {
    if a == b {
        return true;
    }
    if !a.is_finite() || !b.is_finite() {
        return false;
    }
    (a - b).abs() <= tol * 1.0_f64.max(a.abs()).max(b.abs())
}

/// Relative closeness against a caller-supplied scale.
#[inline]
pub fn close_scaled(a: f64, b: f64, tol: f64, scale: f64) -> bool {
    if a == b {
        return true;
    }
    if !a.is_finite() || !b.is_finite() {
        return false;
    }
    (a - b).abs() <= tol * scale.max(f64::MIN_POSITIVE)
}

pub struct Meta {
    pub level: &'static str,
    pub rule: String,
    pub bound: Value,
    pub assumptions: Vec<String>,
    pub exhaustive: bool,
    pub extra: Map<String, Value>,
}

impl Meta {
    pub fn exploration(rule: &str, bound: Value) -> Self {
        Meta {
            level: "exploration",
            rule: rule.to_string(),
            bound,
            assumptions: vec![],
            exhaustive: true,
            extra: Map::new(),
        }
    }
    pub fn assume(mut self, s: &str) -> Self {
        self.assumptions.push(s.to_string());
        self
    }
    pub fn with(mut self, k: &str, v: Value) -> Self {
        self.extra.insert(k.to_string(), v);
        self
    }
}

fn sanitize(s: &str) -> String {
    s.chars()
        .map(|c| if c.is_ascii_alphanumeric() || c == '-' || c == '_' { c } else { '_' })
        .collect()
}

#[derive(serde::Deserialize)]
struct KnownFinding {
    property: String,
    key: String,
    status: String,
    #[serde(default)]
    what: String,
}

fn load_known(ctx: &Ctx) -> Vec<KnownFinding> {
    let p = ctx.root.join("known_findings.json");
    match std::fs::read_to_string(&p) {
        Ok(s) => serde_json::from_str(&s).unwrap_or_else(|e| {
            eprintln!("machinery: cannot parse {}: {}", p.display(), e);
            std::process::exit(2)
        }),
        Err(_) => vec![],
    }
}

/// Write evidence, print verdict lines, exit with the protocol's code.
pub fn finish(ctx: &Ctx, mut acc: Acc, meta: Meta) -> ! {
    let wall = ctx.start.elapsed().as_secs_f64();
    let known = load_known(ctx);
    acc.violations.sort_by(|a, b| (a.index, &a.key).cmp(&(b.index, &b.key)));

    // group by key, first in enumeration order wins
    let mut by_key: BTreeMap<String, Violation> = BTreeMap::new();
    for v in acc.violations.iter() {
        by_key.entry(v.key.clone()).or_insert_with(|| v.clone());
    }
    let mut known_seen: Vec<String> = vec![];
    let mut new_violations: Vec<(String, PathBuf)> = vec![];
    for (key, v) in by_key.iter() {
        let is_open = known
            .iter()
            .any(|k| k.property == ctx.id && &k.key == key && k.status == "open");
        if is_open {
            let what = known
                .iter()
                .find(|k| k.property == ctx.id && &k.key == key)
                .map(|k| k.what.clone())
                .unwrap_or_default();
            println!("KNOWN-FINDING: property={} key={} {}", ctx.id, key, what);
            known_seen.push(key.clone());
        } else {
            let dir = ctx.root.join("replays").join(&ctx.id);
            let _ = std::fs::create_dir_all(&dir);
            let path = dir.join(format!("{}.json", sanitize(key)));
            let body = json!({
                "property": ctx.id,
                "key": key,
                "tier": ctx.tier.name(),
                "index": v.index,
                "case": v.case,
                "expected": v.expected,
                "observed": v.observed,
            });
            std::fs::write(&path, serde_json::to_string_pretty(&body).unwrap()).unwrap();
            new_violations.push((key.clone(), path));
        }
    }

    let mut coverage = Map::new();
    coverage.insert("evaluations".into(), json!(acc.evals));
    coverage.insert("distinct_nontrivial".into(), json!(acc.nontrivial));
    coverage.insert("rule".into(), json!(meta.rule));
    coverage.insert("samples".into(), Value::Array(acc.samples.clone()));
    coverage.insert("exhaustive".into(), json!(meta.exhaustive));
    coverage.insert("bound".into(), meta.bound.clone());
    coverage.insert("skipped_out_of_domain".into(), json!(acc.skipped));
    coverage.insert(
        "distinct_outcomes".into(),
        json!({"count": acc.outcomes.len(), "capped": acc.outcomes_capped}),
    );
    coverage.insert(
        "nontrivial_breakdown".into(),
        Value::Object(acc.breakdown.iter().map(|(k, v)| (k.clone(), json!(v))).collect()),
    );
    coverage.insert("known_findings_seen".into(), json!(known_seen));
    coverage.insert(
        "build_profile".into(),
        json!("release opt-level=2 overflow-checks=on debug-assertions=on, --cfg rateslib_verif"),
    );
    if acc.states > 0 || meta.level == "model_checking" {
        coverage.insert("states".into(), json!(acc.states));
        coverage.insert("transitions".into(), json!(acc.transitions));
        coverage.insert("traces_validated_against_impl".into(), json!(acc.transitions));
    }
    for (k, v) in meta.extra.iter() {
        coverage.insert(k.clone(), v.clone());
    }
    let ev = json!({
        "property_id": ctx.id,
        "tier": ctx.tier.name(),
        "seed": ctx.seed,
        "level": meta.level,
        "coverage": Value::Object(coverage),
        "assumptions": meta.assumptions,
        "wall_s": wall,
        "violations": new_violations.len(),
        "violating_cases_total": acc.violation_count,
    });
    let evdir = ctx.root.join("evidence");
    let _ = std::fs::create_dir_all(&evdir);
    std::fs::write(
        evdir.join(format!("{}.json", ctx.id)),
        serde_json::to_string_pretty(&ev).unwrap(),
    )
    .unwrap();

    eprintln!(
        "[{}] tier={} evals={} nontrivial={} skipped={} outcomes={} states={} transitions={} wall={:.1}s",
        ctx.id,
        ctx.tier.name(),
        acc.evals,
        acc.nontrivial,
        acc.skipped,
        acc.outcomes.len(),
        acc.states,
        acc.transitions,
        wall
    );
    if new_violations.is_empty() {
        println!("OK property={} (held on everything explored)", ctx.id);
        std::process::exit(0);
    } else {
        for (_k, p) in new_violations.iter() {
            println!("VIOLATION property={} replay={}", ctx.id, p.display());
        }
        std::process::exit(1);
    }
}

/// Vacuity guard: a machinery failure (exit 2), never a verdict.
pub fn machinery_fail(msg: &str) -> ! {
    eprintln!("machinery failure: {}", msg);
    std::process::exit(2)
}

pub fn s(x: &str) -> String {
    x.to_string()
}

pub fn names(xs: &[&str]) -> Vec<String> {
    xs.iter().map(|x| x.to_string()).collect()
}

/// All permutations of 0..n in lexicographic order.
pub fn permutations(n: usize) -> Vec<Vec<usize>> {
    fn rec(cur: &mut Vec<usize>, used: &mut Vec<bool>, n: usize, out: &mut Vec<Vec<usize>>) {
        if cur.len() == n {
            out.push(cur.clone());
            return;
        }
        for i in 0..n {
            if !used[i] {
                used[i] = true;
                cur.push(i);
                rec(cur, used, n, out);
                cur.pop();
                used[i] = false;
            }
        }
    }
    let mut out = vec![];
    rec(&mut vec![], &mut vec![false; n], n, &mut out);
    out
}

/// All ordered lists of distinct elements of 0..n (every length 0..=n), shortest first.
pub fn ordered_sublists(n: usize) -> Vec<Vec<usize>> {
    fn rec(cur: &mut Vec<usize>, used: &mut Vec<bool>, n: usize, len: usize, out: &mut Vec<Vec<usize>>) {
        if cur.len() == len {
            out.push(cur.clone());
            return;
        }
        for i in 0..n {
            if !used[i] {
                used[i] = true;
                cur.push(i);
                rec(cur, used, n, len, out);
                cur.pop();
                used[i] = false;
            }
        }
    }
    let mut out = vec![];
    for len in 0..=n {
        rec(&mut vec![], &mut vec![false; n], n, len, &mut out);
    }
    out
}

// ---------------------------------------------------------------------------------------------
// generic explorer / replayer over typed, serialisable cases

use rayon::prelude::*;
use serde::de::DeserializeOwned;
use serde::Serialize;

/// Run `f` on every case (in parallel, deterministic merge). A panic escaping `f` is a
/// violation with key `panic`.
pub fn explore<C, F>(cases: &[C], f: F) -> Acc
where
    C: Serialize + Sync,
    F: Fn(&C, u64, &mut Acc) + Sync,
{
    cases
        .par_iter()
        .enumerate()
        .fold(Acc::new, |mut acc, (i, c)| {
            let r = guarded(|| f(c, i as u64, &mut acc));
            if let Err(msg) = r {
                acc.violate(
                    "panic",
                    i as u64,
                    serde_json::to_value(c).unwrap_or(Value::Null),
                    json!("no panic"),
                    json!(msg),
                );
            }
            acc
        })
        .reduce(Acc::new, Acc::merge)
}

/// Same, over an index range with a case constructor (avoids materialising huge case lists).
pub fn explore_range<C, G, F>(n: u64, make: G, f: F) -> Acc
where
    C: Serialize,
    G: Fn(u64) -> C + Sync,
    F: Fn(&C, u64, &mut Acc) + Sync,
{
    (0..n)
        .into_par_iter()
        .fold(Acc::new, |mut acc, i| {
            let c = make(i);
            let r = guarded(|| f(&c, i, &mut acc));
            if let Err(msg) = r {
                acc.violate(
                    "panic",
                    i,
                    serde_json::to_value(&c).unwrap_or(Value::Null),
                    json!("no panic"),
                    json!(msg),
                );
            }
            acc
        })
        .reduce(Acc::new, Acc::merge)
}

/// Replay one stored case twice; identical observations are required before the verdict is
/// trusted. Exit 1 if it still violates, 0 if it no longer does, 2 on divergence.
pub fn replay<C, F>(ctx: &Ctx, file: &str, f: F) -> !
where
    C: DeserializeOwned + Serialize,
    F: Fn(&C, u64, &mut Acc),
{
    let txt = std::fs::read_to_string(file).unwrap_or_else(|e| machinery_fail(&format!("cannot read {}: {}", file, e)));
    let doc: Value = serde_json::from_str(&txt).unwrap_or_else(|e| machinery_fail(&format!("bad replay json: {}", e)));
    let case: C = serde_json::from_value(doc["case"].clone())
        .unwrap_or_else(|e| machinery_fail(&format!("replay case does not deserialise: {}", e)));
    let idx = doc["index"].as_u64().unwrap_or(0);
    // Each of the two runs happens in a FRESH child process of this binary, so that a defect which depends
    // on process-wide state (a cache, a reused buffer) is replayed from the same initial state both times.
    if std::env::var("VERIF_REPLAY_SINGLE").is_ok() {
        let mut acc = Acc::new();
        let r = guarded(|| f(&case, idx, &mut acc));
        if let Err(msg) = r {
            acc.violate("panic", idx, Value::Null, json!("no panic"), json!(msg));
        }
        let o: Vec<(String, String)> = acc.violations.iter().map(|v| (v.key.clone(), v.observed.to_string())).collect();
        println!("REPLAY-OBSERVATION {}", serde_json::to_string(&o).unwrap());
        std::process::exit(0);
    }
    let exe = std::env::current_exe().unwrap_or_else(|e| machinery_fail(&format!("current_exe: {}", e)));
    let mut obs: Vec<Vec<(String, String)>> = vec![];
    for _ in 0..2 {
        let out = std::process::Command::new(&exe)
            .args(std::env::args().skip(1))
            .env("VERIF_REPLAY_SINGLE", "1")
            .output()
            .unwrap_or_else(|e| machinery_fail(&format!("cannot spawn replay child: {}", e)));
        let txt = String::from_utf8_lossy(&out.stdout).to_string();
        match txt.lines().find_map(|l| l.strip_prefix("REPLAY-OBSERVATION ")) {
            Some(j) => obs.push(serde_json::from_str(j).unwrap_or_default()),
            None => obs.push(vec![("abnormal-exit".to_string(), format!("child exited with {:?} without an observation", out.status))]),
        }
    }
    println!("replay run 1: {:?}", obs[0]);
    println!("replay run 2: {:?}", obs[1]);
    if obs[0] != obs[1] {
        eprintln!("machinery failure: replay diverged between two runs");
        std::process::exit(2);
    }
    if obs[0].is_empty() {
        println!("replay: case no longer violates property {}", ctx.id);
        std::process::exit(0);
    }
    println!("VIOLATION property={} replay={}", ctx.id, file);
    std::process::exit(1)
}
