//! Unary functions on numbers with MANY variable names (size menu): the scaling of a long gradient and the outer
//! product g g^T of a long gradient are loops of their own in the library. Shared by C01 (first order) and C02.
use crate::common::*;
use crate::refdual::{phi_cdf, phi_inv, phi_pdf};
use crate::spec::gen_val;
use num_traits::{Pow, Signed};
use rateslib::dual::{Dual, Dual2, Gradient1, Gradient2, MathFuncs, Vars};
use serde_json::{json, Value};

pub const LARGE_SIZES: [usize; 17] = [7, 8, 9, 15, 16, 17, 31, 32, 33, 63, 64, 65, 100, 130, 255, 256, 257];

/// `stored`: 0 names stored in index order, 1 reversed, 2 rotated by 5
pub fn large_unary(size: usize, stored: u8, second: bool, prop: &str, case: Value, idx: u64, acc: &mut Acc) {
    let nv = size + 2;
    let uni: Vec<String> = (0..nv).map(|i| format!("n{}", i)).collect();
    let lx: Vec<usize> = match stored {
        0 => (0..size).collect(),
        1 => (0..size).rev().collect(),
        _ => (0..size).map(|i| (i + 5) % size).collect(),
    };
    let names: Vec<String> = lx.iter().map(|i| uni[*i].clone()).collect();
    // deliberately non-dyadic derivative values; a banded Hessian with a dense first row / column
    let gv = |name: usize| gen_val(name * 3 + 1) + 1.0 / (3.0 + name as f64);
    let hv = |i: usize, j: usize| if i == j || i + 1 == j || j + 1 == i || (i.min(j) == 0 && i.max(j) % 5 == 4) { 0.25 * gen_val(i + j) } else { 0.0 };
    let y3 = phi_inv(0.3);
    // (name, argument value, f, f', f'')
    let table: Vec<(&str, f64, f64, f64, f64)> = vec![
        ("neg", 1.5, -1.5, -1.0, 0.0),
        ("abs", -1.5, 1.5, -1.0, 0.0),
        ("exp", 1.5, 1.5_f64.exp(), 1.5_f64.exp(), 1.5_f64.exp()),
        ("log", 1.5, 1.5_f64.ln(), 1.0 / 1.5, -1.0 / 2.25),
        ("pow2", 1.5, 2.25, 3.0, 2.0),
        ("pow3", 1.5, 3.375, 6.75, 9.0),
        ("pow0.5", 1.5, 1.5_f64.sqrt(), 0.5 / 1.5_f64.sqrt(), -0.25 / 1.5_f64.powf(1.5)),
        ("pow-1", 1.5, 1.0 / 1.5, -1.0 / 2.25, 2.0 / 3.375),
        ("norm_cdf", 1.5, phi_cdf(1.5), phi_pdf(1.5), -1.5 * phi_pdf(1.5)),
        ("inv_norm_cdf", 0.3, y3, 1.0 / phi_pdf(y3), y3 / (phi_pdf(y3) * phi_pdf(y3))),
    ];
    acc.nontrivial();
    for (name, xv, f0, f1, f2) in table.iter() {
        for own in [false, true] {
            acc.eval();
            if !second {
                let x1 = Dual::try_new(*xv, names.clone(), lx.iter().map(|n| gv(*n)).collect()).unwrap();
                let r1: Dual = match (*name, own) {
                    ("neg", false) => -&x1,
                    ("neg", true) => -x1.clone(),
                    ("abs", _) => x1.abs(),
                    ("exp", _) => x1.exp(),
                    ("log", _) => x1.log(),
                    ("pow2", false) => (&x1).pow(2.0),
                    ("pow2", true) => x1.clone().pow(2.0),
                    ("pow3", false) => (&x1).pow(3.0),
                    ("pow3", true) => x1.clone().pow(3.0),
                    ("pow0.5", false) => (&x1).pow(0.5),
                    ("pow0.5", true) => x1.clone().pow(0.5),
                    ("pow-1", false) => (&x1).pow(-1.0),
                    ("pow-1", true) => x1.clone().pow(-1.0),
                    ("norm_cdf", _) => x1.norm_cdf(),
                    _ => x1.inv_norm_cdf(),
                };
                let g = r1.gradient1(uni.clone());
                let mut bad = !close(r1.real(), *f0, 1e-12) || r1.dual().len() != r1.vars().len() || r1.vars().len() != size;
                for i in 0..nv {
                    let w = if lx.contains(&i) { f1 * gv(i) } else { 0.0 };
                    if !close_scaled(g[i], w, 1e-11, w.abs().max(1.0)) {
                        bad = true;
                    }
                }
                acc.outcome(&(*name, size, r1.real().to_bits()));
                if bad {
                    acc.violate(&format!("{}/many-names/{}", prop, name), idx, case.clone(), json!({"size": size, "want_value": f0, "want_gradient": "f'(x) * g by name"}), json!(format!("{:?}", r1)));
                }
            } else {
                let mut hflat = vec![];
                for a in lx.iter() {
                    for b in lx.iter() {
                        hflat.push(0.5 * hv(*a, *b));
                    }
                }
                let x2 = Dual2::try_new(*xv, names.clone(), lx.iter().map(|n| gv(*n)).collect(), hflat).unwrap();
                let r2: Dual2 = match (*name, own) {
                    ("neg", false) => -&x2,
                    ("neg", true) => -x2.clone(),
                    ("abs", _) => x2.abs(),
                    ("exp", _) => x2.exp(),
                    ("log", _) => x2.log(),
                    ("pow2", false) => (&x2).pow(2.0),
                    ("pow2", true) => x2.clone().pow(2.0),
                    ("pow3", false) => (&x2).pow(3.0),
                    ("pow3", true) => x2.clone().pow(3.0),
                    ("pow0.5", false) => (&x2).pow(0.5),
                    ("pow0.5", true) => x2.clone().pow(0.5),
                    ("pow-1", false) => (&x2).pow(-1.0),
                    ("pow-1", true) => x2.clone().pow(-1.0),
                    ("norm_cdf", _) => x2.norm_cdf(),
                    _ => x2.inv_norm_cdf(),
                };
                let g = r2.gradient1(uni.clone());
                let h = r2.gradient2(uni.clone());
                let n = r2.vars().len();
                let mut bad = !close(r2.real(), *f0, 1e-12) || r2.dual().len() != n || r2.dual2().shape() != [n, n] || n != size;
                let gs = lx.iter().map(|n| gv(*n).abs()).fold(0.0_f64, f64::max);
                let hs = (f1.abs() + f2.abs() * gs * gs).max(1.0);
                'outer: for i in 0..nv {
                    let ii = lx.contains(&i);
                    let wi = if ii { f1 * gv(i) } else { 0.0 };
                    if !close_scaled(g[i], wi, 1e-11, wi.abs().max(1.0)) {
                        bad = true;
                        break;
                    }
                    for j in 0..nv {
                        let w = if ii && lx.contains(&j) { f1 * hv(i, j) + f2 * gv(i) * gv(j) } else { 0.0 };
                        if !close_scaled(h[[i, j]], w, 1e-10, hs) || h[[i, j]].to_bits() != h[[j, i]].to_bits() && h[[i, j]] != h[[j, i]] {
                            bad = true;
                            break 'outer;
                        }
                    }
                }
                acc.outcome(&(*name, size, r2.real().to_bits()));
                if bad {
                    acc.violate(&format!("{}/many-names/{}", prop, name), idx, case.clone(), json!({"size": size, "want_value": f0, "want_hessian": "f'(x) H + f''(x) g g^T by name, symmetric"}), json!(format!("{:?}", r2.real())));
                }
            }
        }
    }
}

/// Unary functions at finite but awkward magnitudes (results close to the largest double, subnormal or underflowing
/// results): every component whose TRUE value is representable must still come out right - an intermediate that
/// leaves the range although the result does not is a defect. `which` indexes AWKWARD.
pub const AWKWARD: [f64; 10] = [1.2e154, 1.0e154, 2.5e153, 1.0e-120, 1.0e-107, 7.0e-155, 3.0e-162, 1.0e300, 1.0e-300, 4.0e-320];

pub fn awkward_unary(which: usize, second: bool, prop: &str, case: Value, idx: u64, acc: &mut Acc) {
    let x = AWKWARD[which];
    let uni: Vec<String> = vec!["a".into(), "b".into()];
    let g = [1.0_f64, 2.5];
    let hh = [[0.5_f64, 0.25], [0.25, 0.0]]; // true second partials of the argument
    // (name, f, f', f'') with the derivative factors written in their directly representable form
    let mut table: Vec<(&str, f64, f64, f64)> = vec![
        ("neg", -x, -1.0, 0.0),
        ("abs", x.abs(), 1.0, 0.0),
        ("pow2", x * x, 2.0 * x, 2.0),
        ("pow3", x.powf(3.0), 3.0 * x * x, 6.0 * x),
        ("pow0.5", x.sqrt(), 0.5 / x.sqrt(), -0.25 / (x * x.sqrt())),
        ("pow-1", 1.0 / x, -1.0 / x / x, 2.0 / x / x / x),
        ("log", x.ln(), 1.0 / x, -1.0 / x / x),
    ];
    if x < 1.0 {
        table.push(("exp", x.exp(), x.exp(), x.exp()));
        table.push(("norm_cdf", phi_cdf(x), phi_pdf(x), -x * phi_pdf(x)));
    }
    let judged = |w: f64| w.is_finite() && (w == 0.0 || w.abs() > 1e-290);
    acc.nontrivial();
    for (name, f0, f1, f2) in table.iter() {
        for own in [false, true] {
            acc.eval();
            if !second {
                let x1 = Dual::try_new(x, uni.clone(), g.to_vec()).unwrap();
                let r: Dual = match (*name, own) {
                    ("neg", false) => -&x1,
                    ("neg", true) => -x1.clone(),
                    ("abs", _) => x1.abs(),
                    ("exp", _) => x1.exp(),
                    ("log", _) => x1.log(),
                    ("norm_cdf", _) => x1.norm_cdf(),
                    ("pow2", false) => (&x1).pow(2.0),
                    ("pow2", true) => x1.clone().pow(2.0),
                    ("pow3", false) => (&x1).pow(3.0),
                    ("pow3", true) => x1.clone().pow(3.0),
                    ("pow0.5", false) => (&x1).pow(0.5),
                    ("pow0.5", true) => x1.clone().pow(0.5),
                    (_, false) => (&x1).pow(-1.0),
                    (_, true) => x1.clone().pow(-1.0),
                };
                let gr = r.gradient1(uni.clone());
                let mut bad = judged(*f0) && !close_scaled(r.real(), *f0, 1e-12, f0.abs());
                for i in 0..2 {
                    let w = f1 * g[i];
                    if judged(w) && judged(*f1) && !close_scaled(gr[i], w, 1e-11, w.abs()) {
                        bad = true;
                    }
                }
                if bad {
                    acc.violate(&format!("{}/awkward-magnitude/{}", prop, name), idx, case.clone(), json!({"x": x, "want": [f0, f1 * g[0], f1 * g[1]]}), json!(format!("{:?}", r)));
                }
            } else {
                let x2 = Dual2::try_new(x, uni.clone(), g.to_vec(), vec![0.5 * hh[0][0], 0.5 * hh[0][1], 0.5 * hh[1][0], 0.5 * hh[1][1]]).unwrap();
                let r: Dual2 = match (*name, own) {
                    ("neg", false) => -&x2,
                    ("neg", true) => -x2.clone(),
                    ("abs", _) => x2.abs(),
                    ("exp", _) => x2.exp(),
                    ("log", _) => x2.log(),
                    ("norm_cdf", _) => x2.norm_cdf(),
                    ("pow2", false) => (&x2).pow(2.0),
                    ("pow2", true) => x2.clone().pow(2.0),
                    ("pow3", false) => (&x2).pow(3.0),
                    ("pow3", true) => x2.clone().pow(3.0),
                    ("pow0.5", false) => (&x2).pow(0.5),
                    ("pow0.5", true) => x2.clone().pow(0.5),
                    (_, false) => (&x2).pow(-1.0),
                    (_, true) => x2.clone().pow(-1.0),
                };
                let gr = r.gradient1(uni.clone());
                let hr = r.gradient2(uni.clone());
                let mut bad = judged(*f0) && !close_scaled(r.real(), *f0, 1e-12, f0.abs());
                for i in 0..2 {
                    let w = f1 * g[i];
                    if judged(w) && judged(*f1) && !close_scaled(gr[i], w, 1e-11, w.abs()) {
                        bad = true;
                    }
                    for j in 0..2 {
                        let (t1, t2) = (f1 * hh[i][j], f2 * g[i] * g[j]);
                        let w = t1 + t2;
                        // judged only where both terms and their sum are representable and do not cancel
                        if judged(t1) && judged(t2) && judged(w) && judged(*f1) && judged(*f2) && w.abs() > 1e-3 * (t1.abs() + t2.abs()) && !close_scaled(hr[[i, j]], w, 1e-10, t1.abs() + t2.abs()) {
                            bad = true;
                        }
                    }
                }
                if bad {
                    acc.violate(&format!("{}/awkward-magnitude/{}", prop, name), idx, case.clone(), json!({"x": x, "want_value": f0, "want_f1": f1, "want_f2": f2}), json!(format!("{:?} {:?} {:?}", r.real(), gr, hr)));
                }
            }
        }
    }
}

/// real powers with unusual exponents: whole exponents beyond the 32-bit range at bases next to +-1 (the result is an
/// ordinary number), large odd exponents at negative bases, ordinary fractional and negative exponents
pub const POWERS: [(f64, f64); 12] = [
    (-1.0, 4294967297.0),
    (-1.0, 2147483648.0),
    (1.0 + 9.313225746154785e-10, 4294967296.0),
    (1.0 + 2.3283064365386963e-10, 6.0e9),
    (0.999999999, 3.0e9),
    (1.0000001, 2147483649.0),
    (2.5, 7.0),
    (0.5, 31.0),
    (-1.5, 5.0),
    (1.7, -3.0),
    (3.25, 2.5),
    (1.0e-3, 100.0),
];

pub fn awkward_power(which: usize, second: bool, prop: &str, case: Value, idx: u64, acc: &mut Acc) {
    let (x, p) = POWERS[which];
    let uni: Vec<String> = vec!["a".into(), "b".into()];
    let g = [1.0_f64, 2.5];
    let hh = [[0.5_f64, 0.25], [0.25, 0.0]];
    let (f0, f1, f2) = (x.powf(p), p * x.powf(p - 1.0), p * (p - 1.0) * x.powf(p - 2.0));
    let judged = |w: f64| w.is_finite() && (w == 0.0 || w.abs() > 1e-290);
    // the value of a power with an exponent of 1e9 carries a relative rounding of about p * 1e-16 whatever the route
    let tol = (p.abs() * 4e-16).max(1e-12);
    acc.nontrivial();
    for own in [false, true] {
        acc.eval();
        if !second {
            let x1 = Dual::try_new(x, uni.clone(), g.to_vec()).unwrap();
            let r: Dual = if own { x1.clone().pow(p) } else { (&x1).pow(p) };
            let gr = r.gradient1(uni.clone());
            let mut bad = judged(f0) && !close_scaled(r.real(), f0, tol, f0.abs());
            for i in 0..2 {
                let w = f1 * g[i];
                if judged(w) && !close_scaled(gr[i], w, tol * 10.0, w.abs()) {
                    bad = true;
                }
            }
            if bad {
                acc.violate(&format!("{}/awkward-power", prop), idx, case.clone(), json!({"x": x, "p": p, "want": [f0, f1 * g[0], f1 * g[1]]}), json!(format!("{:?}", r)));
            }
        } else {
            let x2 = Dual2::try_new(x, uni.clone(), g.to_vec(), vec![0.5 * hh[0][0], 0.5 * hh[0][1], 0.5 * hh[1][0], 0.5 * hh[1][1]]).unwrap();
            let r: Dual2 = if own { x2.clone().pow(p) } else { (&x2).pow(p) };
            let gr = r.gradient1(uni.clone());
            let hr = r.gradient2(uni.clone());
            let mut bad = judged(f0) && !close_scaled(r.real(), f0, tol, f0.abs());
            for i in 0..2 {
                let w = f1 * g[i];
                if judged(w) && !close_scaled(gr[i], w, tol * 10.0, w.abs()) {
                    bad = true;
                }
                for j in 0..2 {
                    let (t1, t2) = (f1 * hh[i][j], f2 * g[i] * g[j]);
                    let w = t1 + t2;
                    if judged(t1) && judged(t2) && judged(w) && w.abs() > 1e-3 * (t1.abs() + t2.abs()) && !close_scaled(hr[[i, j]], w, tol * 100.0, t1.abs() + t2.abs()) {
                        bad = true;
                    }
                }
            }
            if bad {
                acc.violate(&format!("{}/awkward-power", prop), idx, case.clone(), json!({"x": x, "p": p, "want_value": f0, "want_f1": f1, "want_f2": f2}), json!(format!("{:?} {:?} {:?}", r.real(), gr, hr)));
            }
        }
    }
}

pub fn explore_large(prop: &str, second: bool) -> (Acc, Value) {
    let mut acc = Acc::new();
    let mut n = 0u64;
    for size in LARGE_SIZES {
        for stored in 0..3u8 {
            let case = json!({"expr": {"Leaf": 0}, "large": [size, stored]});
            large_unary(size, stored, second, prop, case.clone(), n, &mut acc);
            if stored == 0 {
                acc.sample(|| case.clone());
            }
            n += 1;
        }
    }
    for which in 0..AWKWARD.len() {
        let case = json!({"expr": {"Leaf": 0}, "large": [which, 200]});
        awkward_unary(which, second, prop, case, n, &mut acc);
        n += 1;
    }
    for which in 0..POWERS.len() {
        let case = json!({"expr": {"Leaf": 0}, "large": [which, 201]});
        awkward_power(which, second, prop, case, n, &mut acc);
        n += 1;
    }
    (acc, json!({"sizes": LARGE_SIZES, "stored_orders": 3, "functions": 10, "awkward_magnitudes": AWKWARD, "unusual_powers": POWERS.len()}))
}
