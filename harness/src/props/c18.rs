//! C18 Changing derivative order or mixing number kinds never alters values.
use crate::common::*;
use crate::refdual::*;
use crate::spec::*;
use num_traits::{One, Pow, Signed, Zero};
use rateslib::dual::{set_order, set_order_clone, ADOrder, Dual, Dual2, Gradient1, Gradient2, MathFuncs, Number, Vars};
use serde::{Deserialize, Serialize};
use serde_json::json;

#[derive(Clone, Debug, Serialize, Deserialize)]
pub enum Case {
    /// set_order / set_order_clone / From conversions of one number of `kind` to `target`
    Order { x: NumSpec, kind: u8, target: u8, vars: Vec<usize> },
    /// every binary operator of the container on (a as kind ka, b as kind kb)
    Binary { a: NumSpec, b: NumSpec, ka: u8, kb: u8 },
    /// unary operators / functions of the container
    Unary { x: NumSpec, kind: u8 },
    /// sum of three container values of kinds (k0, k1, k2) whose real parts are taken from a table where float
    /// addition is not associative; must equal the left fold from zero, bit for bit
    Sum3 { vals: [u8; 3], kinds: [u8; 3] },
    /// n first-order numbers with ONE second-order number at position `dual2_at`: the sum must be refused
    LongMixedSum { n: usize, dual2_at: usize },
    /// history: a sequence of float raisings (request list index, target order), EVERY earlier result kept
    /// alive, each result judged on its own (distinct requested names in first-appearance order, unit
    /// gradient, zero Hessian, value unchanged)
    RaiseHistory { steps: Vec<(u8, u8)>, clone_form: bool },
}

/// request lists of the raising history, with repeated names
/// (the last five are lists whose names run together to the same text as another list's: "c"+"dd" = "cd"+"d", ...)
const RAISE_REQ: [&[&str]; 12] = [&["c"], &["c", "d"], &["d", "c"], &["c", "c"], &["d", "d", "c"], &["c", "d", "c"], &[], &["cd"], &["c", "dd"], &["cd", "d"], &["x1", "0"], &["x", "10"]];

fn uni() -> Vec<String> {
    universe(4) // a b c d ; "c","d" are used as requested tag names
}

fn ad(o: u8) -> ADOrder {
    match o {
        0 => ADOrder::Zero,
        1 => ADOrder::One,
        _ => ADOrder::Two,
    }
}

fn specs(v: f64, salt: usize) -> Vec<NumSpec> {
    vec![
        NumSpec::constant(v),
        NumSpec { v, names: vec![0], g: vec![gen_val(salt)], h: vec![gen_val(salt + 3)] },
        NumSpec {
            v,
            names: vec![1, 0],
            g: vec![gen_val(salt + 1), gen_val(salt + 2)],
            h: vec![gen_val(salt + 4), gen_val(salt + 5), gen_val(salt + 5), gen_val(salt + 6)],
        },
        // zero gradient with a non-zero Hessian (a stationary point), and names carried with all-zero content
        NumSpec { v, names: vec![0], g: vec![0.0], h: vec![gen_val(salt + 2)] },
        NumSpec { v, names: vec![0, 1], g: vec![0.0, 0.0], h: vec![0.0, gen_val(salt + 1), gen_val(salt + 1), 0.0] },
        NumSpec { v, names: vec![1], g: vec![0.0], h: vec![0.0] },
    ]
}

fn cases(tier: Tier) -> Vec<Case> {
    let mut out = vec![];
    let signed: Vec<f64> = tier.pick(vec![-2.5, 0.3, 1.7], vec![-2.5, -0.4, 0.3, 0.8, 1.7, 6.5]);
    let mut pool = vec![];
    for (k, v) in signed.iter().enumerate() {
        pool.extend(specs(*v, k));
    }
    let tag_lists: Vec<Vec<usize>> = vec![vec![], vec![2], vec![3, 2]];
    for x in pool.iter() {
        for kind in 0..3u8 {
            if kind == 0 && !x.names.is_empty() {
                continue;
            }
            for target in 0..3u8 {
                for vars in tag_lists.iter() {
                    out.push(Case::Order { x: x.clone(), kind, target, vars: vars.clone() });
                }
            }
            out.push(Case::Unary { x: x.clone(), kind });
        }
    }
    for a in pool.iter() {
        for b in pool.iter() {
            for ka in 0..3u8 {
                for kb in 0..3u8 {
                    if (ka == 0 && !a.names.is_empty()) || (kb == 0 && !b.names.is_empty()) {
                        continue;
                    }
                    out.push(Case::Binary { a: a.clone(), b: b.clone(), ka, kb });
                }
            }
        }
    }
    // sums of three: every value triple x every kind triple
    for v0 in 0..7u8 {
        for v1 in 0..7u8 {
            for v2 in 0..7u8 {
                for kc in 0..27u8 {
                    let kinds = [kc % 3, (kc / 3) % 3, kc / 9];
                    if kinds == [0, 0, 0] && !(v0 < 2 && v2 < 2) {
                        continue; // plain floats: a reduced set
                    }
                    out.push(Case::Sum3 { vals: [v0, v1, v2], kinds });
                }
            }
        }
    }
    // long sums (the refusal of mixed orders must not depend on the length)
    for n in [1023usize, 1024, 1025, 1100] {
        for pos in [0usize, 1, n / 2, n - 1] {
            out.push(Case::LongMixedSum { n, dual2_at: pos });
        }
    }
    // raising histories: every sequence of length 1..3 over 7 request lists x 2 target orders, both forms
    let alphabet: Vec<(u8, u8)> = (0..RAISE_REQ.len() as u8).flat_map(|r| [(r, 1u8), (r, 2u8)]).collect();
    for clone_form in [false, true] {
        for a in alphabet.iter() {
            out.push(Case::RaiseHistory { steps: vec![*a], clone_form });
            for b in alphabet.iter() {
                out.push(Case::RaiseHistory { steps: vec![*a, *b], clone_form });
                for c in alphabet.iter() {
                    out.push(Case::RaiseHistory { steps: vec![*a, *b, *c], clone_form });
                }
            }
        }
    }
    out
}

/// exact (bitwise on value, exact on every derivative, same kind) equality of two container values
fn same(x: &Number, y: &Number, u: &[String]) -> bool {
    match (x, y) {
        (Number::F64(a), Number::F64(b)) => a.to_bits() == b.to_bits() || (a.is_nan() && b.is_nan()),
        (Number::Dual(a), Number::Dual(b)) => match (RefDual::from_dual(a, u), RefDual::from_dual(b, u)) {
            (Ok(ra), Ok(rb)) => bits_eq(&ra, &rb),
            _ => false,
        },
        (Number::Dual2(a), Number::Dual2(b)) => match (RefDual::from_dual2(a, u), RefDual::from_dual2(b, u)) {
            (Ok(ra), Ok(rb)) => bits_eq(&ra, &rb),
            _ => false,
        },
        _ => false,
    }
}

fn bits_eq(a: &RefDual, b: &RefDual) -> bool {
    let f = |x: f64, y: f64| x.to_bits() == y.to_bits() || x == y || (x.is_nan() && y.is_nan());
    if !f(a.val.v, b.val.v) || a.mask != b.mask {
        return false;
    }
    for i in 0..N {
        if !f(a.val.g[i], b.val.g[i]) {
            return false;
        }
        for j in 0..N {
            if !f(a.val.h[i][j], b.val.h[i][j]) {
                return false;
            }
        }
    }
    true
}

fn kind_of(n: &Number) -> u8 {
    match n {
        Number::F64(_) => 0,
        Number::Dual(_) => 1,
        Number::Dual2(_) => 2,
    }
}

fn value_of(n: &Number) -> f64 {
    match n {
        Number::F64(f) => *f,
        Number::Dual(d) => d.real(),
        Number::Dual2(d) => d.real(),
    }
}

pub fn check(case: &Case, idx: u64, acc: &mut Acc) {
    let u = uni();
    let cj = || serde_json::to_value(case).unwrap();
    match case {
        Case::Order { x, kind, target, vars } => {
            let n = x.number(&u, *kind);
            let tags: Vec<String> = vars.iter().map(|i| u[*i].clone()).collect();
            if kind != target {
                acc.nontrivial();
            }
            // expected, from the reference model
            let want_ref: Option<RefDual> = match (kind, target) {
                (_, 0) => None,
                (0, _) => Some(RefDual::leaf(x.v, &vars.iter().map(|i| (*i, 1.0)).collect::<Vec<_>>())),
                (1, _) => Some(x.refd1()),
                (2, 1) => Some(x.refd1()),
                _ => Some(x.refd2()),
            };
            let judge = |got: &Number, how: &str, acc: &mut Acc| {
                acc.eval();
                acc.outcome(&(how.len(), kind_of(got), value_of(got).to_bits(), *kind, *target));
                let ok = match (got, target) {
                    (Number::F64(f), 0) => f.to_bits() == x.v.to_bits(),
                    (Number::Dual(d), 1) => {
                        let w = want_ref.as_ref().unwrap();
                        d.real().to_bits() == x.v.to_bits()
                            && RefDual::from_dual(d, &u).map(|r| bits_eq(&r, &w.drop_hessian())).unwrap_or(false)
                    }
                    (Number::Dual2(d), 2) => {
                        let w = want_ref.as_ref().unwrap();
                        d.real().to_bits() == x.v.to_bits() && RefDual::from_dual2(d, &u).map(|r| bits_eq(&r, w)).unwrap_or(false)
                    }
                    _ => false,
                };
                if !ok {
                    acc.violate(
                        &format!("order/{}/{}to{}", how, kind, target),
                        idx,
                        cj(),
                        json!("value unchanged; exactly the requested names with unit gradient when raised from float; zero Hessian when raised to second order; only higher terms dropped when lowered"),
                        json!(format!("{:?}", got)),
                    );
                }
            };
            let g1 = set_order(n.clone(), ad(*target), tags.clone());
            judge(&g1, "set_order", acc);
            let g2 = set_order_clone(&n, ad(*target), tags.clone());
            judge(&g2, "set_order_clone", acc);
            // float raised: names in exactly the requested order
            if *kind == 0 && *target > 0 {
                let got_names: Vec<String> = match &g1 {
                    Number::Dual(d) => d.vars().iter().cloned().collect(),
                    Number::Dual2(d) => d.vars().iter().cloned().collect(),
                    _ => vec![],
                };
                if got_names != tags {
                    acc.violate("order/names", idx, cj(), json!(tags), json!(got_names));
                }
            }
            // From conversions (vars play no role)
            if vars.is_empty() {
                let conv: Number = match target {
                    0 => Number::F64(f64::from(n.clone())),
                    1 => Number::Dual(Dual::from(n.clone())),
                    _ => Number::Dual2(Dual2::from(n.clone())),
                };
                judge(&conv, "From<Number>", acc);
                let convr: Number = match target {
                    0 => Number::F64(f64::from(&n)),
                    1 => Number::Dual(Dual::from(&n)),
                    _ => Number::Dual2(Dual2::from(&n)),
                };
                judge(&convr, "From<&Number>", acc);
                // direct conversions between the contained types
                let direct: Option<Number> = match (kind, target) {
                    (1, 0) => Some(Number::F64(f64::from(x.dual(&u)))),
                    (2, 0) => Some(Number::F64(f64::from(x.dual2(&u)))),
                    (0, 1) => Some(Number::Dual(Dual::from(x.v))),
                    (0, 2) => Some(Number::Dual2(Dual2::from(x.v))),
                    (2, 1) => Some(Number::Dual(Dual::from(x.dual2(&u)))),
                    (1, 2) => Some(Number::Dual2(Dual2::from(x.dual(&u)))),
                    _ => None,
                };
                if let Some(d) = direct {
                    judge(&d, "From<contained>", acc);
                }
                let directr: Option<Number> = match (kind, target) {
                    (1, 0) => Some(Number::F64(f64::from(&x.dual(&u)))),
                    (2, 0) => Some(Number::F64(f64::from(&x.dual2(&u)))),
                    (2, 1) => Some(Number::Dual(Dual::from(&x.dual2(&u)))),
                    (1, 2) => Some(Number::Dual2(Dual2::from(&x.dual(&u)))),
                    _ => None,
                };
                if let Some(d) = directr {
                    judge(&d, "From<&contained>", acc);
                }
                // into the container keeps kind and content
                let back: Number = match kind {
                    0 => Number::from(x.v),
                    1 => Number::from(x.dual(&u)),
                    _ => Number::from(x.dual2(&u)),
                };
                if !same(&back, &n, &u) {
                    acc.violate("order/into-container", idx, cj(), json!(format!("{:?}", n)), json!(format!("{:?}", back)));
                }
            }
            if idx % 53 == 0 {
                acc.sample(cj);
            }
        }
        Case::Binary { a, b, ka, kb } => {
            let (na, nb) = (a.number(&u, *ka), b.number(&u, *kb));
            let mixed = (*ka == 1 && *kb == 2) || (*ka == 2 && *kb == 1);
            if ka != kb {
                acc.nontrivial();
            }
            acc.bump(&format!("kinds {}{}", ka, kb));
            // expected via the contained types
            let expect = |op: &str| -> Option<Number> {
                let r = match (ka, kb) {
                    (0, 0) => Number::F64(match op {
                        "add" => a.v + b.v,
                        "sub" => a.v - b.v,
                        "mul" => a.v * b.v,
                        "div" => a.v / b.v,
                        _ => a.v % b.v,
                    }),
                    (0, 1) => {
                        let d = b.dual(&u);
                        Number::Dual(match op {
                            "add" => a.v + &d,
                            "sub" => a.v - &d,
                            "mul" => a.v * &d,
                            "div" => a.v / &d,
                            _ => a.v % &d,
                        })
                    }
                    (0, 2) => {
                        let d = b.dual2(&u);
                        Number::Dual2(match op {
                            "add" => a.v + &d,
                            "sub" => a.v - &d,
                            "mul" => a.v * &d,
                            "div" => a.v / &d,
                            _ => a.v % &d,
                        })
                    }
                    (1, 0) => {
                        let d = a.dual(&u);
                        Number::Dual(match op {
                            "add" => &d + b.v,
                            "sub" => &d - b.v,
                            "mul" => &d * b.v,
                            "div" => &d / b.v,
                            _ => &d % b.v,
                        })
                    }
                    (2, 0) => {
                        let d = a.dual2(&u);
                        Number::Dual2(match op {
                            "add" => &d + b.v,
                            "sub" => &d - b.v,
                            "mul" => &d * b.v,
                            "div" => &d / b.v,
                            _ => &d % b.v,
                        })
                    }
                    (1, 1) => {
                        let (d, e) = (a.dual(&u), b.dual(&u));
                        Number::Dual(match op {
                            "add" => &d + &e,
                            "sub" => &d - &e,
                            "mul" => &d * &e,
                            "div" => &d / &e,
                            _ => &d % &e,
                        })
                    }
                    (2, 2) => {
                        let (d, e) = (a.dual2(&u), b.dual2(&u));
                        Number::Dual2(match op {
                            "add" => &d + &e,
                            "sub" => &d - &e,
                            "mul" => &d * &e,
                            "div" => &d / &e,
                            _ => &d % &e,
                        })
                    }
                    _ => return None,
                };
                Some(r)
            };
            for op in ["add", "sub", "mul", "div", "rem"] {
                acc.eval();
                let got = guarded(|| match op {
                    "add" => &na + &nb,
                    "sub" => &na - &nb,
                    "mul" => &na * &nb,
                    "div" => &na / &nb,
                    _ => &na % &nb,
                });
                let got_owned = guarded(|| match op {
                    "add" => na.clone() + nb.clone(),
                    "sub" => na.clone() - nb.clone(),
                    "mul" => na.clone() * nb.clone(),
                    "div" => na.clone() / nb.clone(),
                    _ => na.clone() % nb.clone(),
                });
                for (form, g) in [("ref", &got), ("own", &got_owned)] {
                    match (g, mixed) {
                        (Ok(v), true) => acc.violate(
                            &format!("mixed/{}/{}{}", op, ka, kb),
                            idx,
                            cj(),
                            json!("refusal (no value) when combining first and second order"),
                            json!(format!("{} form returned {:?}", form, v)),
                        ),
                        (Err(_), true) => {
                            acc.bump("refusals observed");
                        }
                        (Ok(v), false) => {
                            let w = expect(op).unwrap();
                            acc.outcome(&(op, kind_of(v), value_of(v).to_bits()));
                            if !same(v, &w, &u) {
                                acc.violate(&format!("arith/{}/{}{}", op, ka, kb), idx, cj(), json!(format!("{:?}", w)), json!(format!("{} form: {:?}", form, v)));
                            }
                        }
                        (Err(m), false) => acc.violate(&format!("arith/{}/{}{}/panic", op, ka, kb), idx, cj(), json!("a value"), json!(m)),
                    }
                }
            }
            // Number (op) f64 and f64 (op) Number, when b resp. a is a plain float
            if *kb == 0 {
                for op in ["add", "sub", "mul", "div", "rem"] {
                    acc.eval();
                    let got = match op {
                        "add" => &na + &b.v,
                        "sub" => &na - &b.v,
                        "mul" => &na * &b.v,
                        "div" => &na / &b.v,
                        _ => &na % &b.v,
                    };
                    let w = match ka {
                        0 => expect(op).unwrap(),
                        _ => expect(op).unwrap(),
                    };
                    if !same(&got, &w, &u) {
                        acc.violate(&format!("arith-f64/{}/N{}-f", op, ka), idx, cj(), json!(format!("{:?}", w)), json!(format!("{:?}", got)));
                    }
                }
            }
            if *ka == 0 {
                for op in ["add", "sub", "mul", "div", "rem"] {
                    acc.eval();
                    let got = match op {
                        "add" => &a.v + &nb,
                        "sub" => &a.v - &nb,
                        "mul" => &a.v * &nb,
                        "div" => &a.v / &nb,
                        _ => &a.v % &nb,
                    };
                    let w = expect(op).unwrap();
                    if !same(&got, &w, &u) {
                        acc.violate(&format!("arith-f64/{}/f-N{}", op, kb), idx, cj(), json!(format!("{:?}", w)), json!(format!("{:?}", got)));
                    }
                }
            }
            // == and partial_cmp
            acc.evals_add(2);
            let e = guarded(|| na == nb);
            let c = guarded(|| na.partial_cmp(&nb));
            if mixed {
                if let Ok(v) = &e {
                    acc.violate(&format!("mixed/eq/{}{}", ka, kb), idx, cj(), json!("refusal"), json!(v));
                }
                if let Ok(v) = &c {
                    acc.violate(&format!("mixed/cmp/{}{}", ka, kb), idx, cj(), json!("refusal"), json!(format!("{:?}", v)));
                }
            } else {
                let want_eq = match (ka, kb) {
                    (0, 0) => a.v == b.v,
                    (0, 1) => Dual::new(a.v, vec![]) == b.dual(&u),
                    (1, 0) => a.dual(&u) == Dual::new(b.v, vec![]),
                    (1, 1) => a.dual(&u) == b.dual(&u),
                    (0, 2) => Dual2::new(a.v, vec![]) == b.dual2(&u),
                    (2, 0) => a.dual2(&u) == Dual2::new(b.v, vec![]),
                    _ => a.dual2(&u) == b.dual2(&u),
                };
                if e != Ok(want_eq) {
                    acc.violate(&format!("eq/{}{}", ka, kb), idx, cj(), json!(want_eq), json!(format!("{:?}", e)));
                }
                if c != Ok(a.v.partial_cmp(&b.v)) {
                    acc.violate(&format!("cmp/{}{}", ka, kb), idx, cj(), json!(format!("{:?}", a.v.partial_cmp(&b.v))), json!(format!("{:?}", c)));
                }
            }
            // Number == f64 and f64 == Number agree with the contained comparison
            if *kb == 0 {
                acc.eval();
                let want = match ka {
                    0 => a.v == b.v,
                    1 => a.dual(&u) == b.v,
                    _ => a.dual2(&u) == b.v,
                };
                let got = guarded(|| na == b.v);
                if got != Ok(want) {
                    acc.violate(&format!("eq-f64/N{}-f", ka), idx, cj(), json!(want), json!(format!("{:?}", got)));
                }
            }
            if *ka == 0 {
                acc.eval();
                let want = match kb {
                    0 => a.v == b.v,
                    1 => a.v == b.dual(&u),
                    _ => a.v == b.dual2(&u),
                };
                let got = guarded(|| a.v == nb);
                if got != Ok(want) {
                    acc.violate(&format!("eq-f64/f-N{}", kb), idx, cj(), json!(want), json!(format!("{:?}", got)));
                }
            }
            // abs_sub
            acc.eval();
            let s = guarded(|| na.abs_sub(&nb));
            match (s, mixed) {
                (Ok(v), true) => acc.violate(&format!("mixed/abs_sub/{}{}", ka, kb), idx, cj(), json!("refusal"), json!(format!("{:?}", v))),
                (Err(_), true) => {}
                (Err(m), false) => acc.violate("abs_sub/panic", idx, cj(), json!("a value"), json!(m)),
                (Ok(v), false) => {
                    // positive difference: zero if a <= b else a - b, same kind as a - b
                    let w = if a.v <= b.v {
                        None
                    } else {
                        Some(&na - &nb)
                    };
                    let ok = match w {
                        Some(w) => same(&v, &w, &u),
                        None => value_of(&v) == 0.0,
                    };
                    if !ok {
                        acc.violate(&format!("abs_sub/{}{}", ka, kb), idx, cj(), json!("max(a-b, 0)"), json!(format!("{:?}", v)));
                    }
                }
            }
            // Sum of the two
            acc.eval();
            let sm = guarded(|| vec![na.clone(), nb.clone()].into_iter().sum::<Number>());
            match (sm, mixed) {
                (Ok(v), true) => acc.violate(&format!("mixed/sum/{}{}", ka, kb), idx, cj(), json!("refusal"), json!(format!("{:?}", v))),
                (Err(_), true) => {}
                (Err(m), false) => acc.violate("sum/panic", idx, cj(), json!("a value"), json!(m)),
                (Ok(v), false) => {
                    let w = &(&Number::F64(0.0) + &na) + &nb;
                    if !same(&v, &w, &u) {
                        acc.violate(&format!("sum/{}{}", ka, kb), idx, cj(), json!(format!("{:?}", w)), json!(format!("{:?}", v)));
                    }
                }
            }
            if idx % 577 == 0 {
                acc.sample(cj);
            }
        }
        Case::Sum3 { vals, kinds } => {
            const TBL: [f64; 7] = [1e16, -1e16, 1.0, 0.1, 0.2, 0.3, 1e308];
            let mk = |i: usize| -> Number {
                let v = TBL[vals[i] as usize];
                match kinds[i] {
                    0 => Number::F64(v),
                    1 => Number::Dual(Dual::try_new(v, vec![u[i % 2].clone()], vec![1.5 + i as f64]).unwrap()),
                    _ => Number::Dual2(Dual2::try_new(v, vec![u[i % 2].clone()], vec![1.5 + i as f64], vec![0.25]).unwrap()),
                }
            };
            let mixed = kinds.contains(&1) && kinds.contains(&2);
            let items: Vec<Number> = (0..3).map(mk).collect();
            acc.eval();
            if kinds.iter().any(|k| *k != kinds[0]) {
                acc.nontrivial();
            }
            let got = guarded(|| items.clone().into_iter().sum::<Number>());
            let want = guarded(|| &(&(&Number::F64(0.0) + &items[0]) + &items[1]) + &items[2]);
            match (got, want, mixed) {
                (Ok(v), _, true) => acc.violate("mixed/sum3", idx, cj(), json!("refusal"), json!(format!("{:?}", v))),
                (Err(_), _, true) => {}
                (Ok(v), Ok(w), false) => {
                    acc.outcome(&(kind_of(&v), value_of(&v).to_bits()));
                    if !same(&v, &w, &u) {
                        acc.violate("sum3/differs-from-left-fold", idx, cj(), json!(format!("{:?}", w)), json!(format!("{:?}", v)));
                    }
                }
                (g, w, false) => acc.violate("sum3/panic", idx, cj(), json!(format!("{:?}", w.is_ok())), json!(format!("{:?}", g.is_ok()))),
            }
        }
        Case::LongMixedSum { n, dual2_at } => {
            acc.eval();
            acc.nontrivial();
            let items: Vec<Number> = (0..*n)
                .map(|i| {
                    if i == *dual2_at {
                        Number::Dual2(Dual2::try_new(0.5, vec![u[0].clone()], vec![1.0], vec![0.25]).unwrap())
                    } else if i % 3 == 2 {
                        Number::F64(0.125)
                    } else {
                        Number::Dual(Dual::try_new(0.25 + i as f64, vec![u[i % 2].clone()], vec![2.0]).unwrap())
                    }
                })
                .collect();
            match guarded(|| items.into_iter().sum::<Number>()) {
                Ok(v) => acc.violate("mixed/long-sum", idx, cj(), json!("refusal"), json!(format!("a {} value", ["float", "first-order", "second-order"][kind_of(&v) as usize]))),
                Err(_) => acc.bump("refusals observed"),
            }
        }
        Case::RaiseHistory { steps, clone_form } => {
            let mut alive: Vec<Number> = vec![];
            acc.nontrivial();
            for (si, (ri, target)) in steps.iter().enumerate() {
                acc.eval();
                let req: Vec<String> = RAISE_REQ[*ri as usize].iter().map(|n| n.to_string()).collect();
                let mut distinct: Vec<String> = vec![];
                for r in req.iter() {
                    if !distinct.contains(r) {
                        distinct.push(r.clone());
                    }
                }
                let v = 1.25 + si as f64;
                let got = if *clone_form { set_order_clone(&Number::F64(v), ad(*target), req.clone()) } else { set_order(Number::F64(v), ad(*target), req.clone()) };
                let ok = match (&got, target) {
                    (Number::Dual(d), 1) => d.real().to_bits() == v.to_bits() && d.vars().iter().cloned().collect::<Vec<_>>() == distinct && d.dual().iter().all(|g| *g == 1.0) && d.dual().len() == distinct.len(),
                    (Number::Dual2(d), 2) => {
                        d.real().to_bits() == v.to_bits()
                            && d.vars().iter().cloned().collect::<Vec<_>>() == distinct
                            && d.dual().iter().all(|g| *g == 1.0)
                            && d.dual().len() == distinct.len()
                            && d.dual2().shape() == [distinct.len(), distinct.len()]
                            && d.dual2().iter().all(|h| *h == 0.0)
                    }
                    _ => false,
                };
                acc.outcome(&(kind_of(&got), distinct.len(), *target));
                if !ok {
                    acc.violate("order/raise-history", idx, cj(), json!({"step": si, "request": req, "want_names": distinct}), json!(format!("{:?}", got)));
                    break;
                }
                alive.push(got);
            }
            // the results kept alive are unchanged at the end
            for (si, n) in alive.iter().enumerate() {
                if value_of(n) != 1.25 + si as f64 {
                    acc.violate("order/raise-history/earlier-result-changed", idx, cj(), json!(1.25 + si as f64), json!(format!("{:?}", n)));
                }
            }
            if idx % 211 == 0 {
                acc.sample(cj);
            }
        }
        Case::Unary { x, kind } => {
            let n = x.number(&u, *kind);
            if *kind > 0 {
                acc.nontrivial();
            }
            let mk = |f: &dyn Fn(f64) -> f64, d1: &dyn Fn(&Dual) -> Dual, d2: &dyn Fn(&Dual2) -> Dual2| -> Number {
                match kind {
                    0 => Number::F64(f(x.v)),
                    1 => Number::Dual(d1(&x.dual(&u))),
                    _ => Number::Dual2(d2(&x.dual2(&u))),
                }
            };
            let mut trials: Vec<(&str, Number, Number)> = vec![
                ("neg-ref", -&n, mk(&|f| -f, &|d| -d, &|d| -d)),
                ("neg-own", -(n.clone()), mk(&|f| -f, &|d| -d, &|d| -d)),
                ("abs", n.abs(), mk(&|f| f.abs(), &|d| d.abs(), &|d| d.abs())),
                ("signum", n.signum(), mk(&|f| f.signum(), &|d| d.signum(), &|d| d.signum())),
                ("exp", n.exp(), mk(&|f| f.exp(), &|d| d.exp(), &|d| d.exp())),
                ("norm_cdf", n.norm_cdf(), mk(&|f| MathFuncs::norm_cdf(&f), &|d| d.norm_cdf(), &|d| d.norm_cdf())),
                ("pow2-own", n.clone().pow(2.0), mk(&|f| f.powf(2.0), &|d| d.pow(2.0), &|d| d.pow(2.0))),
                ("pow2-ref", (&n).pow(2.0), mk(&|f| f.powf(2.0), &|d| d.pow(2.0), &|d| d.pow(2.0))),
                ("pow-1-ref", (&n).pow(-1.0), mk(&|f| f.powf(-1.0), &|d| d.pow(-1.0), &|d| d.pow(-1.0))),
            ];
            if x.v > 0.0 {
                trials.push(("log", n.log(), mk(&|f| f.ln(), &|d| d.log(), &|d| d.log())));
                trials.push(("pow0.5", (&n).pow(0.5), mk(&|f| f.powf(0.5), &|d| d.pow(0.5), &|d| d.pow(0.5))));
            }
            if x.v > 0.0 && x.v < 1.0 {
                trials.push((
                    "inv_norm_cdf",
                    n.inv_norm_cdf(),
                    mk(&|f| MathFuncs::inv_norm_cdf(&f), &|d| d.inv_norm_cdf(), &|d| d.inv_norm_cdf()),
                ));
            }
            for (nm, got, want) in trials {
                acc.eval();
                acc.outcome(&(nm, kind_of(&got), value_of(&got).to_bits()));
                if !same(&got, &want, &u) {
                    acc.violate(&format!("unary/{}/{}", nm, kind), idx, cj(), json!(format!("{:?}", want)), json!(format!("{:?}", got)));
                }
            }
            acc.evals_add(2);
            if n.is_positive() != x.v.is_sign_positive() || n.is_negative() != x.v.is_sign_negative() {
                acc.violate("unary/sign-tests", idx, cj(), json!("sign of value"), json!([n.is_positive(), n.is_negative()]));
            }
            // zero / one are neutral and keep the kind
            let z = &n + &Number::zero();
            let o = &n * &Number::one();
            if !same(&z, &n, &u) || !same(&o, &n, &u) {
                acc.violate("unary/zero-one", idx, cj(), json!(format!("{:?}", n)), json!(format!("{:?} / {:?}", z, o)));
            }
            if idx % 7 == 0 {
                acc.sample(cj);
            }
        }
    }
}

pub fn run(ctx: &Ctx, replay_file: Option<String>) -> ! {
    if let Some(f) = replay_file {
        replay::<Case, _>(ctx, &f, check);
    }
    let cs = cases(ctx.tier);
    let acc = explore(&cs, check);
    if acc.breakdown.get("refusals observed").copied().unwrap_or(0) == 0 {
        machinery_fail("vacuous: no first/second-order mixing arm was reached");
    }
    let meta = Meta::exploration(
        "numbers = signed value table x {no names, one name, two names stored backwards with a Hessian, zero gradient with non-zero Hessian (one and two names), a name with all-zero content}; all 3x3 \
         (kind, target-order) cells of set_order / set_order_clone with tag lists of length 0-2, every From conversion \
         (owned and borrowed) between f64, Dual, Dual2 and Number; every binary operator of the container (+ - * / %, \
         ==, partial_cmp, abs_sub, Sum; borrowed and owned forms; Number-f64 and f64-Number forms) on all 3x3 kind \
         pairings of every ordered pair of numbers; every unary operator/function; == between the container and a bare float in both orders; sums of 1023 .. 1100 first-order numbers with one second-order number among them (must be refused); sums of three container values over a 7-value table where float addition is not associative (1e16, -1e16, 1, 0.1, 0.2, 0.3, 1e308) x every kind triple against the left fold from zero; EVERY sequence of 1..3 float raisings over 12 request lists (repeated names, and names that run together to the same text, included) x 2 target orders with all earlier results kept alive. Oracle: the reference content by \
         name for order changes; for arithmetic, bit-exact agreement (kind, value, every derivative by name) with the \
         same operator applied to the contained types; the two Dual/Dual2 arms must not return a value. Non-trivial: \
         order changes between different kinds, pairings of different kinds, unary ops on dual kinds.",
        json!({"values": ctx.tier.pick(3, 6), "cases": cs.len()}),
    )
    .assume("operators on the contained types are checked by C01-C03/C19; C18 is differential against them");
    finish(ctx, acc, meta)
}
