//! C16 Saving and loading an object gives back an equal object.
use crate::calmodel::*;
use crate::common::*;
use crate::curvemodel::{node_times, queries, ts_to_ndt, VSETS};
use crate::props::c09::CCYS;
use crate::props::c11::interp_of;
use indexmap::IndexMap;
use rateslib::calendars::{Cal, CalType, Convention, DateRoll, Modifier, NamedCal, UnionCal};
use rateslib::curves::{CurveDF, LinearInterpolator, LogLinearInterpolator, Nodes};
use rateslib::dual::{ADOrder, Dual, Dual2, Gradient1, Gradient2, Number, Vars};
use rateslib::fx::rates::{Ccy, FXRate, FXRates};
use rateslib::json::JSON;
use rateslib::splines::PPSpline;
use rateslib::verif_hooks as hooks;
use rateslib::verif_hooks::{VerifCurve, VerifInterp, VerifObj};
use serde::de::DeserializeOwned;
use serde::{Deserialize, Serialize};
use serde_json::{json, Value};

#[derive(Clone, Debug, Serialize, Deserialize)]
pub enum Case {
    /// `count` consecutive doubles starting `start` ulps after the double with bit pattern `anchor_bits`
    Floats { anchor_bits: u64, start: u64, count: u64 },
    DualStruct { id: u32 },
    /// numbers with the same names in different orders loaded one after the other on one thread, and inside one
    /// curve / one spline
    PermutedNames { id: u32 },
    CalStruct { mask: u8, hols: u8 },
    UnionStruct {
        id: u32,
        /// number of further member calendars (unions of 4 .. 14 members)
        #[serde(default)]
        extra: u32,
    },
    Named { name: String },
    Curve { interp: u8, order: u8, calkind: u8, conv: u8, modi: u8, index_base: bool, switches: Vec<u8> },
    Fx { id: u32 },
    Spline { id: u32 },
    /// curves whose node dates do not sort as text the way they sort as numbers (timestamps of 9 and 10 digits around
    /// 2001-09-09, negative timestamps before 1970)
    CurveDates { set: u8, interp: u8, order: u8 },
    /// large objects: numbers with `size` names, curves with `size` nodes, splines with `size` coefficients,
    /// FX markets of min(size, 14) currencies
    LargeStruct { size: usize },
}

const CONVS: [Convention; 11] = [
    Convention::One,
    Convention::OnePlus,
    Convention::Act365F,
    Convention::Act365FPlus,
    Convention::Act360,
    Convention::ThirtyE360,
    Convention::Thirty360,
    Convention::Thirty360ISDA,
    Convention::ActActISDA,
    Convention::ActActICMA,
    Convention::Bus252,
];
const INTERPS: [VerifInterp; 6] = [VerifInterp::Linear, VerifInterp::LogLinear, VerifInterp::LinearZeroRate, VerifInterp::FlatForward, VerifInterp::FlatBackward, VerifInterp::Null];

fn bits(x: f64) -> u64 {
    x.to_bits()
}

// ---- strict comparisons (every float field bitwise) ------------------------------------------------

fn same_dual(a: &Dual, b: &Dual) -> Result<(), String> {
    if bits(a.real()) != bits(b.real()) {
        return Err(format!("float/real {:e} came back as {:e}", a.real(), b.real()));
    }
    if !a.vars().iter().eq(b.vars().iter()) {
        return Err(format!("names {:?} vs {:?}", a.vars(), b.vars()));
    }
    if a.dual().len() != b.dual().len() || a.dual().iter().zip(b.dual().iter()).any(|(x, y)| bits(*x) != bits(*y)) {
        return Err(format!("float/gradient {:?} came back as {:?}", a.dual(), b.dual()));
    }
    let finite = a.real().is_finite() && a.dual().iter().all(|x| x.is_finite());
    if finite && a != b {
        return Err("structure/own == says different".into());
    }
    Ok(())
}
fn same_dual2(a: &Dual2, b: &Dual2) -> Result<(), String> {
    if bits(a.real()) != bits(b.real()) {
        return Err(format!("float/real {:e} came back as {:e}", a.real(), b.real()));
    }
    if !a.vars().iter().eq(b.vars().iter()) {
        return Err(format!("names {:?} vs {:?}", a.vars(), b.vars()));
    }
    if a.dual().len() != b.dual().len() || a.dual().iter().zip(b.dual().iter()).any(|(x, y)| bits(*x) != bits(*y)) {
        return Err(format!("float/gradient {:?} came back as {:?}", a.dual(), b.dual()));
    }
    if a.dual2().shape() != b.dual2().shape() || a.dual2().iter().zip(b.dual2().iter()).any(|(x, y)| bits(*x) != bits(*y)) {
        return Err(format!("float/hessian {:?} came back as {:?}", a.dual2(), b.dual2()));
    }
    let finite = a.real().is_finite() && a.dual().iter().all(|x| x.is_finite()) && a.dual2().iter().all(|x| x.is_finite());
    if finite && a != b {
        return Err("structure/own == says different".into());
    }
    Ok(())
}
fn same_number(a: &Number, b: &Number) -> Result<(), String> {
    match (a, b) {
        (Number::F64(x), Number::F64(y)) => {
            if bits(*x) == bits(*y) {
                Ok(())
            } else {
                Err(format!("float/value {:e} came back as {:e}", x, y))
            }
        }
        (Number::Dual(x), Number::Dual(y)) => same_dual(x, y),
        (Number::Dual2(x), Number::Dual2(y)) => same_dual2(x, y),
        _ => Err(format!("structure/kind {:?} vs {:?}", a, b)),
    }
}

fn same_cal_behaviour<A: DateRoll, B: DateRoll>(a: &A, b: &B, lo: i64, hi: i64) -> Result<(), String> {
    for z in lo..=hi {
        let d = to_ndt(z);
        if a.is_bus_day(&d) != b.is_bus_day(&d) || a.is_settlement(&d) != b.is_settlement(&d) || a.is_holiday(&d) != b.is_holiday(&d) {
            return Err(format!("query/calendar answers differ on {}", fmt_day(z)));
        }
    }
    Ok(())
}

fn same_fx(a: &FXRates, b: &FXRates) -> Result<(), String> {
    // the loaded market is at its default first order: compare in that state ...
    let mut a1 = a.clone();
    a1.set_ad_order(ADOrder::One).map_err(|_| "set_ad_order failed".to_string())?;
    if hooks::fxrates_currencies(&a1) != hooks::fxrates_currencies(b) {
        return Err(format!("structure/currencies {:?} came back as {:?}", hooks::fxrates_currencies(&a1), hooks::fxrates_currencies(b)));
    }
    let (qa, qb) = (hooks::fxrates_fx_rates(&a1), hooks::fxrates_fx_rates(b));
    if qa.len() != qb.len() {
        return Err("structure/quote count".into());
    }
    for (x, y) in qa.iter().zip(qb.iter()) {
        let (xl, xr, xn, xs) = hooks::fxrate_parts(x);
        let (yl, yr, yn, ys) = hooks::fxrate_parts(y);
        if xl != yl || xr != yr || xs != ys {
            return Err(format!("structure/quote {}{}@{:?} came back as {}{}@{:?}", xl, xr, xs, yl, yr, ys));
        }
        same_number(&xn, &yn).map_err(|e| format!("quote {}{}: {}", xl, xr, e))?;
    }
    if a1 != *b {
        return Err("structure/own == says different (at first order)".into());
    }
    // ... while the rates agree in any state
    let cs = hooks::fxrates_currencies(a);
    for o in [ADOrder::Zero, ADOrder::One, ADOrder::Two] {
        let (mut x, mut y) = (a.clone(), b.clone());
        let _ = x.set_ad_order(o);
        let _ = y.set_ad_order(o);
        for l in cs.iter() {
            for r in cs.iter() {
                let (cl, cr) = (Ccy::try_new(l).unwrap(), Ccy::try_new(r).unwrap());
                match (x.rate(&cl, &cr), y.rate(&cl, &cr)) {
                    (Some(p), Some(q)) => same_number(&p, &q).map_err(|e| format!("query/rate {}{} at {:?}: {}", l, r, o, e))?,
                    _ => return Err(format!("query/rate {}{} missing", l, r)),
                }
                if x.get_ccy_index(&cl) != y.get_ccy_index(&cl) {
                    return Err(format!("query/currency index of {}", l));
                }
            }
        }
    }
    // ... and the loaded market goes on like the original: the same update applied to both gives the same rates
    {
        let (mut x, mut y) = (a.clone(), b.clone());
        let q0 = hooks::fxrates_fx_rates(a)[0].clone();
        let (l, r, num, st) = hooks::fxrate_parts(&q0);
        let newq = FXRate::try_new(&l, &r, Number::F64(f64::from(&num) * 1.0625), st).map_err(|_| "oracle: quote".to_string())?;
        match (x.update(vec![newq.clone()]).is_ok(), y.update(vec![newq]).is_ok()) {
            (true, true) => {
                for l in cs.iter() {
                    for r in cs.iter() {
                        let (cl, cr) = (Ccy::try_new(l).unwrap(), Ccy::try_new(r).unwrap());
                        match (x.rate(&cl, &cr), y.rate(&cl, &cr)) {
                            (Some(p), Some(q)) => same_number(&p, &q).map_err(|e| format!("query/rate {}{} after an update of both: {}", l, r, e))?,
                            _ => return Err(format!("query/rate {}{} missing after an update", l, r)),
                        }
                    }
                }
            }
            (false, false) => {}
            (p, q) => return Err(format!("query/update accepted by the original: {}, by the loaded market: {}", p, q)),
        }
    }
    Ok(())
}

fn same_curve(a: &VerifCurve, b: &VerifCurve, lookups: bool) -> Result<(), String> {
    if !a.eq(b) || !b.eq(a) {
        return Err("structure/own == says different".into());
    }
    if a.ad() != b.ad() || a.id() != b.id() || a.interpolation() != b.interpolation() || a.convention() != b.convention() || a.modifier() != b.modifier() {
        return Err("structure/meta data differ".into());
    }
    match (a.index_base(), b.index_base()) {
        (None, None) => {}
        (Some(x), Some(y)) if bits(x) == bits(y) => {}
        (x, y) => return Err(format!("float/index_base {:?} came back as {:?}", x, y)),
    }
    let (na, nb) = (a.nodes(), b.nodes());
    if na.len() != nb.len() {
        return Err("structure/node count".into());
    }
    for ((ka, va), (kb, vb)) in na.iter().zip(nb.iter()) {
        if ka != kb {
            return Err(format!("structure/node date {} vs {}", ka, kb));
        }
        same_number(va, vb).map_err(|e| format!("node {}: {}", ka, e))?;
    }
    if a.calendar() != b.calendar() {
        return Err("structure/calendar differs".into());
    }
    same_cal_behaviour(&a.calendar(), &b.calendar(), 19000, 19400)?;
    if lookups {
        let xs: Vec<i64> = na.keys().map(|k| k.and_utc().timestamp()).collect();
        for q in queries(&xs) {
            let d = ts_to_ndt(q);
            same_number(&a.get(&d), &b.get(&d)).map_err(|e| format!("query/look-up {}: {}", d, e))?;
            match (a.index_value(&d), b.index_value(&d)) {
                (Ok(x), Ok(y)) => same_number(&x, &y).map_err(|e| format!("query/index_value {}: {}", d, e))?,
                (Err(_), Err(_)) => {}
                _ => return Err("query/index_value availability differs".into()),
            }
        }
        // ... and the loaded curve goes on like the original: the same order switches give the same nodes and look-ups
        let (mut x, mut y) = (a.clone(), b.clone());
        for o in [ADOrder::Two, ADOrder::Zero, ADOrder::One] {
            let (rx, ry) = (x.set_ad_order(o).is_ok(), y.set_ad_order(o).is_ok());
            if rx != ry {
                return Err(format!("query/set_ad_order({:?}) accepted by the original: {}, by the loaded curve: {}", o, rx, ry));
            }
            let (nx, ny) = (x.nodes(), y.nodes());
            for ((_, va), (kb, vb)) in nx.iter().zip(ny.iter()) {
                same_number(va, vb).map_err(|e| format!("query/node {} after switching both to {:?}: {}", kb, o, e))?;
            }
            for q in [xs[0] + 3 * crate::curvemodel::DAY, xs[xs.len() - 1] - crate::curvemodel::DAY] {
                let d = ts_to_ndt(q);
                same_number(&x.get(&d), &y.get(&d)).map_err(|e| format!("query/look-up {} after switching both to {:?}: {}", d, o, e))?;
            }
        }
    }
    Ok(())
}

fn same_spline<T: PartialEq + Clone>(a: &PPSpline<T>, b: &PPSpline<T>, fl: &dyn Fn(&T) -> Vec<u64>) -> Result<(), String> {
    if a.k() != b.k() || a.n() != b.n() {
        return Err("structure/k or n".into());
    }
    if a.t().len() != b.t().len() || a.t().iter().zip(b.t().iter()).any(|(x, y)| bits(*x) != bits(*y)) {
        return Err(format!("float/knot {:?} came back as {:?}", a.t(), b.t()));
    }
    match (a.c(), b.c()) {
        (None, None) => {}
        (Some(x), Some(y)) => {
            if x.len() != y.len() || x.iter().zip(y.iter()).any(|(p, q)| fl(p) != fl(q)) {
                return Err("float/coefficient differs".into());
            }
        }
        _ => return Err("structure/coefficients present vs absent".into()),
    }
    if a != b {
        return Err("structure/own == says different".into());
    }
    Ok(())
}

// ---- channels ------------------------------------------------------------------------------------

fn json_rt<T: Serialize + DeserializeOwned>(x: &T) -> Result<(T, String), String> {
    let s = serde_json::to_string(x).map_err(|e| format!("to_json failed: {}", e))?;
    let y: T = serde_json::from_str(&s).map_err(|e| format!("from_json failed: {} on {}", e, s))?;
    Ok((y, s))
}
fn bin_rt<T: Serialize + DeserializeOwned>(x: &T) -> Result<T, String> {
    let b = bincode::serialize(x).map_err(|e| format!("bincode serialize failed: {}", e))?;
    bincode::deserialize(&b).map_err(|e| format!("bincode deserialize failed: {}", e))
}
fn tagged_rt(x: &VerifObj) -> Result<(VerifObj, String), String> {
    let s = hooks::tagged_to_json(x)?;
    let y = hooks::tagged_from_json(&s).map_err(|e| format!("tagged from_json failed: {} on {}", e, s))?;
    if y.tag() != x.tag() {
        return Err(format!("structure/tag {} came back as {}", x.tag(), y.tag()));
    }
    Ok((y, s))
}

struct Rep<'a> {
    acc: &'a mut Acc,
    case: &'a Case,
    idx: u64,
}
impl<'a> Rep<'a> {
    /// record the outcome of one (channel, type) round trip
    fn judge(&mut self, channel: &str, ty: &str, r: Result<(), String>) {
        self.acc.eval();
        if let Err(e) = r {
            let class = if e.starts_with("float/") || e.contains(": float/") {
                "float-not-identical"
            } else if e.contains("query/") {
                "query-answers-differ"
            } else if e.contains("failed") {
                "load-or-save-failed"
            } else {
                "not-equal"
            };
            self.acc.violate(&format!("{}/{}/{}", channel, ty, class), self.idx, serde_json::to_value(self.case).unwrap(), json!("loaded object identical to the original"), json!(e));
        }
    }
}

fn all3_dual2(rep: &mut Rep, d: &Dual2) {
    rep.judge("json", "Dual2", json_rt(d).and_then(|(y, _)| same_dual2(d, &y)));
    rep.judge("bincode", "Dual2", bin_rt(d).and_then(|y| same_dual2(d, &y)));
    rep.judge(
        "tagged",
        "Dual2",
        tagged_rt(&VerifObj::Dual2(d.clone())).and_then(|(y, _)| match y {
            VerifObj::Dual2(y) => same_dual2(d, &y),
            _ => Err("structure/tag".into()),
        }),
    );
}
fn all3_dual(rep: &mut Rep, d: &Dual) {
    rep.judge("json", "Dual", json_rt(d).and_then(|(y, _)| same_dual(d, &y)));
    rep.judge("bincode", "Dual", bin_rt(d).and_then(|y| same_dual(d, &y)));
    rep.judge(
        "tagged",
        "Dual",
        tagged_rt(&VerifObj::Dual(d.clone())).and_then(|(y, _)| match y {
            VerifObj::Dual(y) => same_dual(d, &y),
            _ => Err("structure/tag".into()),
        }),
    );
}
fn all3_curve(rep: &mut Rep, c: &VerifCurve, lookups: bool) {
    rep.judge("json", "Curve", c.to_json().and_then(|s| VerifCurve::from_json(&s)).map_err(|e| format!("from_json failed: {}", e)).and_then(|y| same_curve(c, &y, lookups)));
    rep.judge("bincode", "Curve", VerifCurve::from_bincode(&c.to_bincode()).map_err(|e| format!("bincode deserialize failed: {}", e)).and_then(|y| same_curve(c, &y, lookups)));
    rep.judge(
        "tagged",
        "Curve",
        tagged_rt(&VerifObj::Curve(c.clone())).and_then(|(y, _)| match y {
            VerifObj::Curve(y) => same_curve(c, &y, lookups),
            _ => Err("structure/tag".into()),
        }),
    );
    // what the Python to_json method emits must be the tagged form
    rep.judge(
        "tagged",
        "Curve-method",
        c.to_json_tagged().map_err(|_| "to_json failed".to_string()).and_then(|s| hooks::tagged_from_json(&s).map_err(|e| format!("from_json failed: {}", e))).and_then(|y| match y {
            VerifObj::Curve(y) => same_curve(c, &y, false),
            _ => Err("structure/tag".into()),
        }),
    );
}
fn all3_fx(rep: &mut Rep, f: &FXRates) {
    rep.judge(
        "json",
        "FXRates",
        json_rt(f).and_then(|(y, s)| {
            let v: Value = serde_json::from_str(&s).unwrap();
            let keys: Vec<&String> = v.as_object().map(|o| o.keys().collect()).unwrap_or_default();
            if keys.iter().any(|k| k.as_str() == "fx_array") {
                return Err("structure/the derived matrix was stored".into());
            }
            same_fx(f, &y)
        }),
    );
    rep.judge("bincode", "FXRates", bin_rt(f).and_then(|y| same_fx(f, &y)));
    rep.judge(
        "tagged",
        "FXRates",
        tagged_rt(&VerifObj::FXRates(f.clone())).and_then(|(y, _)| match y {
            VerifObj::FXRates(y) => same_fx(f, &y),
            _ => Err("structure/tag".into()),
        }),
    );
}
fn fbits(x: &f64) -> Vec<u64> {
    vec![bits(*x)]
}
fn dbits(x: &Dual) -> Vec<u64> {
    let mut v = vec![bits(x.real())];
    v.extend(x.dual().iter().map(|g| bits(*g)));
    v.extend(x.vars().iter().map(|n| n.len() as u64));
    v
}
fn d2bits(x: &Dual2) -> Vec<u64> {
    let mut v = vec![bits(x.real())];
    v.extend(x.dual().iter().map(|g| bits(*g)));
    v.extend(x.dual2().iter().map(|g| bits(*g)));
    v
}
fn dbits_named(x: &Dual) -> Vec<u64> {
    let mut v = dbits(x);
    for n in x.vars().iter() {
        v.extend(n.bytes().map(|b| b as u64));
        v.push(u64::MAX);
    }
    v
}
fn d2bits_named(x: &Dual2) -> Vec<u64> {
    let mut v = d2bits(x);
    for n in x.vars().iter() {
        v.extend(n.bytes().map(|b| b as u64));
        v.push(u64::MAX);
    }
    v
}
/// a loaded spline goes on like the original: same values, and solved again on the same data it has the same coefficients
fn spline_goes_on(a: &PPSpline<f64>, b: &PPSpline<f64>) -> Result<(), String> {
    let (k, n, t) = (*a.k(), *a.n(), a.t().clone());
    let (lo, hi) = (t[0], t[t.len() - 1]);
    if a.c().is_some() {
        for j in 0..=8 {
            let x = lo + (hi - lo) * j as f64 / 8.0;
            for m in 0..k.min(3) {
                match (a.ppdnev_single(&x, m), b.ppdnev_single(&x, m)) {
                    (Ok(p), Ok(q)) if bits(p) == bits(q) || (p.is_nan() && q.is_nan()) => {}
                    (Err(_), Err(_)) => {}
                    _ => return Err(format!("query/value at {} (derivative {}) differs", x, m)),
                }
            }
        }
    }
    if n >= 2 {
        let tau: Vec<f64> = (0..n).map(|j| lo + (hi - lo) * j as f64 / (n - 1) as f64).collect();
        let y: Vec<f64> = (0..n).map(|j| 1.0 / (2.0 + j as f64)).collect();
        let (mut x, mut z) = (a.clone(), b.clone());
        match (x.csolve(&tau, &y, 0, 0, false).is_ok(), z.csolve(&tau, &y, 0, 0, false).is_ok()) {
            (true, true) => {
                let (cx, cz) = (x.c().as_ref().unwrap(), z.c().as_ref().unwrap());
                if cx.len() != cz.len() || cx.iter().zip(cz.iter()).any(|(p, q)| bits(*p) != bits(*q) && !(p.is_nan() && q.is_nan())) {
                    return Err("query/coefficients differ after solving both again".into());
                }
            }
            (false, false) => {}
            (p, q) => return Err(format!("query/solve accepted by the original: {}, by the loaded spline: {}", p, q)),
        }
    }
    Ok(())
}

fn all3_spline_f64(rep: &mut Rep, s: &PPSpline<f64>) {
    let w = hooks::ppspline_f64_wrap(s.clone());
    rep.judge("json", "PPSplineF64", json_rt(&w).and_then(|(y, _)| spline_goes_on(s, hooks::ppspline_f64_inner(&y))));
    rep.judge("bincode", "PPSplineF64", bin_rt(&w).and_then(|y| spline_goes_on(s, hooks::ppspline_f64_inner(&y))));
    rep.judge("json", "PPSplineF64", json_rt(&w).and_then(|(y, _)| same_spline(s, hooks::ppspline_f64_inner(&y), &fbits)));
    rep.judge("bincode", "PPSplineF64", bin_rt(&w).and_then(|y| same_spline(s, hooks::ppspline_f64_inner(&y), &fbits)));
    rep.judge(
        "tagged",
        "PPSplineF64",
        tagged_rt(&VerifObj::PPSplineF64(w.clone())).and_then(|(y, _)| match y {
            VerifObj::PPSplineF64(y) => same_spline(s, hooks::ppspline_f64_inner(&y), &fbits),
            _ => Err("structure/tag".into()),
        }),
    );
}

fn simple_curve(vals: &[f64], interp: VerifInterp, order: u8, id: &str, conv: Convention, modi: Modifier, cal: CalType, ib: Option<f64>) -> VerifCurve {
    let xs = node_times(&vec![1u8; vals.len() - 1]);
    let mut m: IndexMap<chrono::NaiveDateTime, Number> = IndexMap::new();
    for (x, v) in xs.iter().zip(vals.iter()) {
        m.insert(ts_to_ndt(*x), Number::F64(*v));
    }
    let ad = [ADOrder::Zero, ADOrder::One, ADOrder::Two][order as usize];
    VerifCurve::new(m, interp, ad, id, conv, modi, cal, ib).expect("curve builds")
}

fn cal_of_kind(k: u8) -> CalType {
    match k {
        0 => CalType::Cal(Cal::new(vec![to_ndt(19100), to_ndt(19205)], vec![5, 6])),
        1 => CalType::UnionCal(UnionCal::new(vec![Cal::new(vec![to_ndt(19100)], vec![5, 6]), Cal::new(vec![to_ndt(19101)], vec![4, 5])], Some(vec![Cal::new(vec![to_ndt(19102)], vec![5, 6])]))),
        _ => CalType::NamedCal(NamedCal::try_new("ldn,tgt|fed").unwrap()),
    }
}

fn fx_market(id: u32) -> Option<FXRates> {
    // id encodes: n (2..4), quote form (3), settlement (2), base choice (3), history (8)
    let mut c = id;
    let n = 2 + (c % 3) as usize;
    c /= 3;
    let form = c % 3;
    c /= 3;
    let settle = c % 2 == 1;
    c /= 2;
    let basesel = c % 3;
    c /= 3;
    let hist = c % 8;
    c /= 8;
    if c > 0 {
        return None;
    }
    let vals = [1.0842, 110.25, 0.7685, 7.8e-4];
    let pairs: [(usize, usize); 3] = [(1, 0), (0, 3), (2, 0)]; // eurusd usdjpy gbpusd
    // (markets with an odd id carry a settlement with a sub-second part)
    let st = if settle { Some(to_ndt(19900) + if id % 2 == 1 { chrono::Duration::nanoseconds(15 * 3_600_000_000_000 + 123_456_789) } else { chrono::Duration::zero() }) } else { None };
    let mk = |i: usize, v: f64| {
        let num = match form {
            0 => Number::F64(v),
            1 => Number::Dual(Dual::try_new(v, vec![format!("q{}", i)], vec![2.5]).unwrap()),
            _ => Number::Dual2(Dual2::try_new(v, vec![format!("q{}", i)], vec![2.5], vec![0.375]).unwrap()),
        };
        FXRate::try_new(CCYS[pairs[i].0], CCYS[pairs[i].1], num, st).unwrap()
    };
    let quotes: Vec<FXRate> = (0..n - 1).map(|i| mk(i, vals[i])).collect();
    let base = match basesel {
        0 => None,
        1 => Some(Ccy::try_new(CCYS[pairs[0].1]).unwrap()),
        _ => Some(Ccy::try_new(CCYS[pairs[n - 2].1]).unwrap()),
    };
    let mut fx = FXRates::try_new(quotes, base).ok()?;
    match hist {
        1 => {
            fx.set_ad_order(ADOrder::Two).ok()?;
        }
        2 => {
            fx.update(vec![mk(0, vals[0] * 1.0625)]).ok()?;
        }
        3 => {
            fx.set_ad_order(ADOrder::Zero).ok()?;
            fx.update(vec![mk(n - 2, vals[n - 2] * 0.875)]).ok()?;
            fx.set_ad_order(ADOrder::Zero).ok()?;
        }
        4 => {
            // a refused update (a known pair first, then a pair that is not in the market) must leave nothing behind
            let foreign = FXRate::try_new("nok", "sek", Number::F64(1.1), st).unwrap();
            if fx.update(vec![mk(0, vals[0] * 1.25), foreign]).is_ok() {
                return None;
            }
        }
        6 => {
            // the same value again, as a dual number WITHOUT variables (equal as a number, different as a quote)
            let q = FXRate::try_new(CCYS[pairs[0].0], CCYS[pairs[0].1], Number::Dual(Dual::new(vals[0], vec![])), st).unwrap();
            fx.update(vec![q]).ok()?;
        }
        7 => {
            // the same value again as a plain float (whatever form the quote had), after an order switch and back
            fx.set_ad_order(ADOrder::Two).ok()?;
            fx.set_ad_order(ADOrder::One).ok()?;
            let q = FXRate::try_new(CCYS[pairs[n - 2].0], CCYS[pairs[n - 2].1], Number::F64(vals[n - 2]), st).unwrap();
            fx.update(vec![q]).ok()?;
        }
        5 => {
            // refused for an inconsistent settlement date, then an order switch
            let other = if settle { None } else { Some(to_ndt(19901)) };
            let bad = FXRate::try_new(CCYS[pairs[0].0], CCYS[pairs[0].1], Number::F64(vals[0] * 1.5), other).unwrap();
            let refused = fx.update(vec![bad]).is_err();
            if !refused && n > 2 {
                return None;
            }
            fx.set_ad_order(ADOrder::Two).ok()?;
        }
        _ => {}
    }
    Some(fx)
}

pub fn check(case: &Case, idx: u64, acc: &mut Acc) {
    let mut rep = Rep { acc, case, idx };
    match case {
        Case::Floats { anchor_bits, start, count } => {
            let first = anchor_bits + start;
            for i in 0..*count {
                let d = f64::from_bits(first + i);
                let dn = f64::from_bits(first + i + 1);
                if !d.is_finite() || !dn.is_finite() {
                    rep.acc.skip();
                    continue;
                }
                let txt = serde_json::to_string(&d).unwrap();
                if txt.len() >= 17 {
                    rep.acc.nontrivial();
                }
                rep.acc.outcome(&(txt.len(), first + i));
                // real, gradient and Hessian entries
                let d2 = Dual2::try_new(d, vec!["x".to_string()], vec![d], vec![d]).unwrap();
                all3_dual2(&mut rep, &d2);
                let d1 = Dual::try_new(dn, vec!["y".to_string(), "x".to_string()], vec![d, dn]).unwrap();
                all3_dual(&mut rep, &d1);
                // curve node values and index base
                if d > 0.0 {
                    let c = simple_curve(&[d, dn], VerifInterp::LogLinear, (i % 3) as u8, "v", Convention::Act365F, Modifier::F, CalType::Cal(Cal::new(vec![to_ndt(19100)], vec![5, 6])), Some(d));
                    all3_curve(&mut rep, &c, true);
                }
                // FX quote
                if d > 1e-250 && d < 1e250 {
                    let q = FXRate::try_new("eur", "usd", Number::F64(d), None).unwrap();
                    let q2 = FXRate::try_new("usd", "jpy", Number::Dual(Dual::try_new(dn, vec!["z".to_string()], vec![d]).unwrap()), None).unwrap();
                    if let Ok(fx) = FXRates::try_new(vec![q, q2], None) {
                        all3_fx(&mut rep, &fx);
                    }
                }
                // spline coefficient and knots
                if d < dn {
                    let s = PPSpline::<f64>::new(1, vec![d, dn], Some(vec![d]));
                    all3_spline_f64(&mut rep, &s);
                }
            }
            if idx % 13 == 0 {
                rep.acc.sample(|| json!({"Floats": {"first": f64::from_bits(first), "text": serde_json::to_string(&f64::from_bits(first)).unwrap(), "count": count}}));
            }
        }
        Case::DualStruct { id } => {
            let names_pool = ["x", "a long name", "ü", "q\"uote", "fx_eurusd", ""];
            let nn = (*id % 4) as usize;
            let rot = (*id / 4) as usize % names_pool.len();
            let names: Vec<String> = (0..nn).map(|i| names_pool[(i + rot) % names_pool.len()].to_string()).collect();
            let g: Vec<f64> = (0..nn).map(|i| [0.1, -2.5e-7, 3.3e12, 0.0][(i + rot) % 4]).collect();
            let h: Vec<f64> = (0..nn * nn).map(|i| [1.0 / 3.0, 0.0, -7.7e-3, 1e-300][(i + rot) % 4]).collect();
            rep.acc.nontrivial();
            let d = if nn == 0 { Dual::new(1.0 / 7.0, vec![]) } else { Dual::try_new(1.0 / 7.0, names.clone(), g.clone()).unwrap() };
            all3_dual(&mut rep, &d);
            let d2 = if nn == 0 { Dual2::new(-1.0 / 7.0, vec![]) } else { Dual2::try_new(-1.0 / 7.0, names, g, h).unwrap() };
            all3_dual2(&mut rep, &d2);
            // the same contents held in non-standard memory layouts (reversed-memory gradient, column-major, asymmetric
            // second-derivative array built through clone_from)
            if nn >= 2 {
                use ndarray::{Array1, Array2, Axis};
                let mut rev: Vec<f64> = d.dual().to_vec();
                rev.reverse();
                let mut ga = Array1::from(rev);
                ga.invert_axis(Axis(0));
                let dn = Dual::clone_from(&d, d.real(), ga.clone());
                all3_dual(&mut rep, &dn);
                let asym = Array2::from_shape_fn((nn, nn), |(i, j)| 0.125 * (1 + i * nn + j) as f64 / 3.0);
                let hf = Array2::from_shape_fn((nn, nn), |(i, j)| asym[[j, i]]).reversed_axes();
                let d2n = Dual2::clone_from(&d2, d2.real(), ga, hf);
                all3_dual2(&mut rep, &d2n);
            }
            rep.acc.sample(|| serde_json::to_value(case).unwrap());
        }
        Case::PermutedNames { id } => {
            let names = ["x", "y", "z"];
            let perms = permutations(3);
            let mk1 = |p: &Vec<usize>, salt: f64| Dual::try_new(1.25 + salt, p.iter().map(|i| names[*i].to_string()).collect(), p.iter().map(|i| (*i as f64 + 1.0) * 1.5 + salt).collect()).unwrap();
            let mk2 = |p: &Vec<usize>, salt: f64| {
                let g: Vec<f64> = p.iter().map(|i| (*i as f64 + 1.0) * 1.5 + salt).collect();
                let mut h = vec![0.0; 9];
                for (a, i) in p.iter().enumerate() {
                    for (b, j) in p.iter().enumerate() {
                        h[a * 3 + b] = 0.25 * ((i + 1) * (j + 1)) as f64 + salt;
                    }
                }
                Dual2::try_new(0.75 + salt, p.iter().map(|i| names[*i].to_string()).collect(), g, h).unwrap()
            };
            rep.acc.nontrivial();
            // (a) a run of separate loads
            let order: Vec<usize> = (0..6).map(|k| (k * (*id as usize + 1) + *id as usize) % 6).collect();
            for k in order.iter() {
                let d = mk1(&perms[*k], *k as f64 * 0.125);
                all3_dual(&mut rep, &d);
                let d2 = mk2(&perms[*k], *k as f64 * 0.125);
                all3_dual2(&mut rep, &d2);
            }
            // (b) inside one curve: nodes whose numbers list the same names in different orders
            let xs = node_times(&[1, 1, 2]);
            for order2 in [false, true] {
                let mut m: IndexMap<chrono::NaiveDateTime, Number> = IndexMap::new();
                for (j, x) in xs.iter().enumerate() {
                    let p = &perms[(j + *id as usize) % 6];
                    m.insert(ts_to_ndt(*x), if order2 { Number::Dual2(mk2(p, j as f64)) } else { Number::Dual(mk1(p, j as f64)) });
                }
                let c = VerifCurve::new(m, VerifInterp::Linear, if order2 { ADOrder::Two } else { ADOrder::One }, "p", Convention::Act360, Modifier::F, CalType::Cal(Cal::new(vec![], vec![5, 6])), None).unwrap();
                all3_curve(&mut rep, &c, true);
            }
            // (c) inside one spline: coefficients with permuted lists
            let t = vec![0.0, 0.0, 1.0, 2.0, 3.0, 3.0];
            let s1 = PPSpline::<Dual>::new(2, t.clone(), Some((0..4).map(|j| mk1(&perms[(j + *id as usize) % 6], j as f64)).collect()));
            let w1 = hooks::ppspline_dual_wrap(s1.clone());
            rep.judge("json", "PPSplineDual", json_rt(&w1).and_then(|(y, _)| same_spline(&s1, hooks::ppspline_dual_inner(&y), &dbits_named)));
            rep.judge("bincode", "PPSplineDual", bin_rt(&w1).and_then(|y| same_spline(&s1, hooks::ppspline_dual_inner(&y), &dbits_named)));
            let s2 = PPSpline::<Dual2>::new(2, t, Some((0..4).map(|j| mk2(&perms[(j + 2 * *id as usize) % 6], j as f64)).collect()));
            let w2 = hooks::ppspline_dual2_wrap(s2.clone());
            rep.judge("json", "PPSplineDual2", json_rt(&w2).and_then(|(y, _)| same_spline(&s2, hooks::ppspline_dual2_inner(&y), &d2bits_named)));
            rep.judge("bincode", "PPSplineDual2", bin_rt(&w2).and_then(|y| same_spline(&s2, hooks::ppspline_dual2_inner(&y), &d2bits_named)));
            // (d) FX quotes with permuted names
            let q1 = FXRate::try_new("eur", "usd", Number::Dual(mk1(&perms[*id as usize % 6], 0.0)), None).unwrap();
            let q2 = FXRate::try_new("usd", "jpy", Number::Dual(mk1(&perms[(*id as usize + 3) % 6], 100.0)), None).unwrap();
            if let Ok(fx) = FXRates::try_new(vec![q1, q2], None) {
                all3_fx(&mut rep, &fx);
            }
            rep.acc.sample(|| serde_json::to_value(case).unwrap());
        }
        Case::CalStruct { mask, hols } => {
            let z0 = 19786; // 2024-03-04, a Monday
            let wm: Vec<u8> = (0..7u8).filter(|i| mask & (1 << i) != 0).collect();
            let hs: Vec<_> = (0..3).filter(|i| hols & (1 << i) != 0).map(|i| to_ndt(z0 + 2 * i)).collect();
            let c = Cal::new(hs, wm);
            if *mask != 0 && *hols != 0 {
                rep.acc.nontrivial();
            }
            rep.judge("json", "Cal", c.to_json().map_err(|e| format!("to_json failed: {}", e)).and_then(|s| Cal::from_json(&s).map_err(|e| format!("from_json failed: {}", e))).and_then(|y| if y == c { same_cal_behaviour(&c, &y, z0 - 10, z0 + 20) } else { Err("structure/own == says different".into()) }));
            rep.judge("bincode", "Cal", bin_rt(&c).and_then(|y| if y == c { same_cal_behaviour(&c, &y, z0 - 10, z0 + 20) } else { Err("structure/own == says different".into()) }));
            rep.judge(
                "tagged",
                "Cal",
                tagged_rt(&VerifObj::Cal(c.clone())).and_then(|(y, _)| match y {
                    VerifObj::Cal(y) if y == c => same_cal_behaviour(&c, &y, z0 - 10, z0 + 20),
                    _ => Err("structure/own == says different".into()),
                }),
            );
            let ct = CalType::Cal(c.clone());
            rep.judge("json", "CalType", ct.to_json().map_err(|e| format!("to_json failed: {}", e)).and_then(|s| CalType::from_json(&s).map_err(|e| format!("from_json failed: {}", e))).and_then(|y| if y == ct { Ok(()) } else { Err("structure/own == says different".into()) }));
        }
        Case::UnionStruct { id, extra } => {
            let z0 = 19786;
            let mk = |k: u32| Cal::new((0..3).filter(|i| (k >> i) & 1 == 1).map(|i| to_ndt(z0 + i as i64)).collect(), if k & 8 != 0 { vec![4, 5] } else { vec![5, 6] });
            let members: Vec<Cal> = (0..(1 + id % 3 + extra)).map(|j| mk(id / 3 + j * 5)).collect();
            let settle = match (id / 48) % 4 {
                0 => None,
                1 => Some(vec![]),
                2 => Some(vec![mk(id / 7 + 1)]),
                _ => Some(vec![mk(id / 7 + 1), mk(id / 11 + 2)]),
            };
            let u = UnionCal::new(members, settle);
            rep.acc.nontrivial();
            let parts_eq = |y: &UnionCal| -> Result<(), String> {
                let (m1, s1) = hooks::unioncal_parts(&u);
                let (m2, s2) = hooks::unioncal_parts(y);
                if m1 != m2 || s1 != s2 {
                    return Err("structure/members or settlement calendars differ (None vs Some([]) included)".into());
                }
                if !(u == *y) {
                    return Err("structure/own == says different".into());
                }
                same_cal_behaviour(&u, y, z0 - 10, z0 + 20)
            };
            rep.judge("json", "UnionCal", u.to_json().map_err(|e| format!("to_json failed: {}", e)).and_then(|s| UnionCal::from_json(&s).map_err(|e| format!("from_json failed: {}", e))).and_then(|y| parts_eq(&y)));
            rep.judge("bincode", "UnionCal", bin_rt(&u).and_then(|y| parts_eq(&y)));
            rep.judge(
                "tagged",
                "UnionCal",
                tagged_rt(&VerifObj::UnionCal(u.clone())).and_then(|(y, _)| match y {
                    VerifObj::UnionCal(y) => parts_eq(&y),
                    _ => Err("structure/tag".into()),
                }),
            );
            if id % 17 == 0 {
                rep.acc.sample(|| serde_json::to_value(case).unwrap());
            }
        }
        Case::Named { name } => {
            let c = NamedCal::try_new(name).unwrap();
            rep.acc.nontrivial();
            let full = |y: &NamedCal| -> Result<(), String> {
                if hooks::namedcal_parts(y).0 != hooks::namedcal_parts(&c).0 {
                    return Err(format!("structure/name {:?} came back as {:?}", hooks::namedcal_parts(&c).0, hooks::namedcal_parts(y).0));
                }
                if !(c == *y) {
                    return Err("structure/own == says different".into());
                }
                same_cal_behaviour(&c, y, DAY_MIN, day_max())
            };
            rep.judge(
                "json",
                "NamedCal",
                c.to_json().map_err(|e| format!("to_json failed: {}", e)).and_then(|s| {
                    let v: Value = serde_json::from_str(&s).unwrap();
                    let keys: Vec<String> = v.as_object().map(|o| o.keys().cloned().collect()).unwrap_or_default();
                    if keys != vec!["name".to_string()] {
                        return Err(format!("structure/stored more than the name: keys {:?}", keys));
                    }
                    NamedCal::from_json(&s).map_err(|e| format!("from_json failed: {}", e)).and_then(|y| full(&y))
                }),
            );
            rep.judge("bincode", "NamedCal", bin_rt(&c).and_then(|y| full(&y)));
            rep.judge(
                "tagged",
                "NamedCal",
                tagged_rt(&VerifObj::NamedCal(c.clone())).and_then(|(y, s)| {
                    if s.contains("holidays") {
                        return Err("structure/stored more than the name".into());
                    }
                    match y {
                        VerifObj::NamedCal(y) => full(&y),
                        _ => Err("structure/tag".into()),
                    }
                }),
            );
            rep.acc.sample(|| serde_json::to_value(case).unwrap());
        }
        Case::Curve { interp, order, calkind, conv, modi, index_base, switches } => {
            let mut c = simple_curve(
                &VSETS[(*conv % 3) as usize][..4],
                INTERPS[*interp as usize],
                *order,
                "crv",
                CONVS[*conv as usize],
                MODS[*modi as usize],
                cal_of_kind(*calkind),
                if *index_base { Some(101.3) } else { None },
            );
            for s in switches {
                let _ = c.set_ad_order([ADOrder::Zero, ADOrder::One, ADOrder::Two][*s as usize]);
            }
            rep.acc.nontrivial();
            all3_curve(&mut rep, &c, *interp != 5);
            if idx % 397 == 0 {
                rep.acc.sample(|| serde_json::to_value(case).unwrap());
            }
        }
        Case::Fx { id } => {
            if let Some(fx) = fx_market(*id) {
                rep.acc.nontrivial();
                all3_fx(&mut rep, &fx);
                if id % 37 == 0 {
                    rep.acc.sample(|| json!({"Fx": {"id": id, "json": serde_json::to_string(&fx).unwrap()}}));
                }
            } else {
                rep.acc.skip();
            }
        }
        Case::CurveDates { set, interp, order } => {
            const D: i64 = 86_400;
            let xs: Vec<i64> = match set {
                0 => vec![999_000_000 / D * D, 999_950_400, 1_000_000_000 / D * D, 1_000_944_000, 1_010_000_000 / D * D],
                1 => vec![-400 * D, -30 * D, -D, 0, 20 * D, 11_574 * D, 11_575 * D],
                _ => vec![-20_000 * D, -9 * D, 9 * D, 99_999_999 / D * D, 100_000_000 / D * D + D, 999_999_999 / D * D, 1_000_000_000 / D * D + D, 2_000_000_000 / D * D],
            };
            let mut m: IndexMap<chrono::NaiveDateTime, Number> = IndexMap::new();
            for (k, x) in xs.iter().enumerate() {
                m.insert(ts_to_ndt(*x), Number::F64(1.0 / (1.0 + 0.07 * k as f64)));
            }
            let ad = [ADOrder::Zero, ADOrder::One, ADOrder::Two][*order as usize];
            let c = VerifCurve::new(m, INTERPS[*interp as usize], ad, "dts", Convention::Act365F, Modifier::ModF, CalType::Cal(Cal::new(vec![], vec![5, 6])), Some(100.0)).expect("curve builds");
            rep.acc.nontrivial();
            all3_curve(&mut rep, &c, true);
            // the public typed CurveDF through its own JSON entry point: equal, and answering every look-up alike
            if *order == 0 && *interp < 2 {
                use rateslib::curves::CurveInterpolation;
                let nodes = Nodes::F64(xs.iter().enumerate().map(|(k, x)| (ts_to_ndt(*x), 1.0 / (1.0 + 0.07 * k as f64))).collect());
                let qs = queries(&xs);
                macro_rules! typed {
                    ($i:expr, $t:ty) => {{
                        let c = CurveDF::try_new(nodes.clone(), $i, "df", Convention::Act360, Modifier::ModF, Some(1.0 / 3.0), Cal::new(vec![], vec![5, 6])).unwrap();
                        let r = c.to_json().map_err(|e| format!("to_json failed: {}", e)).and_then(|s| CurveDF::<$t, Cal>::from_json(&s).map_err(|e| format!("from_json failed: {}", e))).and_then(|y| {
                            if y != c {
                                return Err("structure/own == says different".to_string());
                            }
                            for q in qs.iter() {
                                let d = ts_to_ndt(*q);
                                if c.node_index(*q) != y.node_index(*q) {
                                    return Err(format!("query/node_index at {}", d));
                                }
                                same_number(&c.interpolated_value(&d), &y.interpolated_value(&d)).map_err(|e| format!("query/look-up {}: {}", d, e))?;
                            }
                            Ok(())
                        });
                        rep.judge("json", "CurveDF", r);
                    }};
                }
                if *interp == 0 {
                    typed!(LinearInterpolator::new(), LinearInterpolator);
                } else {
                    typed!(LogLinearInterpolator::new(), LogLinearInterpolator);
                }
            }
            rep.acc.sample(|| serde_json::to_value(case).unwrap());
        }
        Case::LargeStruct { size } => {
            let n = *size;
            rep.acc.nontrivial();
            let names: Vec<String> = (0..n).map(|i| format!("v{}", (i * 7 + 3) % n.max(1) + if (i * 7 + 3) % n.max(1) < i { 1000 } else { 0 })).collect();
            let g: Vec<f64> = (0..n).map(|i| 1.0 / (3.0 + i as f64)).collect();
            let h: Vec<f64> = (0..n * n).map(|k| if (k / n).abs_diff(k % n) <= 1 || k % 7 == 0 { 1.0 / (7.0 + (k / n + k % n) as f64) } else { 0.0 }).collect();
            let mut uniq = names.clone();
            uniq.sort();
            uniq.dedup();
            let names = if uniq.len() == n { names } else { (0..n).map(|i| format!("v{}", i)).collect() };
            let d = Dual::try_new(1.0 / 7.0, names.clone(), g.clone()).unwrap();
            all3_dual(&mut rep, &d);
            let d2 = Dual2::try_new(-1.0 / 7.0, names.clone(), g.clone(), h).unwrap();
            all3_dual2(&mut rep, &d2);
            // curves with `size` nodes at orders 0, 1, 2 (node tags up to three digits), two interpolators
            let vals: Vec<f64> = (0..n).map(|i| 1.0 / (1.0 + 0.013 * i as f64)).collect();
            for (interp, order) in [(VerifInterp::LogLinear, 0u8), (VerifInterp::LogLinear, 1), (VerifInterp::Linear, 2), (VerifInterp::FlatForward, 1)] {
                if n >= 2 {
                    let c = simple_curve(&vals, interp, order, "big", Convention::Act365F, Modifier::ModF, CalType::Cal(Cal::new(vec![to_ndt(19100)], vec![5, 6])), Some(100.0));
                    all3_curve(&mut rep, &c, n <= 40);
                }
            }
            // splines with `size` coefficients
            if n >= 5 {
                let k = 4;
                let mut t = vec![0.0; k];
                t.extend((1..=(n - k)).map(|j| j as f64 / 3.0));
                t.extend(vec![(n - k + 1) as f64 / 3.0; k]);
                let cf: Vec<f64> = (0..n).map(|i| 1.0 / (3.0 + i as f64)).collect();
                let s0 = PPSpline::<f64>::new(k, t.clone(), Some(cf.clone()));
                all3_spline_f64(&mut rep, &s0);
                let s1 = PPSpline::<Dual>::new(k, t.clone(), Some(cf.iter().enumerate().map(|(i, v)| Dual::try_new(*v, vec![format!("y{}", i), format!("y{}", (i + 1) % n)], vec![0.1 * (i + 1) as f64, 1.0 / 3.0]).unwrap()).collect()));
                let w1 = hooks::ppspline_dual_wrap(s1.clone());
                rep.judge("json", "PPSplineDual", json_rt(&w1).and_then(|(y, _)| same_spline(&s1, hooks::ppspline_dual_inner(&y), &dbits_named)));
                rep.judge("bincode", "PPSplineDual", bin_rt(&w1).and_then(|y| same_spline(&s1, hooks::ppspline_dual_inner(&y), &dbits_named)));
            }
            // FX market: a chain of up to 14 currencies, first and second order, with an update in between
            {
                let m = n.min(14).max(2);
                let ccy = |i: usize| format!("c{}{}", (b'a' + (i / 26) as u8) as char, (b'a' + (i % 26) as u8) as char);
                for order in [1u8, 2] {
                    let quotes: Vec<FXRate> = (0..m - 1).map(|i| FXRate::try_new(&ccy(i + 1), &ccy(i), Number::F64(0.5 + 1.0 / (3.0 + i as f64)), None).unwrap()).collect();
                    if let Ok(mut fx) = FXRates::try_new(quotes, None) {
                        if order == 2 {
                            let _ = fx.set_ad_order(ADOrder::Two);
                        }
                        all3_fx(&mut rep, &fx);
                    } else {
                        rep.acc.violate("large/fx-market-does-not-build", idx, serde_json::to_value(case).unwrap(), json!("Ok"), json!("Err"));
                    }
                }
            }
            rep.acc.sample(|| serde_json::to_value(case).unwrap());
        }
        Case::Spline { id } => {
            let k = 2 + (*id % 3) as usize;
            let with_c = (*id / 3) % 2 == 1;
            let t: Vec<f64> = {
                let mut v = vec![0.0; k];
                v.extend([1.0 / 3.0, 1.1, 2.7]);
                v.extend(vec![4.0; k]);
                v
            };
            let n = t.len() - k;
            let cf: Vec<f64> = (0..n).map(|i| 1.0 / (3.0 + i as f64)).collect();
            rep.acc.nontrivial();
            let s0 = PPSpline::<f64>::new(k, t.clone(), if with_c { Some(cf.clone()) } else { None });
            all3_spline_f64(&mut rep, &s0);
            let s1 = PPSpline::<Dual>::new(k, t.clone(), if with_c { Some(cf.iter().enumerate().map(|(i, v)| Dual::try_new(*v, vec![format!("y{}", i)], vec![0.1 * (i + 1) as f64]).unwrap()).collect()) } else { None });
            let w1 = hooks::ppspline_dual_wrap(s1.clone());
            rep.judge("json", "PPSplineDual", json_rt(&w1).and_then(|(y, _)| same_spline(&s1, hooks::ppspline_dual_inner(&y), &dbits)));
            rep.judge("bincode", "PPSplineDual", bin_rt(&w1).and_then(|y| same_spline(&s1, hooks::ppspline_dual_inner(&y), &dbits)));
            rep.judge(
                "tagged",
                "PPSplineDual",
                tagged_rt(&VerifObj::PPSplineDual(w1.clone())).and_then(|(y, _)| match y {
                    VerifObj::PPSplineDual(y) => same_spline(&s1, hooks::ppspline_dual_inner(&y), &dbits),
                    _ => Err("structure/tag".into()),
                }),
            );
            let s2 = PPSpline::<Dual2>::new(k, t.clone(), if with_c { Some(cf.iter().enumerate().map(|(i, v)| Dual2::try_new(*v, vec![format!("y{}", i)], vec![0.1 * (i + 1) as f64], vec![1.0 / 9.0]).unwrap()).collect()) } else { None });
            let w2 = hooks::ppspline_dual2_wrap(s2.clone());
            rep.judge("json", "PPSplineDual2", json_rt(&w2).and_then(|(y, _)| same_spline(&s2, hooks::ppspline_dual2_inner(&y), &d2bits)));
            rep.judge("bincode", "PPSplineDual2", bin_rt(&w2).and_then(|y| same_spline(&s2, hooks::ppspline_dual2_inner(&y), &d2bits)));
            rep.judge(
                "tagged",
                "PPSplineDual2",
                tagged_rt(&VerifObj::PPSplineDual2(w2.clone())).and_then(|(y, _)| match y {
                    VerifObj::PPSplineDual2(y) => same_spline(&s2, hooks::ppspline_dual2_inner(&y), &d2bits),
                    _ => Err("structure/tag".into()),
                }),
            );
            // loaded splines answer queries identically
            if with_c {
                if let Ok((y, _)) = json_rt(&hooks::ppspline_f64_wrap(s0.clone())) {
                    for q in [0.0, 0.2, 1.1, 3.3, 4.0] {
                        for m in 0..k {
                            let (a, b) = (s0.ppdnev_single(&q, m).unwrap(), hooks::ppspline_f64_inner(&y).ppdnev_single(&q, m).unwrap());
                            if bits(a) != bits(b) {
                                rep.judge("json", "PPSplineF64", Err(format!("query/value at {} m={}: {:e} vs {:e}", q, m, a, b)));
                            }
                        }
                    }
                }
            }
            // the public typed CurveDF through the JSON trait as well
            let nodes = Nodes::F64([(ts_to_ndt(node_times(&[1])[0]), 1.0), (ts_to_ndt(node_times(&[1])[1]), 1.0 / 1.03)].into_iter().collect());
            if *id % 2 == 0 {
                let c = CurveDF::try_new(nodes, LinearInterpolator::new(), "df", Convention::Act360, Modifier::ModF, Some(1.0 / 3.0), NamedCal::try_new("tgt").unwrap()).unwrap();
                rep.judge("json", "CurveDF", c.to_json().map_err(|e| format!("to_json failed: {}", e)).and_then(|s| CurveDF::<LinearInterpolator, NamedCal>::from_json(&s).map_err(|e| format!("from_json failed: {}", e))).and_then(|y| if y == c { Ok(()) } else { Err("structure/own == says different".into()) }));
            } else {
                let c = CurveDF::try_new(nodes, LogLinearInterpolator::new(), "df", Convention::Bus252, Modifier::P, None, Cal::new(vec![], vec![5, 6])).unwrap();
                rep.judge("json", "CurveDF", c.to_json().map_err(|e| format!("to_json failed: {}", e)).and_then(|s| CurveDF::<LogLinearInterpolator, Cal>::from_json(&s).map_err(|e| format!("from_json failed: {}", e))).and_then(|y| if y == c { Ok(()) } else { Err("structure/own == says different".into()) }));
            }
            rep.acc.sample(|| serde_json::to_value(case).unwrap());
        }
    }
}

pub fn cases(tier: Tier) -> Vec<Case> {
    let mut out = vec![];
    let per_anchor: u64 = tier.pick(1 << 13, 1 << 18);
    let chunk: u64 = 256;
    let anchors: [f64; 10] = [0.1, 1.0 / 3.0, 1.0, 1.08, 110.25, 1e-5, 1e10, 1e22, 1e-300, 1e300];
    for a in anchors {
        let mut s = 0;
        while s < per_anchor {
            out.push(Case::Floats { anchor_bits: a.to_bits(), start: s, count: chunk });
            s += chunk;
        }
    }
    for special in [0.0f64, -0.0, f64::from_bits(1), f64::MIN_POSITIVE, f64::MAX, -f64::MAX, -0.1, f64::from_bits(f64::MIN_POSITIVE.to_bits() - 3), 0.1 + 0.2, 5e-324, 1.7976931348623157e308, 2.2250738585072014e-308] {
        out.push(Case::Floats { anchor_bits: special.to_bits(), start: 0, count: if special == f64::MAX || special == -f64::MAX || special == 1.7976931348623157e308 { 1 } else { 3 } });
    }
    for id in 0..24 {
        out.push(Case::DualStruct { id });
    }
    for id in 0..12 {
        out.push(Case::PermutedNames { id });
    }
    for mask in 0..128u8 {
        for hols in 0..8u8 {
            out.push(Case::CalStruct { mask, hols });
        }
    }
    for size in [5usize, 9, 16, 17, 33, 64, 65, 101, 130, 257] {
        out.push(Case::LargeStruct { size });
    }
    for set in 0..3u8 {
        for interp in 0..5u8 {
            for order in 0..3u8 {
                out.push(Case::CurveDates { set, interp, order });
            }
        }
    }
    for id in 0..192 {
        out.push(Case::UnionStruct { id, extra: 0 });
        if id % 8 == 3 {
            for extra in [1u32, 2, 3, 4, 6, 11] {
                out.push(Case::UnionStruct { id, extra });
            }
        }
    }
    let small = ["all", "bus", "tgt", "ldn", "fed", "tyo"];
    let mut names: Vec<String> = small.iter().map(|s| s.to_string()).collect();
    for a in small {
        for b in small {
            names.push(format!("{},{}", a, b));
            names.push(format!("{}|{}", a, b));
        }
    }
    names.extend(["LDN,tgt|FED".to_string(), "nyc,stk|osl,zur".to_string(), "tro|syd,wlg".to_string(), "mum".to_string()]);
    if tier == Tier::Quick {
        names.truncate(30);
        names.push("ldn,tgt|fed".to_string());
    }
    for n in names {
        out.push(Case::Named { name: n });
    }
    for interp in 0..6u8 {
        for order in 0..3u8 {
            for calkind in 0..3u8 {
                for conv in 0..11u8 {
                    for modi in 0..5u8 {
                        for ib in [false, true] {
                            // union / named calendars compare over 1970-2200 on every ==: the quick tier keeps them to a slice of the table
                            if tier == Tier::Quick && calkind >= 1 && !(conv == 4 || (modi == 2 && conv % 5 == 0)) {
                                continue;
                            }
                            out.push(Case::Curve { interp, order, calkind, conv, modi, index_base: ib, switches: vec![] });
                        }
                    }
                }
            }
            // curves that have a history of order switches
            for sw in [vec![1u8], vec![2], vec![2, 1], vec![1, 0, 2], vec![0]] {
                out.push(Case::Curve { interp, order, calkind: 2, conv: 4, modi: 2, index_base: true, switches: sw });
            }
        }
    }
    for id in 0..(3 * 3 * 2 * 3 * 8) {
        out.push(Case::Fx { id });
    }
    for id in 0..6 {
        out.push(Case::Spline { id });
    }
    out
}

pub fn run(ctx: &Ctx, replay_file: Option<String>) -> ! {
    if let Some(f) = replay_file {
        replay::<Case, _>(ctx, &f, check);
    }
    let mut cs = cases(ctx.tier);
    if let Ok(only) = std::env::var("VERIF_C16_ONLY") {
        cs.retain(|c| serde_json::to_string(c).unwrap().starts_with(&format!("{{\"{}\"", only)));
        eprintln!("debug filter {}: {} cases", only, cs.len());
    }
    let acc = explore(&cs, check);
    let meta = Meta::exploration(
        "float contents: 2^13 (2^18) CONSECUTIVE doubles after each of the anchors 0.1, 1/3, 1, 1.08, 110.25, 1e-5, 1e10, \
         1e22, 1e-300, 1e300, plus +-0, the smallest subnormals, MIN_POSITIVE and its neighbours, +-MAX - every one placed \
         as a dual number's value, gradient entry and Hessian entry, as a curve node value and index base, as an FX quote \
         (float and Dual), as a spline coefficient and knot, and sent through three channels: JSON of the type, the \
         tagged from_json entry point (hook), and bincode (the byte state of __getstate__/__setstate__). Structures: \
         dual numbers with 0-3 names (unicode, quotes, empty), also held in non-standard memory layouts (reversed-memory gradient, column-major asymmetric second-derivative array); numbers listing the same names in every order loaded \
         one after the other on one thread and inside one curve / spline / FX market; every week mask x holiday subsets for Cal; unions of 1-3 (and 4-14) member calendars with \
         None / [] / 1-2 settlement calendars; named calendars (name-only storage checked in the JSON text, full \
         1970-2200 behaviour compared); curves: 6 interpolators x 3 orders x 3 calendar kinds x 11 conventions x 5 \
         modifiers x index base on/off, curves with a history of order switches, and curves whose node dates straddle 1970-01-01 and 2001-09-09 (timestamps that sort differently as text and as numbers); FX markets of 2-4 currencies x \
         float/Dual/Dual2 quotes x settlement (none, a date, a date-time with nanoseconds) x three base choices x eight histories (an update to the same value in another form (variable-free dual number, plain float), fresh, order switch, update, \
         update between order switches, refused update with a known pair listed first, refused update for its settlement date followed by an order switch); splines of the three types with and without coefficients; typed CurveDF; every loaded market, curve and float spline is also taken ONE STEP FURTHER together with its original (the same quote update, the same three order switches with look-ups, the same re-solve) and must stay identical; large objects on a size menu (5 .. 257): numbers with that many names, curves with that many nodes at orders 0-2, \
         cubic splines with that many coefficients (float and Dual), FX chains of up to 14 currencies. \
         Oracle: the type's own ==, bitwise identity of EVERY float field, identical names/order/kind, and an identical \
         answer to a query battery (rates of all pairs at all three orders, curve look-ups and index values on the C11 \
         dates, calendar predicates, spline values and derivatives). Non-trivial: doubles whose shortest decimal form \
         needs >= 17 characters; structured objects.",
        json!({"consecutive_doubles_per_anchor": ctx.tier.pick(1u64 << 13, 1u64 << 18), "anchors": 10, "cases": cs.len()}),
    )
    .assume("finite doubles only; windows of consecutive doubles around ten anchors, not the whole double range");
    finish(ctx, acc, meta)
}
