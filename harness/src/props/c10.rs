//! C10 FX sensitivities are exact and the market state follows its update history.
//!
//! E1: closed-form sensitivities on every small market x quote form x order.
//! E2: explicit-state BFS (stateright) over the REAL FXRates object to a fixpoint; every transition is
//!     an execution of the real `update` / `set_ad_order`.
use crate::calmodel::to_ndt;
use crate::common::*;
use crate::props::c09::{prufer_trees, CCYS};
use chrono::NaiveDateTime;
use rateslib::dual::{ADOrder, Dual, Dual2, Gradient1, Gradient2, Number, NumberArray2, Vars};
use rateslib::fx::rates::{Ccy, FXRate, FXRates};
use rateslib::verif_hooks as hooks;
use serde::{Deserialize, Serialize};
use serde_json::json;
use stateright::{Checker, Model, Property};
use std::hash::{Hash, Hasher};
use std::sync::atomic::{AtomicU64, Ordering as AO};
use std::sync::Arc;

const QV: [f64; 12] = [1.25, 0.8, 110.5, 7.5e-3, 2.0, 15.0, 0.625, 3.5, 48.0, 1.6e-2, 9.5, 0.35];
const GOWN: f64 = 2.5; // gradient of a quote given as a dual number w.r.t. its own variable

#[derive(Clone, Debug, Serialize, Deserialize, PartialEq, Eq, Hash)]
pub enum Act {
    /// (quote index, value index) items; form of the new quotes: 0 floats, 1 Duals, 2 Dual2s (own variable), 3 Duals
    /// without any variable
    Update { items: Vec<(usize, u8)>, form: u8 },
    /// 0 reversed pair, 1 unquoted pair of known currencies, 2 foreign currency, 3 inconsistent settlement, 4 valid + foreign,
    /// 5 the same pair twice, both with an inconsistent settlement
    BadUpdate(u8),
    SetOrder(u8),
    /// every quote of the market handed over again (latest value and form) with the settlement date 0 none, 1 day 19900,
    /// 2 day 19907: a valid update whatever the current settlement date is
    Roll(u8),
}

#[derive(Clone, Debug, Serialize, Deserialize)]
pub struct Market {
    pub n: usize,
    pub quotes: Vec<(usize, usize)>,
    pub settle: bool,
    pub base: Option<usize>,
    /// settlement codes offered as Act::Roll targets in the exploration of this market
    #[serde(default)]
    pub rolls: Vec<u8>,
}

#[derive(Clone, Debug, Serialize, Deserialize)]
pub enum Case {
    /// quote forms: 0 float, 1 Dual with own variable, 2 Dual2 with own variable, 3 / 4 Dual / Dual2 whose variable carries
    /// the automatic name of the next quote in the list, 5 / 6 likewise of the previous quote; order 1 or 2
    Sens { n: usize, quotes: Vec<(usize, usize)>, forms: Vec<u8>, base: Option<usize>, order: u8 },
    /// BFS over all histories of this market (values per quote from a table of `nvals`)
    Explore { market: Market, nvals: u8 },
    /// one explicit history (replay of a BFS discovery)
    History { market: Market, nvals: u8, actions: Vec<Act> },
    /// EVERY history of exactly `depth` actions over `alphabet` that starts with `prefix`, executed one by one without
    /// merging states (so that state the key cannot see - a cache, a stash - cannot hide behind an equal key)
    Deep { market: Market, alphabet: Vec<Act>, prefix: Vec<Act>, depth: usize },
}

fn ccy(i: usize) -> Ccy {
    Ccy::try_new(CCYS[i]).unwrap()
}
fn ad(o: u8) -> ADOrder {
    match o {
        0 => ADOrder::Zero,
        1 => ADOrder::One,
        _ => ADOrder::Two,
    }
}
fn kind(fx: &FXRates) -> u8 {
    match hooks::fxrates_fx_array(fx) {
        NumberArray2::F64(_) => 0,
        NumberArray2::Dual(_) => 1,
        NumberArray2::Dual2(_) => 2,
    }
}
fn val(n: &Number) -> f64 {
    f64::from(n)
}

// ---------------------------------------------------------------------------------------------
// E1: closed-form sensitivities

/// for r(a,b): per quote the exponent s_e in r = prod q_e^{s_e}
fn path_signs(n: usize, quotes: &[(usize, usize)], a: usize, b: usize) -> Vec<i32> {
    let mut adj: Vec<Vec<(usize, usize, i32)>> = vec![vec![]; n];
    for (i, (x, y)) in quotes.iter().enumerate() {
        adj[*x].push((*y, i, 1));
        adj[*y].push((*x, i, -1));
    }
    let mut best: Option<Vec<i32>> = None;
    fn dfs(u: usize, target: usize, prev: usize, adj: &Vec<Vec<(usize, usize, i32)>>, cur: &mut Vec<i32>, best: &mut Option<Vec<i32>>) {
        if u == target {
            *best = Some(cur.clone());
            return;
        }
        for (v, e, s) in adj[u].iter() {
            if *v != prev {
                cur[*e] = *s;
                dfs(*v, target, u, adj, cur, best);
                cur[*e] = 0;
            }
        }
    }
    dfs(a, b, usize::MAX, &adj, &mut vec![0; quotes.len()], &mut best);
    best.unwrap_or_else(|| vec![0; quotes.len()])
}

fn quote_number(i: usize, v: f64, form: u8) -> Number {
    match form {
        0 => Number::F64(v),
        1 => Number::Dual(Dual::try_new(v, vec![format!("q{}", i)], vec![GOWN]).unwrap()),
        _ => Number::Dual2(Dual2::try_new(v, vec![format!("q{}", i)], vec![GOWN], vec![]).unwrap()),
    }
}

fn check_sens(case: &Case, idx: u64, acc: &mut Acc) {
    let (n, quotes, forms, base, order) = match case {
        Case::Sens { n, quotes, forms, base, order } => (*n, quotes, forms, base, *order),
        _ => unreachable!(),
    };
    let cj = || serde_json::to_value(case).unwrap();
    // expected variable names and the chain factor of each quote's own variable; forms 3 / 4 (5 / 6) are Dual / Dual2
    // quotes whose own variable carries the automatic name of the NEXT (PREVIOUS) quote in the list
    let m_ = quotes.len();
    let tag = |e: usize| format!("fx_{}{}", CCYS[quotes[e].0], CCYS[quotes[e].1]);
    let qnames: Vec<String> = (0..m_)
        .map(|i| match forms[i] {
            0 => tag(i),
            1 | 2 => format!("q{}", i),
            3 | 4 => tag((i + 1) % m_),
            _ => tag((i + m_ - 1) % m_),
        })
        .collect();
    let number_of = |i: usize| -> Number {
        match forms[i] {
            0 | 1 | 2 => quote_number(i, QV[i], forms[i]),
            3 | 5 => Number::Dual(Dual::try_new(QV[i], vec![qnames[i].clone()], vec![GOWN]).unwrap()),
            _ => Number::Dual2(Dual2::try_new(QV[i], vec![qnames[i].clone()], vec![GOWN], vec![]).unwrap()),
        }
    };
    let rates: Vec<FXRate> = quotes.iter().enumerate().map(|(i, (a, b))| FXRate::try_new(CCYS[*a], CCYS[*b], number_of(i), None).unwrap()).collect();
    let mut fx = match FXRates::try_new(rates, base.map(ccy)) {
        Ok(f) => f,
        Err(_) => {
            acc.violate("sens/valid-market-rejected", idx, cj(), json!("Ok"), json!("Err"));
            return;
        }
    };
    if fx.set_ad_order(ad(order)).is_err() || kind(&fx) != order {
        acc.violate("sens/set_ad_order", idx, cj(), json!(order), json!(kind(&fx)));
        return;
    }
    // distinct variables, and for each the quotes that depend on it
    let mut names: Vec<String> = vec![];
    for nm in qnames.iter() {
        if !names.contains(nm) {
            names.push(nm.clone());
        }
    }
    let group: Vec<Vec<usize>> = names.iter().map(|nm| (0..m_).filter(|e| &qnames[*e] == nm).collect()).collect();
    let gfac: Vec<f64> = forms.iter().map(|f| if *f == 0 { 1.0 } else { GOWN }).collect();
    for a in 0..n {
        for b in 0..n {
            acc.eval();
            let s = path_signs(n, quotes, a, b);
            let mut r = 1.0;
            for (e, se) in s.iter().enumerate() {
                r *= QV[e].powi(*se);
            }
            if s.iter().filter(|x| **x != 0).count() >= 2 {
                acc.nontrivial();
            }
            let got = match fx.rate(&ccy(a), &ccy(b)) {
                Some(x) => x,
                None => {
                    acc.violate("sens/missing-rate", idx, cj(), json!(format!("{}{}", CCYS[a], CCYS[b])), json!("None"));
                    continue;
                }
            };
            let want_q: Vec<f64> = s.iter().enumerate().map(|(e, se)| *se as f64 * r / QV[e] * gfac[e]).collect();
            let want_g: Vec<f64> = group.iter().map(|g| g.iter().map(|e| want_q[*e]).sum()).collect();
            let pair = format!("{}{}", CCYS[a], CCYS[b]);
            let (g, carried): (Vec<f64>, Vec<String>) = match &got {
                Number::Dual(d) if order == 1 => (d.gradient1(names.clone()).to_vec(), d.vars().iter().cloned().collect()),
                Number::Dual2(d) if order == 2 => (d.gradient1(names.clone()).to_vec(), d.vars().iter().cloned().collect()),
                other => {
                    acc.violate("sens/kind", idx, cj(), json!(order), json!(format!("{:?}", other)));
                    continue;
                }
            };
            acc.outcome(&(hash_f64s(&g), a, b));
            if !close_scaled(val(&got), r, 1e-12, r.abs()) {
                acc.violate("sens/value", idx, cj(), json!({"pair": pair, "want": r}), json!(val(&got)));
            }
            for c in carried.iter() {
                if !names.contains(c) {
                    acc.violate("sens/variable-name", idx, cj(), json!({"pair": pair, "allowed": names}), json!(c));
                }
            }
            for e in 0..names.len() {
                let gs: f64 = group[e].iter().map(|q| want_q[*q].abs()).sum();
                if !close_scaled(g[e], want_g[e], 1e-11, gs.max(r.abs() * 1e-3)) {
                    acc.violate(
                        if group[e].len() > 1 { "sens/first-order/shared-variable" } else if s[group[e][0]] == 0 { "sens/first-order/off-path" } else if forms[group[e][0]] == 0 { "sens/first-order/float-quote" } else { "sens/first-order/dual-quote" },
                        idx,
                        cj(),
                        json!({"pair": pair, "variable": names[e], "want": want_g[e]}),
                        json!(g[e]),
                    );
                }
            }
            if let Number::Dual2(d) = &got {
                let h = d.gradient2(names.clone());
                let wq = |e: usize, f: usize| -> f64 {
                    if e == f {
                        (s[e] * (s[e] - 1)) as f64 * r / (QV[e] * QV[e]) * gfac[e] * gfac[e]
                    } else {
                        (s[e] * s[f]) as f64 * r / (QV[e] * QV[f]) * gfac[e] * gfac[f]
                    }
                };
                for e in 0..names.len() {
                    for f in 0..names.len() {
                        let (mut w, mut scale) = (0.0, 0.0);
                        for qe in group[e].iter() {
                            for qf in group[f].iter() {
                                w += wq(*qe, *qf);
                                scale += (r / (QV[*qe] * QV[*qf]) * gfac[*qe] * gfac[*qf]).abs();
                            }
                        }
                        if !close_scaled(h[[e, f]], w, 1e-10, scale) {
                            acc.violate(
                                if group[e].len() > 1 || group[f].len() > 1 { "sens/second-order/shared-variable" } else if e == f { "sens/second-order/diagonal" } else { "sens/second-order/cross" },
                                idx,
                                cj(),
                                json!({"pair": pair, "variables": [names[e].clone(), names[f].clone()], "want": w}),
                                json!(h[[e, f]]),
                            );
                        }
                    }
                }
            }
        }
    }
    if idx % 4001 == 0 {
        acc.sample(cj);
    }
}

// ---------------------------------------------------------------------------------------------
// E2: histories

#[derive(Clone, Debug)]
pub struct St {
    pub fx: FXRates,
    /// per quote: (value index, form 0/1/2)
    pub shadow: Vec<(u8, u8)>,
    /// settlement date code of the latest quotes (see Act::Roll)
    pub settle: u8,
    pub bad: Option<(String, String)>,
    pub key: String,
}
impl PartialEq for St {
    fn eq(&self, o: &St) -> bool {
        self.key == o.key
    }
}
impl Eq for St {}
impl Hash for St {
    fn hash<H: Hasher>(&self, h: &mut H) {
        self.key.hash(h)
    }
}

fn settle_of(code: u8) -> Option<NaiveDateTime> {
    match code {
        0 => None,
        1 => Some(to_ndt(19900)),
        _ => Some(to_ndt(19907)),
    }
}

fn qval(i: usize, vi: u8) -> f64 {
    QV[i] * [1.0, 1.0625, 0.875][vi as usize]
}

fn mk_rate(m: &Market, sc: u8, i: usize, vi: u8, form: u8) -> FXRate {
    let (a, b) = m.quotes[i];
    let v = qval(i, vi);
    let num = match form {
        0 => Number::F64(v),
        1 => Number::Dual(Dual::new(v, vec![format!("u{}", i)])),
        3 => Number::Dual(Dual::new(v, vec![])),
        _ => Number::Dual2(Dual2::try_new(v, vec![format!("u{}", i)], vec![1.0], vec![0.125]).unwrap()),
    };
    FXRate::try_new(CCYS[a], CCYS[b], num, settle_of(sc)).unwrap()
}

fn number_key(x: &Number) -> String {
    match x {
        Number::F64(f) => format!("F{:016x}", f.to_bits()),
        Number::Dual(d) => {
            let mut v: Vec<String> = d.vars().iter().zip(d.dual().iter()).map(|(n, g)| format!("{}:{:016x}", n, g.to_bits())).collect();
            v.sort();
            format!("D{:016x}[{}]", d.real().to_bits(), v.join(","))
        }
        Number::Dual2(d) => {
            let names: Vec<String> = d.vars().iter().cloned().collect();
            let mut v: Vec<String> = names.iter().zip(d.dual().iter()).map(|(n, g)| format!("{}:{:016x}", n, g.to_bits())).collect();
            for (i, a) in names.iter().enumerate() {
                for (j, b) in names.iter().enumerate() {
                    v.push(format!("{}|{}:{:016x}", a, b, d.dual2()[[i, j]].to_bits()));
                }
            }
            v.sort();
            format!("T{:016x}[{}]", d.real().to_bits(), v.join(","))
        }
    }
}

/// canonical key = the complete observable content (no abstraction)
fn state_key(fx: &FXRates, shadow: &[(u8, u8)], bad: &Option<(String, String)>) -> String {
    let mut s = String::new();
    for r in hooks::fxrates_fx_rates(fx) {
        let (l, rr, num, st) = hooks::fxrate_parts(&r);
        s.push_str(&format!("{}{}={}@{:?};", l, rr, number_key(&num), st));
    }
    let cs = hooks::fxrates_currencies(fx);
    s.push_str(&format!("|{}|k{}|", cs.join(","), kind(fx)));
    for a in cs.iter() {
        for b in cs.iter() {
            let x = fx.rate(&Ccy::try_new(a).unwrap(), &Ccy::try_new(b).unwrap()).unwrap();
            s.push_str(&number_key(&x));
            s.push(';');
        }
    }
    s.push_str(&format!("|{:?}|{:?}", shadow, bad.as_ref().map(|b| &b.0)));
    s
}

fn init_state(m: &Market) -> St {
    let settle = m.settle as u8;
    let rates: Vec<FXRate> = (0..m.quotes.len()).map(|i| mk_rate(m, settle, i, 0, 0)).collect();
    let fx = FXRates::try_new(rates, m.base.map(ccy)).expect("valid market");
    let shadow = vec![(0u8, 0u8); m.quotes.len()];
    let key = format!("{}|s{}", state_key(&fx, &shadow, &None), settle);
    St { fx, shadow, settle, bad: None, key }
}

fn all_values(fx: &FXRates) -> Vec<f64> {
    let cs = hooks::fxrates_currencies(fx);
    let mut v = vec![];
    for a in cs.iter() {
        for b in cs.iter() {
            v.push(val(&fx.rate(&Ccy::try_new(a).unwrap(), &Ccy::try_new(b).unwrap()).unwrap()));
        }
    }
    v
}

fn ulps_apart(a: f64, b: f64) -> u64 {
    if a == b {
        return 0;
    }
    if a.is_nan() || b.is_nan() || a.signum() != b.signum() {
        return u64::MAX;
    }
    (a.to_bits() as i64 - b.to_bits() as i64).unsigned_abs()
}

/// compare two markets as dual numbers by name after putting both at `order`
fn same_at_order(x: &FXRates, y: &FXRates, order: u8) -> Result<(), String> {
    let (mut x, mut y) = (x.clone(), y.clone());
    x.set_ad_order(ad(order)).map_err(|_| "set_ad_order failed".to_string())?;
    y.set_ad_order(ad(order)).map_err(|_| "set_ad_order failed".to_string())?;
    let cs = hooks::fxrates_currencies(&x);
    if cs != hooks::fxrates_currencies(&y) {
        return Err(format!("currency lists differ: {:?} vs {:?}", cs, hooks::fxrates_currencies(&y)));
    }
    for a in cs.iter() {
        for b in cs.iter() {
            let (ca, cb) = (Ccy::try_new(a).unwrap(), Ccy::try_new(b).unwrap());
            let (p, q) = (x.rate(&ca, &cb).unwrap(), y.rate(&ca, &cb).unwrap());
            let ok = match (&p, &q) {
                (Number::F64(f), Number::F64(g)) => close_scaled(*f, *g, 1e-12, g.abs()),
                (Number::Dual(d), Number::Dual(e)) => {
                    let mut names: Vec<String> = d.vars().iter().chain(e.vars().iter()).cloned().collect();
                    names.sort();
                    names.dedup();
                    let (g1, g2) = (d.gradient1(names.clone()), e.gradient1(names.clone()));
                    close_scaled(d.real(), e.real(), 1e-12, e.real().abs()) && g1.iter().zip(g2.iter()).all(|(u, v)| close_scaled(*u, *v, 1e-11, v.abs().max(1e-300)))
                }
                (Number::Dual2(d), Number::Dual2(e)) => {
                    let mut names: Vec<String> = d.vars().iter().chain(e.vars().iter()).cloned().collect();
                    names.sort();
                    names.dedup();
                    let (g1, g2) = (d.gradient1(names.clone()), e.gradient1(names.clone()));
                    let (h1, h2) = (d.gradient2(names.clone()), e.gradient2(names.clone()));
                    let hs = h2.iter().fold(0.0_f64, |m, v| m.max(v.abs()));
                    close_scaled(d.real(), e.real(), 1e-12, e.real().abs())
                        && g1.iter().zip(g2.iter()).all(|(u, v)| close_scaled(*u, *v, 1e-11, v.abs().max(1e-300)))
                        && h1.iter().zip(h2.iter()).all(|(u, v)| close_scaled(*u, *v, 1e-10, hs.max(1e-300)))
                }
                _ => false,
            };
            if !ok {
                return Err(format!("{}{} at order {}: {:?} vs fresh {:?}", a, b, order, p, q));
            }
        }
    }
    Ok(())
}

/// the transition function: executes the REAL mutator and evaluates every transition/state oracle
pub fn apply(m: &Market, st: &St, act: &Act) -> St {
    let mut fx = st.fx.clone();
    let mut shadow = st.shadow.clone();
    let mut settle = st.settle;
    let mut bad: Option<(String, String)> = st.bad.clone();
    let before_vals = all_values(&fx);
    let before_key_core = state_key(&fx, &[], &None);
    let flag = |bad: &mut Option<(String, String)>, k: &str, msg: String| {
        if bad.is_none() {
            *bad = Some((k.to_string(), msg));
        }
    };
    let r = guarded(|| match act {
        Act::Update { items, form } => {
            let list: Vec<FXRate> = items.iter().map(|(i, vi)| mk_rate(m, settle, *i, *vi, *form)).collect();
            let res = fx.update(list).is_ok();
            (res, true)
        }
        Act::BadUpdate(k) => {
            let (a0, b0) = m.quotes[0];
            let sd = settle_of(settle);
            let other_sd = if settle != 0 { None } else { Some(to_ndt(19901)) };
            let foreign = FXRate::try_new(CCYS[a0], "xxx", Number::F64(3.0), sd).unwrap();
            let list: Vec<FXRate> = match k {
                0 => vec![FXRate::try_new(CCYS[b0], CCYS[a0], Number::F64(1.0 / qval(0, 1)), sd).unwrap()],
                1 => {
                    // two known currencies that are not a quoted pair (either direction)
                    let mut found = None;
                    for x in 0..m.n {
                        for y in 0..m.n {
                            if x != y && !m.quotes.iter().any(|(p, q)| (*p == x && *q == y) || (*p == y && *q == x)) {
                                found = Some((x, y));
                            }
                        }
                    }
                    match found {
                        Some((x, y)) => vec![FXRate::try_new(CCYS[x], CCYS[y], Number::F64(4.0), sd).unwrap()],
                        None => vec![foreign.clone()],
                    }
                }
                2 => vec![foreign.clone()],
                3 => vec![FXRate::try_new(CCYS[a0], CCYS[b0], Number::F64(qval(0, 1)), other_sd).unwrap()],
                5 => vec![FXRate::try_new(CCYS[a0], CCYS[b0], Number::F64(qval(0, 1)), other_sd).unwrap(), FXRate::try_new(CCYS[a0], CCYS[b0], Number::F64(qval(0, 2)), other_sd).unwrap()],
                _ => vec![mk_rate(m, settle, 0, 1, 0), foreign.clone()],
            };
            (fx.update(list).is_ok(), false)
        }
        Act::SetOrder(o) => (fx.set_ad_order(ad(*o)).is_ok(), true),
        Act::Roll(to) => {
            // (supplied in reverse quote order when rolling to code 2)
            let mut list: Vec<FXRate> = (0..m.quotes.len()).map(|i| mk_rate(m, *to, i, shadow[i].0, shadow[i].1)).collect();
            if *to == 2 {
                list.reverse();
            }
            (fx.update(list).is_ok(), true)
        }
    });
    match (act, r) {
        (_, Err(msg)) => flag(&mut bad, "history/panic", msg),
        (Act::Update { items, form }, Ok((ok, _))) => {
            if !ok {
                flag(&mut bad, "history/valid-update-refused", format!("{:?}", act));
            } else {
                for (i, vi) in items {
                    shadow[*i] = (*vi, *form);
                }
            }
        }
        (Act::Roll(to), Ok((ok, _))) => {
            if !ok {
                flag(&mut bad, "history/valid-roll-refused", format!("{:?} from settlement code {}", act, settle));
            } else {
                settle = *to;
            }
        }
        (Act::BadUpdate(k), Ok((ok, _))) => {
            if ok {
                flag(&mut bad, &format!("history/bad-update-accepted/{}", k), format!("{:?} returned Ok", act));
            }
            if state_key(&fx, &[], &None) != before_key_core {
                flag(&mut bad, &format!("history/refused-update-changed-state/{}", k), format!("{:?}", act));
            }
        }
        (Act::SetOrder(o), Ok((ok, _))) => {
            if !ok || kind(&fx) != *o {
                flag(&mut bad, "history/set_ad_order-kind", format!("asked {} got kind {}", o, kind(&fx)));
            }
            let after = all_values(&fx);
            for (x, y) in before_vals.iter().zip(after.iter()) {
                if ulps_apart(*x, *y) > 4 {
                    flag(&mut bad, &format!("history/order-switch-changed-value/to{}", o), format!("{:e} -> {:e}", x, y));
                }
            }
        }
    }
    // the object the action was applied to is a CLONE of the state's object: the original must not have moved
    // (a clone that still shares rates, quotes or a cache with its source would show here)
    if bad.is_none() {
        let orig_vals = all_values(&st.fx);
        let same_vals = orig_vals.len() == before_vals.len() && orig_vals.iter().zip(before_vals.iter()).all(|(x, y)| x.to_bits() == y.to_bits() || (x.is_nan() && y.is_nan()));
        let orig_quotes = hooks::fxrates_fx_rates(&st.fx);
        let want_quotes: Vec<FXRate> = (0..m.quotes.len()).map(|i| mk_rate(m, st.settle, i, st.shadow[i].0, st.shadow[i].1)).collect();
        if !same_vals || orig_quotes != want_quotes {
            flag(&mut bad, "history/clone-shares-state", format!("the market the clone was taken from changed when {:?} was applied to the clone", act));
        }
    }
    // state invariants: stored quotes == latest quotes; rates == market built directly from them
    if bad.is_none() {
        let stored = hooks::fxrates_fx_rates(&fx);
        for (i, r) in stored.iter().enumerate() {
            let want = mk_rate(m, settle, i, shadow[i].0, shadow[i].1);
            if *r != want {
                flag(&mut bad, "history/stored-quotes", format!("quote {}: {:?} but latest is {:?}", i, r, want));
            }
        }
        let base = Ccy::try_new(&hooks::fxrates_currencies(&fx)[0]).unwrap();
        let latest: Vec<FXRate> = (0..m.quotes.len()).map(|i| mk_rate(m, settle, i, shadow[i].0, shadow[i].1)).collect();
        match FXRates::try_new(latest, Some(base)) {
            Err(_) => flag(&mut bad, "history/oracle", "fresh rebuild failed".to_string()),
            Ok(fresh) => {
                let (a, b) = (all_values(&fx), all_values(&fresh));
                for (x, y) in a.iter().zip(b.iter()) {
                    if !close_scaled(*x, *y, 1e-12, y.abs()) {
                        flag(&mut bad, "history/rates-differ-from-rebuild", format!("{:e} vs fresh {:e} after {:?}", x, y, act));
                    }
                }
                for o in [1u8, 2u8] {
                    if let Err(e) = same_at_order(&fx, &fresh, o) {
                        flag(&mut bad, &format!("history/sensitivities-differ-from-rebuild/order{}", o), e);
                    }
                }
            }
        }
    }
    let key = format!("{}|s{}", state_key(&fx, &shadow, &bad), settle);
    St { fx, shadow, settle, bad, key }
}

pub fn actions_of(m: &Market, nvals: u8) -> Vec<Act> {
    let q = m.quotes.len();
    let mut out = vec![];
    for mask in 1..(1usize << q) {
        let idxs: Vec<usize> = (0..q).filter(|i| mask & (1 << i) != 0).collect();
        let combos = (nvals as usize).pow(idxs.len() as u32);
        for c in 0..combos {
            let mut cc = c;
            let items: Vec<(usize, u8)> = idxs
                .iter()
                .map(|i| {
                    let v = (cc % nvals as usize) as u8;
                    cc /= nvals as usize;
                    (*i, v)
                })
                .collect();
            // markets of up to 3 currencies also get second-order quotes
            let forms: &[u8] = if q == 1 { &[0, 1, 2, 3] } else if q <= 2 { &[0, 1, 2] } else { &[0, 1] };
            for form in forms {
                out.push(Act::Update { items: items.clone(), form: *form });
            }
        }
    }
    // one update that names the same pair twice, next to each other and apart: the later entry is the latest quote
    if q <= 2 {
        for i in 0..q {
            out.push(Act::Update { items: vec![(i, 0), (i, 1)], form: 0 });
            out.push(Act::Update { items: vec![(i, 1), (i, 0)], form: 1 });
            if q == 2 {
                out.push(Act::Update { items: vec![(i, 1), (1 - i, 1), (i, 0)], form: 0 });
            }
        }
    }
    for k in 0..6u8 {
        if (k == 3 || k == 5) && q == 1 {
            continue; // a single-quote market stays consistent under a new settlement date
        }
        out.push(Act::BadUpdate(k));
    }
    for o in 0..3u8 {
        out.push(Act::SetOrder(o));
    }
    for to in m.rolls.iter() {
        out.push(Act::Roll(*to));
    }
    out
}

struct HistModel {
    m: Market,
    acts: Vec<Act>,
    transitions: Arc<AtomicU64>,
}

impl Model for HistModel {
    type State = St;
    type Action = Act;
    fn init_states(&self) -> Vec<St> {
        vec![init_state(&self.m)]
    }
    fn actions(&self, state: &St, actions: &mut Vec<Act>) {
        if state.bad.is_none() {
            actions.extend(self.acts.iter().cloned());
        }
    }
    fn next_state(&self, last: &St, action: Act) -> Option<St> {
        self.transitions.fetch_add(1, AO::Relaxed);
        Some(apply(&self.m, last, &action))
    }
    fn properties(&self) -> Vec<Property<Self>> {
        vec![Property::<Self>::always("history oracles hold", |_, s: &St| s.bad.is_none())]
    }
}

fn check_explore(case: &Case, idx: u64, acc: &mut Acc) {
    let (m, nvals) = match case {
        Case::Explore { market, nvals } => (market, *nvals),
        _ => unreachable!(),
    };
    let acts = actions_of(m, nvals);
    let transitions = Arc::new(AtomicU64::new(0));
    let model = HistModel { m: m.clone(), acts: acts.clone(), transitions: transitions.clone() };
    let checker = model.checker().threads(1).spawn_bfs().join();
    let states = checker.unique_state_count() as u64;
    let tr = transitions.load(AO::Relaxed);
    acc.states += states;
    acc.transitions += tr;
    acc.evals_add(tr);
    acc.nontrivial += states;
    acc.bump_by("sum over markets of the BFS depth reached", checker.max_depth() as u64);
    acc.outcome(&(states, tr, m.n, m.quotes.clone()));
    let disc = checker.discoveries();
    if let Some(path) = disc.get("history oracles hold") {
        let actions: Vec<Act> = path.clone().into_actions();
        // re-execute the discovered history without the explorer to obtain the message
        let mut st = init_state(m);
        for a in actions.iter() {
            st = apply(m, &st, a);
        }
        let (k, msg) = st.bad.clone().unwrap_or(("history/unreproduced".to_string(), "discovery did not reproduce".to_string()));
        acc.violate(&k, idx, serde_json::to_value(Case::History { market: m.clone(), nvals, actions: actions.clone() }).unwrap(), json!("all history oracles hold"), json!(msg));
    } else if !checker.is_done() {
        acc.violate("history/search-incomplete", idx, serde_json::to_value(case).unwrap(), json!("fixpoint"), json!("checker not done"));
    } else {
        acc.bump("fixpoints reached");
    }
    acc.sample(|| json!({"market": m, "actions_per_state": acts.len(), "states": states, "transitions": tr, "max_depth": checker.max_depth(), "example_history": [acts[0].clone(), Act::SetOrder(2), Act::BadUpdate(4), acts[acts.len() / 2].clone()]}));
}

fn check_history(case: &Case, idx: u64, acc: &mut Acc) {
    let (m, _nvals, actions) = match case {
        Case::History { market, nvals, actions } => (market, *nvals, actions),
        _ => unreachable!(),
    };
    let mut st = init_state(m);
    for a in actions.iter() {
        acc.eval();
        st = apply(m, &st, a);
        if let Some((k, msg)) = &st.bad {
            acc.violate(k, idx, serde_json::to_value(case).unwrap(), json!("all history oracles hold"), json!(msg));
            return;
        }
    }
}

fn deep_dfs(m: &Market, st: &St, alphabet: &[Act], left: usize, path: &mut Vec<Act>, idx: u64, acc: &mut Acc) -> bool {
    if left == 0 {
        acc.outcome(&st.key);
        return true;
    }
    for a in alphabet {
        acc.eval();
        let nx = apply(m, st, a);
        path.push(a.clone());
        if let Some((k, msg)) = &nx.bad {
            acc.violate(&format!("deep-{}", k), idx, serde_json::to_value(Case::History { market: m.clone(), nvals: 3, actions: path.clone() }).unwrap(), json!("all history oracles hold"), json!(msg));
            path.pop();
            return false;
        }
        let ok = deep_dfs(m, &nx, alphabet, left - 1, path, idx, acc);
        path.pop();
        if !ok {
            return false;
        }
    }
    true
}

fn check_deep(case: &Case, idx: u64, acc: &mut Acc) {
    let (m, alphabet, prefix, depth) = match case {
        Case::Deep { market, alphabet, prefix, depth } => (market, alphabet, prefix, *depth),
        _ => unreachable!(),
    };
    let mut st = init_state(m);
    let mut path = vec![];
    for a in prefix {
        acc.eval();
        st = apply(m, &st, a);
        path.push(a.clone());
        if let Some((k, msg)) = &st.bad {
            acc.violate(&format!("deep-{}", k), idx, serde_json::to_value(Case::History { market: m.clone(), nvals: 3, actions: path.clone() }).unwrap(), json!("all history oracles hold"), json!(msg));
            return;
        }
    }
    acc.nontrivial();
    deep_dfs(m, &st, alphabet, depth.saturating_sub(prefix.len()), &mut path, idx, acc);
    if idx % 97 == 0 {
        acc.sample(|| json!({"deep": {"market": m, "alphabet_size": alphabet.len(), "depth": depth, "prefix": prefix}}));
    }
}

pub fn check(case: &Case, idx: u64, acc: &mut Acc) {
    match case {
        Case::Deep { .. } => check_deep(case, idx, acc),
        Case::Sens { .. } => check_sens(case, idx, acc),
        Case::Explore { .. } => check_explore(case, idx, acc),
        Case::History { .. } => check_history(case, idx, acc),
    }
}

pub fn cases(tier: Tier) -> Vec<Case> {
    let mut out = vec![];
    // E2 first (the longest cases get scheduled first)
    let nvals = tier.pick(2u8, 3u8);
    let mut markets: Vec<Market> = vec![];
    for settle in [false, true] {
        markets.push(Market { n: 2, quotes: vec![(0, 1)], settle, base: None, rolls: vec![] });
        markets.push(Market { n: 2, quotes: vec![(1, 0)], settle, base: Some(0), rolls: vec![] });
        for edges in prufer_trees(3) {
            for orient in 0..4usize {
                let q: Vec<(usize, usize)> = edges.iter().enumerate().map(|(i, (a, b))| if orient & (1 << i) != 0 { (*b, *a) } else { (*a, *b) }).collect();
                markets.push(Market { n: 3, quotes: q.clone(), settle, base: None, rolls: vec![] });
                if orient == 1 {
                    markets.push(Market { n: 3, quotes: q, settle, base: Some(2), rolls: vec![] });
                }
            }
        }
    }
    // chain and star on 4 currencies
    markets.push(Market { n: 4, quotes: vec![(0, 1), (2, 1), (2, 3)], settle: false, base: None, rolls: vec![] });
    markets.push(Market { n: 4, quotes: vec![(1, 0), (0, 2), (3, 0)], settle: true, base: Some(3), rolls: vec![] });
    for (ti, edges) in prufer_trees(4).iter().enumerate() {
        // quick: every second labelled tree on 4 currencies (stars and paths both occur among them) in one (alternating)
        // orientation; thorough: every tree in every orientation
        if tier != Tier::Thorough && ti % 2 == 1 {
            continue;
        }
        let orients: Vec<usize> = if tier == Tier::Thorough { (0..8).collect() } else { vec![0b010] };
        for orient in orients {
            let q: Vec<(usize, usize)> = edges.iter().enumerate().map(|(i, (a, b))| if orient & (1 << i) != 0 { (*b, *a) } else { (*a, *b) }).collect();
            markets.push(Market { n: 4, quotes: q, settle: if tier == Tier::Thorough { ti % 2 == 1 } else { (ti / 2) % 2 == 1 }, base: if ti % 3 == 0 { None } else { Some(ti % 4) }, rolls: vec![] });
        }
    }
    // the settlement date is part of the state: every market is rolled between no date and a date (thorough tier: and a
    // second date); in the quick tier the three-currency markets start with / without a date alternately instead of
    // both, and the four-currency markets are not rolled
    let mut kept: Vec<Market> = vec![];
    let mut seen3 = [0usize; 2];
    for mut m in markets.into_iter() {
        if tier == Tier::Thorough {
            m.rolls = vec![0, 1, 2];
        } else {
            if m.n == 3 {
                let k = seen3[m.settle as usize];
                seen3[m.settle as usize] += 1;
                if m.settle != (k % 2 == 1) {
                    continue;
                }
            }
            m.rolls = if m.n <= 3 { vec![0, 1] } else { vec![] };
        }
        kept.push(m);
    }
    let markets = kept;
    for m in markets {
        let nv = if m.n == 4 { 2 } else { nvals };
        out.push(Case::Explore { market: m, nvals: nv });
    }
    // deep histories on the smallest markets, state by state without merging: one quote (depth 5, thorough 6) and a
    // chain of two quotes (depth 5 over a smaller alphabet)
    {
        let upd = |items: Vec<(usize, u8)>, form: u8| Act::Update { items, form };
        let m1 = Market { n: 2, quotes: vec![(0, 1)], settle: false, base: None, rolls: vec![] };
        let a1 = vec![upd(vec![(0, 0)], 0), upd(vec![(0, 1)], 0), upd(vec![(0, 0)], 3), upd(vec![(0, 1)], 1), upd(vec![(0, 1)], 2), Act::SetOrder(0), Act::SetOrder(1), Act::SetOrder(2), Act::BadUpdate(2), Act::Roll(1), Act::Roll(0)];
        let m2 = Market { n: 3, quotes: vec![(0, 1), (2, 1)], settle: true, base: None, rolls: vec![] };
        let a2 = vec![upd(vec![(0, 1)], 0), upd(vec![(1, 1)], 3), upd(vec![(0, 0), (1, 0)], 0), Act::SetOrder(0), Act::SetOrder(1), Act::SetOrder(2), Act::BadUpdate(3), Act::Roll(0)];
        for (m, a, depth) in [(m1, a1, tier.pick(5usize, 6usize)), (m2, a2, tier.pick(4usize, 6usize))] {
            for x in a.iter() {
                for y in a.iter() {
                    out.push(Case::Deep { market: m.clone(), alphabet: a.clone(), prefix: vec![x.clone(), y.clone()], depth });
                }
            }
        }
    }
    // histories on large markets (chain, star, caterpillar on 10, 12, 13 currencies): EVERY action sequence of length
    // <= 2 (thorough: 3) over a reduced alphabet, run with the same transition function and oracles as the BFS
    for n in [10usize, 12, 13] {
        let m = n - 1;
        let shapes: Vec<Vec<(usize, usize)>> = vec![
            (0..m).map(|i| if i % 2 == 0 { (i, i + 1) } else { (i + 1, i) }).collect(),
            (0..m).map(|i| if i % 3 == 0 { (i + 1, 0) } else { (0, i + 1) }).collect(),
            (0..m).map(|i| if i < m / 2 { (i, i + 1) } else { (i - m / 2, i + 1) }).collect(),
        ];
        for (si, q) in shapes.into_iter().enumerate() {
            let market = Market { n, quotes: q, settle: si == 1, base: if si == 2 { Some(n - 1) } else { None }, rolls: vec![] };
            let alphabet: Vec<Act> = vec![
                Act::Update { items: vec![(0, 1)], form: 0 },
                Act::Update { items: vec![(m - 1, 2)], form: 1 },
                Act::Update { items: vec![(m / 2, 1)], form: 2 },
                Act::Update { items: (0..m).map(|i| (i, 1 + (i % 2) as u8)).collect(), form: 0 },
                Act::Update { items: (0..m).map(|i| (i, 0)).collect(), form: 1 },
                Act::BadUpdate(1),
                Act::BadUpdate(4),
                Act::SetOrder(0),
                Act::SetOrder(1),
                Act::SetOrder(2),
            ];
            let maxlen = tier.pick(2usize, 3usize);
            let mut frontier: Vec<Vec<Act>> = vec![vec![]];
            for _ in 0..maxlen {
                let mut next = vec![];
                for f in frontier.iter() {
                    for a in alphabet.iter() {
                        let mut t = f.clone();
                        t.push(a.clone());
                        next.push(t);
                    }
                }
                frontier = next;
            }
            // sequences of exactly maxlen actions cover all shorter ones as prefixes (every step is judged)
            for actions in frontier {
                out.push(Case::History { market: market.clone(), nvals: 3, actions });
            }
        }
    }
    // E1, larger markets on a menu: chain, star and caterpillar on 8, 10, 11, 12, 13 currencies with quote-form
    // patterns (all floats, all Duals, all Dual2s, a single pre-tagged dual quote at the first / middle / last position)
    for n in [8usize, 10, 11, 12, 13] {
        let m = n - 1;
        let shapes: Vec<Vec<(usize, usize)>> = vec![
            (0..m).map(|i| if i % 2 == 0 { (i, i + 1) } else { (i + 1, i) }).collect(),
            (0..m).map(|i| if i % 3 == 0 { (i + 1, 0) } else { (0, i + 1) }).collect(),
            (0..m).map(|i| if i < m / 2 { (i, i + 1) } else { (i - m / 2, i + 1) }).collect(),
        ];
        for q in shapes {
            let mut patterns: Vec<Vec<u8>> = vec![vec![0; m], vec![1; m], vec![2; m]];
            for pos in [0, m / 2, m - 1] {
                for f in [1u8, 2u8, 3, 4, 5, 6] {
                    let mut p = vec![0u8; m];
                    p[pos] = f;
                    patterns.push(p);
                }
            }
            for forms in patterns {
                for base in [None, Some(n - 1)] {
                    for order in [1u8, 2u8] {
                        out.push(Case::Sens { n, quotes: q.clone(), forms: forms.clone(), base, order });
                    }
                }
            }
        }
    }
    // E1
    let nmax = tier.pick(4, 5);
    for n in 2..=nmax {
        for edges in prufer_trees(n) {
            let m = edges.len();
            for orient in 0..(1usize << m) {
                let q: Vec<(usize, usize)> = edges.iter().enumerate().map(|(i, (a, b))| if orient & (1 << i) != 0 { (*b, *a) } else { (*a, *b) }).collect();
                // forms 0..2 everywhere; the forms whose variable carries another quote's automatic name (3..6) in every
                // combination for <= 3 currencies (thorough: <= 4), and on one quote at a time beyond
                let all7 = m >= 2 && (n <= 3 || (n == 4 && tier == Tier::Thorough));
                let mut form_lists: Vec<Vec<u8>> = vec![];
                let nf = if all7 { 7usize } else { 3 };
                for fc in 0..nf.pow(m as u32) {
                    let mut c = fc;
                    form_lists.push((0..m).map(|_| { let f = (c % nf) as u8; c /= nf; f }).collect());
                }
                if !all7 && m >= 2 && n <= 4 {
                    for pos in 0..m {
                        for af in 3..=6u8 {
                            for fc in 0..3usize.pow(m as u32 - 1) {
                                let mut c = fc;
                                let mut fl: Vec<u8> = (0..m - 1).map(|_| { let f = (c % 3) as u8; c /= 3; f }).collect();
                                fl.insert(pos, af);
                                form_lists.push(fl);
                            }
                        }
                    }
                }
                for forms in form_lists {
                    for base in std::iter::once(None).chain((0..n).map(Some)) {
                        if n == 5 && base.is_some() && base != Some(3) {
                            continue;
                        }
                        for order in [1u8, 2u8] {
                            out.push(Case::Sens { n, quotes: q.clone(), forms: forms.clone(), base, order });
                            if m >= 2 {
                                let mut qr = q.clone();
                                qr.reverse();
                                let mut fr = forms.clone();
                                fr.reverse();
                                // reversed supply order: quote i keeps its own value table entry by position, so only markets
                                // whose reversed listing is a different market are added
                                if qr != q && n <= 4 {
                                    out.push(Case::Sens { n, quotes: qr, forms: fr, base, order });
                                }
                            }
                        }
                    }
                }
            }
        }
    }
    out
}

pub fn run(ctx: &Ctx, replay_file: Option<String>) -> ! {
    if let Some(f) = replay_file {
        replay::<Case, _>(ctx, &f, check);
    }
    let cs = cases(ctx.tier);
    let acc = explore(&cs, check);
    let nexp = cs.iter().filter(|c| matches!(c, Case::Explore { .. })).count() as u64;
    let fix = acc.breakdown.get("fixpoints reached").copied().unwrap_or(0);
    let mut meta = Meta::exploration(
        "E2 (histories): explicit-state breadth-first search (stateright) over the REAL FXRates object. State = the \
         object itself, keyed by its complete content (stored quotes, currencies, array kind, value/gradient/Hessian of \
         every entry by name) - no abstraction. Actions (all enabled in every state): update with every non-empty \
         subset of the quotes x every assignment from a 2-3 value table x {floats, Duals, and for up to 3 currencies Dual2s with a non-zero own Hessian}; five kinds of refused update \
         (reversed pair, unquoted pair, foreign currency, inconsistent settlement, one valid + one invalid quote); \
         set_ad_order(0|1|2). Markets: every tree on 2-3 currencies in every orientation, every labelled tree on 4 currencies (one \
         orientation each; all orientations in the thorough tier), with and without settlement, different bases. On every transition: a refused update returns Err and leaves the \
         content unchanged; set_ad_order sets the kind and changes no value by more than 4 ulp; the object a transition is applied to is a clone, and the object it was cloned from must not move; in every state the \
         stored quotes are the latest ones and all rates equal (1e-12; as dual numbers by name at order 1 and 2) those \
         of FXRates::try_new(latest quotes, same base). The search runs to the fixpoint (frontier empty), so histories \
         of every length over this action menu are covered. Large markets (chain, star, caterpillar on 10, 12, 13 currencies) are not searched to a fixpoint: \
         EVERY action sequence of length 2 (3) over a ten-action alphabet (single / all-quote updates in the three forms, two refused updates, three order switches) is run through the same transition function and oracles. E1 (sensitivities): every labelled tree on 2..4 (5) \
         currencies x orientation x quote form (float / Dual / Dual2 with own variable) x base x order 1/2: variable \
         names fx_<pair> or the quote's own; d r/d q = s r/q on the path and 0 off it; second derivatives \
         s(s-1) r/q^2 and s_e s_f r/(q_e q_f); read back by name. Larger markets on a menu: chain, star and caterpillar on 8, 10, 11, 12, 13 currencies with \
         quote-form patterns (all floats / Duals / Dual2s, one pre-tagged dual quote at the first, middle or last position).",
        json!({"markets_explored": nexp, "fixpoints_reached": fix, "large_market_histories": cs.iter().filter(|c| matches!(c, Case::History { .. })).count(), "sensitivity_cases": cs.iter().filter(|c| matches!(c, Case::Sens { .. })).count()}),
    );
    meta.level = "model_checking";
    meta = meta
        .with("fixpoint_reached", json!(fix == nexp))
        .assume("state key is the complete serialised content, so merged states have identical futures")
        .assume("values restricted to the 2-3 entry table per quote; closed-form sensitivities for E1");
    if fix != nexp && acc.violations.is_empty() {
        machinery_fail("a search did not reach its fixpoint");
    }
    finish(ctx, acc, meta)
}
