//! C09 An FX market built from n-1 quotes is complete and arbitrage-free.
use crate::calmodel::to_ndt;
use crate::common::*;
use chrono::NaiveDateTime;
use rateslib::dual::Number;
use rateslib::fx::rates::{Ccy, FXRate, FXRates};
use serde::{Deserialize, Serialize};
use serde_json::json;
use std::collections::BTreeSet;

pub const CCYS: [&str; 13] = ["usd", "eur", "gbp", "jpy", "cad", "aud", "nok", "sek", "chf", "nzd", "inr", "cny", "zar"];
pub const PRIMES: [i128; 12] = [2, 3, 5, 7, 11, 13, 17, 19, 23, 29, 31, 37];
pub const MAGS: [f64; 11] = [7.8e-4, 0.0083, 0.5, 1.0842, 110.25, 15234.5, 0.9131, 1.3e-2, 8.25, 1456.2, 0.6567];

#[derive(Clone, Debug, Serialize, Deserialize)]
pub enum Case {
    /// a labelled tree given by its edges (node indices), quote i = PRIMES[i] or MAGS[i] for edge i as listed;
    /// every orientation / every ordering (if `all_orders`) / every base are run inside the case
    Tree { n: usize, edges: Vec<(usize, usize)>, all_orders: bool, mags: bool },
    /// one explicit market (used for replay precision and for the shape-menu space)
    Market { n: usize, quotes: Vec<(usize, usize, f64)>, base: Option<usize> },
    /// arbitrary quote sequence with settlement pattern: must be accepted iff it is a tree with equal settlements
    Reject { nccy: usize, pairs: Vec<(usize, usize)>, base: Option<usize>, settle: Vec<u8> },
}

pub fn gcd(a: i128, b: i128) -> i128 {
    if b == 0 {
        a.abs()
    } else {
        gcd(b, a % b)
    }
}

/// exact path products over a tree: r[a][b] as (num, den)
pub fn tree_rates(n: usize, quotes: &[(usize, usize, i128)]) -> Vec<Vec<(i128, i128)>> {
    let mut adj: Vec<Vec<(usize, i128, i128)>> = vec![vec![]; n];
    for (a, b, q) in quotes {
        adj[*a].push((*b, *q, 1));
        adj[*b].push((*a, 1, *q));
    }
    let mut out = vec![vec![(0i128, 1i128); n]; n];
    for s in 0..n {
        let mut seen = vec![false; n];
        let mut stack = vec![(s, 1i128, 1i128)];
        seen[s] = true;
        while let Some((u, num, den)) = stack.pop() {
            out[s][u] = (num, den);
            for (v, qn, qd) in adj[u].iter() {
                if !seen[*v] {
                    seen[*v] = true;
                    let (mut a, mut b) = (num * qn, den * qd);
                    let g = gcd(a, b);
                    a /= g;
                    b /= g;
                    stack.push((*v, a, b));
                }
            }
        }
    }
    out
}

pub fn tree_rates_f64(n: usize, quotes: &[(usize, usize, f64)]) -> Vec<Vec<f64>> {
    let mut adj: Vec<Vec<(usize, f64, bool)>> = vec![vec![]; n];
    for (a, b, q) in quotes {
        adj[*a].push((*b, *q, true));
        adj[*b].push((*a, *q, false));
    }
    let mut out = vec![vec![0.0; n]; n];
    for s in 0..n {
        let mut seen = vec![false; n];
        // accumulate numerator and denominator separately to keep the reference well conditioned
        let mut stack = vec![(s, 1.0f64, 1.0f64)];
        seen[s] = true;
        while let Some((u, num, den)) = stack.pop() {
            out[s][u] = num / den;
            for (v, q, fwd) in adj[u].iter() {
                if !seen[*v] {
                    seen[*v] = true;
                    if *fwd {
                        stack.push((*v, num * q, den));
                    } else {
                        stack.push((*v, num, den * q));
                    }
                }
            }
        }
    }
    out
}

pub fn prufer_trees(n: usize) -> Vec<Vec<(usize, usize)>> {
    if n == 2 {
        return vec![vec![(0, 1)]];
    }
    let total = n.pow((n - 2) as u32);
    let mut out = Vec::with_capacity(total);
    for code in 0..total {
        let mut seq = Vec::with_capacity(n - 2);
        let mut c = code;
        for _ in 0..(n - 2) {
            seq.push(c % n);
            c /= n;
        }
        let mut deg = vec![1usize; n];
        for s in seq.iter() {
            deg[*s] += 1;
        }
        let mut edges = vec![];
        for s in seq.iter() {
            let leaf = (0..n).find(|i| deg[*i] == 1).unwrap();
            edges.push((leaf, *s));
            deg[leaf] -= 1;
            deg[*s] -= 1;
        }
        let rest: Vec<usize> = (0..n).filter(|i| deg[*i] == 1).collect();
        edges.push((rest[0], rest[1]));
        out.push(edges);
    }
    out
}

fn ccy(i: usize) -> Ccy {
    Ccy::try_new(CCYS[i]).unwrap()
}

/// run one market and compare all n^2 rates with the expected matrix
fn check_market(n: usize, quotes: &[(usize, usize, f64)], base: Option<usize>, want: &dyn Fn(usize, usize) -> f64, tol: f64, case: &Case, key: &str, idx: u64, acc: &mut Acc) {
    acc.eval();
    let rates: Vec<FXRate> = quotes.iter().map(|(a, b, q)| FXRate::try_new(CCYS[*a], CCYS[*b], Number::F64(*q), None).unwrap()).collect();
    let detail = || json!({"quotes": quotes.iter().map(|(a, b, q)| format!("{}{}={}", CCYS[*a], CCYS[*b], q)).collect::<Vec<_>>(), "base": base.map(|b| CCYS[b])});
    let fx = match FXRates::try_new(rates, base.map(ccy)) {
        Ok(f) => f,
        Err(_) => {
            acc.violate(&format!("{}/valid-tree-rejected", key), idx, serde_json::to_value(case).unwrap(), detail(), json!("Err"));
            return;
        }
    };
    let mut h: Vec<u64> = vec![];
    for a in 0..n {
        for b in 0..n {
            let got = match fx.rate(&ccy(a), &ccy(b)) {
                Some(x) => f64::from(x),
                None => {
                    acc.violate(&format!("{}/missing-cross", key), idx, serde_json::to_value(case).unwrap(), detail(), json!(format!("{}{} not available", CCYS[a], CCYS[b])));
                    continue;
                }
            };
            h.push(got.to_bits());
            let w = want(a, b);
            let quoted = quotes.iter().find(|(x, y, _)| *x == a && *y == b);
            if a == b {
                if got != 1.0 {
                    acc.violate(&format!("{}/diagonal", key), idx, serde_json::to_value(case).unwrap(), detail(), json!(format!("{}{} = {:e}", CCYS[a], CCYS[b], got)));
                }
            } else if let Some((_, _, q)) = quoted {
                if got.to_bits() != q.to_bits() {
                    acc.violate(&format!("{}/quoted-pair-not-exact", key), idx, serde_json::to_value(case).unwrap(), detail(), json!(format!("{}{} = {:e} (quoted {:e})", CCYS[a], CCYS[b], got, q)));
                }
            } else if !close_scaled(got, w, tol, w.abs()) {
                acc.violate(&format!("{}/cross-not-path-product", key), idx, serde_json::to_value(case).unwrap(), detail(), json!(format!("{}{} = {:e}, path product {:e}", CCYS[a], CCYS[b], got, w)));
            }
            if a < b {
                if let Some(inv) = fx.rate(&ccy(b), &ccy(a)) {
                    let p = got * f64::from(inv);
                    if (p - 1.0).abs() > 1e-12 {
                        acc.violate(&format!("{}/inverse", key), idx, serde_json::to_value(case).unwrap(), detail(), json!(format!("{}{} * {}{} = {:e}", CCYS[a], CCYS[b], CCYS[b], CCYS[a], p)));
                    }
                }
            }
        }
    }
    acc.outcome(&h);
}

fn degree_seq(n: usize, edges: &[(usize, usize)]) -> Vec<usize> {
    let mut d = vec![0; n];
    for (a, b) in edges {
        d[*a] += 1;
        d[*b] += 1;
    }
    d
}

pub fn check(case: &Case, idx: u64, acc: &mut Acc) {
    match case {
        Case::Tree { n, edges, all_orders, mags } => {
            let n = *n;
            let m = edges.len();
            let deg = degree_seq(n, edges);
            let is_chain = deg.iter().all(|d| *d <= 2);
            let is_star = deg.iter().any(|d| *d == n - 1);
            let orders: Vec<Vec<usize>> = if *all_orders { permutations(m) } else { vec![(0..m).collect(), (0..m).rev().collect()] };
            for orient in 0..(1usize << m) {
                // exact expectation for this orientation
                let oriented: Vec<(usize, usize)> = edges.iter().enumerate().map(|(i, (a, b))| if orient & (1 << i) != 0 { (*b, *a) } else { (*a, *b) }).collect();
                let exact = tree_rates(n, &oriented.iter().enumerate().map(|(i, (a, b))| (*a, *b, PRIMES[i])).collect::<Vec<_>>());
                let fq: Vec<(usize, usize, f64)> = oriented.iter().enumerate().map(|(i, (a, b))| (*a, *b, if *mags { MAGS[i] } else { PRIMES[i] as f64 })).collect();
                let fref = if *mags { Some(tree_rates_f64(n, &fq)) } else { None };
                for ord in orders.iter() {
                    let quotes: Vec<(usize, usize, f64)> = ord.iter().map(|i| fq[*i]).collect();
                    for base in std::iter::once(None).chain((0..n).map(Some)) {
                        // six currencies with every ordering: three of the seven base choices (None, first, last)
                        if n >= 6 && *all_orders && !(base.is_none() || base == Some(0) || base == Some(n - 1)) {
                            continue;
                        }
                        if !is_chain && !is_star {
                            acc.nontrivial();
                        }
                        let want = |a: usize, b: usize| -> f64 {
                            match &fref {
                                Some(f) => f[a][b],
                                None => exact[a][b].0 as f64 / exact[a][b].1 as f64,
                            }
                        };
                        check_market(n, &quotes, base, &want, 1e-12, case, if *mags { "magnitudes" } else { "primes" }, idx, acc);
                    }
                }
            }
            if idx % 29 == 0 {
                acc.sample(|| serde_json::to_value(case).unwrap());
            }
        }
        Case::Market { n, quotes, base } => {
            let deg = degree_seq(*n, &quotes.iter().map(|(a, b, _)| (*a, *b)).collect::<Vec<_>>());
            if !deg.iter().all(|d| *d <= 2) && !deg.iter().any(|d| *d == n - 1) {
                acc.nontrivial();
            }
            let integral = quotes.iter().all(|(_, _, q)| q.fract() == 0.0);
            if integral {
                let exact = tree_rates(*n, &quotes.iter().map(|(a, b, q)| (*a, *b, *q as i128)).collect::<Vec<_>>());
                let want = |a: usize, b: usize| exact[a][b].0 as f64 / exact[a][b].1 as f64;
                check_market(*n, quotes, *base, &want, 1e-12, case, "shapes", idx, acc);
            } else {
                let f = tree_rates_f64(*n, quotes);
                let want = |a: usize, b: usize| f[a][b];
                check_market(*n, quotes, *base, &want, 1e-12, case, "shapes", idx, acc);
            }
            // clones: `clone()` and `clone_from` (onto a market over the same currencies listed in another order) give
            // an object that answers exactly as its source
            if idx % 5 == 0 && *n >= 3 {
                let mk = |qs: &Vec<(usize, usize, f64)>, b: Option<usize>| -> Option<FXRates> {
                    FXRates::try_new(qs.iter().map(|(a, c, q)| FXRate::try_new(CCYS[*a], CCYS[*c], Number::F64(*q), None).unwrap()).collect(), b.map(ccy)).ok()
                };
                let rev: Vec<(usize, usize, f64)> = quotes.iter().rev().cloned().collect();
                let other_base = quotes[quotes.len() - 1].1;
                if let (Some(src), Some(mut dst)) = (mk(quotes, *base), mk(&rev, Some(other_base))) {
                    acc.eval();
                    dst.clone_from(&src);
                    let cl = src.clone();
                    let mut bad = None;
                    for a in 0..*n {
                        for b in 0..*n {
                            let w = src.rate(&ccy(a), &ccy(b)).map(|x| f64::from(&x).to_bits());
                            if dst.rate(&ccy(a), &ccy(b)).map(|x| f64::from(&x).to_bits()) != w || cl.rate(&ccy(a), &ccy(b)).map(|x| f64::from(&x).to_bits()) != w {
                                bad = Some((a, b));
                            }
                        }
                    }
                    if let Some((a, b)) = bad {
                        acc.violate("clone/answers-differ-from-source", idx, serde_json::to_value(case).unwrap(), json!({"pair": format!("{}{}", CCYS[a], CCYS[b]), "want": src.rate(&ccy(a), &ccy(b)).map(|x| f64::from(&x))}), json!(dst.rate(&ccy(a), &ccy(b)).map(|x| f64::from(&x))));
                    }
                }
            }
            if idx % 997 == 0 {
                acc.sample(|| serde_json::to_value(case).unwrap());
            }
        }
        Case::Reject { nccy: _, pairs, base, settle } => {
            acc.eval();
            let dates: [Option<NaiveDateTime>; 4] = [None, Some(to_ndt(19800)), Some(to_ndt(19801)), Some(to_ndt(19800) + chrono::Duration::milliseconds(500))];
            let rates: Vec<FXRate> = pairs
                .iter()
                .zip(settle.iter())
                .map(|((a, b), s)| FXRate::try_new(CCYS[*a], CCYS[*b], Number::F64(PRIMES[(*a * 3 + *b) % 12] as f64), dates[*s as usize]).unwrap())
                .collect();
            // reference: a tree over exactly the currencies mentioned (incl. base) and equal settlements
            let mut nodes: BTreeSet<usize> = BTreeSet::new();
            if let Some(b) = base {
                nodes.insert(*b);
            }
            for (a, b) in pairs {
                nodes.insert(*a);
                nodes.insert(*b);
            }
            let mut parent: Vec<usize> = (0..CCYS.len()).collect();
            fn find(p: &mut Vec<usize>, x: usize) -> usize {
                if p[x] != x {
                    let r = find(p, p[x]);
                    p[x] = r;
                }
                p[x]
            }
            let mut acyclic = true;
            for (a, b) in pairs {
                let (ra, rb) = (find(&mut parent, *a), find(&mut parent, *b));
                if ra == rb {
                    acyclic = false;
                } else {
                    parent[ra] = rb;
                }
            }
            let is_tree = !pairs.is_empty() && acyclic && nodes.len() == pairs.len() + 1;
            let settle_ok = settle.iter().all(|s| *s == settle[0]);
            let want_ok = is_tree && settle_ok;
            if !want_ok {
                acc.nontrivial();
            }
            let detail = || json!({"pairs": pairs.iter().map(|(a, b)| format!("{}{}", CCYS[*a], CCYS[*b])).collect::<Vec<_>>(), "base": base.map(|b| CCYS[b]), "settlement_pattern": settle, "is_tree": is_tree, "settlements_equal": settle_ok});
            let got = FXRates::try_new(rates, base.map(ccy));
            acc.outcome(&(got.is_ok(), is_tree, settle_ok));
            match (want_ok, got) {
                (true, Ok(_)) | (false, Err(_)) => {}
                (true, Err(_)) => acc.violate("reject/valid-market-rejected", idx, serde_json::to_value(case).unwrap(), detail(), json!("Err")),
                (false, Ok(_)) => acc.violate(
                    if !settle_ok { "reject/inconsistent-settlement-accepted" } else if !acyclic { "reject/cyclic-accepted" } else { "reject/wrong-count-accepted" },
                    idx,
                    serde_json::to_value(case).unwrap(),
                    detail(),
                    json!("Ok (rates were produced)"),
                ),
            }
            if idx % 100003 == 0 {
                acc.sample(|| serde_json::to_value(case).unwrap());
            }
        }
    }
}

// ---- free tree shapes for 7..12 currencies ----------------------------------------------------

fn canon(n: usize, edges: &[(usize, usize)]) -> String {
    let mut adj = vec![vec![]; n];
    for (a, b) in edges {
        adj[*a].push(*b);
        adj[*b].push(*a);
    }
    // centers by leaf stripping
    let mut deg: Vec<usize> = adj.iter().map(|v| v.len()).collect();
    let mut removed = vec![false; n];
    let mut leaves: Vec<usize> = (0..n).filter(|i| deg[*i] <= 1).collect();
    let mut remaining = n;
    while remaining > 2 {
        let mut next = vec![];
        for l in leaves.iter() {
            removed[*l] = true;
            remaining -= 1;
            for v in adj[*l].iter() {
                if !removed[*v] {
                    deg[*v] -= 1;
                    if deg[*v] == 1 {
                        next.push(*v);
                    }
                }
            }
        }
        leaves = next;
    }
    let centers: Vec<usize> = (0..n).filter(|i| !removed[*i]).collect();
    fn enc(u: usize, p: usize, adj: &Vec<Vec<usize>>) -> String {
        let mut ch: Vec<String> = adj[u].iter().filter(|v| **v != p).map(|v| enc(*v, u, adj)).collect();
        ch.sort();
        format!("({})", ch.concat())
    }
    centers.iter().map(|c| enc(*c, usize::MAX, &adj)).min().unwrap()
}

pub fn free_trees(n: usize) -> Vec<Vec<(usize, usize)>> {
    let mut cur: Vec<Vec<(usize, usize)>> = vec![vec![(0, 1)]];
    for size in 3..=n {
        let mut seen = BTreeSet::new();
        let mut next = vec![];
        for t in cur.iter() {
            for attach in 0..(size - 1) {
                let mut e = t.clone();
                e.push((attach, size - 1));
                let c = canon(size, &e);
                if seen.insert(c) {
                    next.push(e);
                }
            }
        }
        cur = next;
    }
    cur
}

fn shape_markets(n: usize, edges: &[(usize, usize)], out: &mut Vec<Case>) {
    let m = edges.len();
    // depth of nodes from node 0 for the parity orientation
    let mut adj = vec![vec![]; n];
    for (a, b) in edges {
        adj[*a].push(*b);
        adj[*b].push(*a);
    }
    let mut depth = vec![usize::MAX; n];
    depth[0] = 0;
    let mut q = std::collections::VecDeque::from([0usize]);
    let mut bfs_order = vec![];
    while let Some(u) = q.pop_front() {
        for v in adj[u].iter() {
            if depth[*v] == usize::MAX {
                depth[*v] = depth[u] + 1;
                bfs_order.push(edges.iter().position(|(a, b)| (*a == u && *b == *v) || (*a == *v && *b == u)).unwrap());
                q.push_back(*v);
            }
        }
    }
    let deg = degree_seq(n, edges);
    let mut leaves_first: Vec<usize> = (0..m).collect();
    leaves_first.sort_by_key(|i| deg[edges[*i].0].min(deg[edges[*i].1]));
    let mut interleaved: Vec<usize> = vec![];
    for k in 0..m {
        interleaved.push(if k % 2 == 0 { k / 2 } else { m - 1 - k / 2 });
    }
    let mut orders: Vec<Vec<usize>> = vec![(0..m).collect(), (0..m).rev().collect(), bfs_order.clone(), bfs_order.iter().rev().cloned().collect(), leaves_first.clone(), leaves_first.iter().rev().cloned().collect(), interleaved];
    for rot in 1..m {
        orders.push((0..m).map(|i| (i + rot) % m).collect());
    }
    orders.sort();
    orders.dedup();
    for ord in orders.iter() {
        for pat in 0..4 {
            let quotes: Vec<(usize, usize, f64)> = ord
                .iter()
                .map(|i| {
                    let (a, b) = edges[*i];
                    let flip = match pat {
                        0 => false,
                        1 => true,
                        2 => i % 2 == 1,
                        _ => depth[a].min(depth[b]) % 2 == 1,
                    };
                    let q = if pat == 3 { MAGS[*i % MAGS.len()] } else { PRIMES[*i] as f64 };
                    if flip {
                        (b, a, q)
                    } else {
                        (a, b, q)
                    }
                })
                .collect();
            for base in std::iter::once(None).chain((0..n).map(Some)) {
                out.push(Case::Market { n, quotes: quotes.clone(), base });
            }
        }
    }
}

pub fn cases(tier: Tier) -> Vec<Case> {
    let mut out = vec![];
    let nmax_all = tier.pick(5, 6);
    for n in 2..=nmax_all {
        for edges in prufer_trees(n) {
            out.push(Case::Tree { n, edges: edges.clone(), all_orders: true, mags: false });
            if n <= 5 {
                out.push(Case::Tree { n, edges, all_orders: n <= 4, mags: true });
            }
        }
    }
    if tier == Tier::Quick {
        // n = 6: every labelled tree and orientation, two orderings
        for edges in prufer_trees(6) {
            out.push(Case::Tree { n: 6, edges, all_orders: false, mags: false });
        }
    }
    // bushy and deep shapes on 10..13 currencies in both tiers: star, double star, chain, caterpillar, binary tree
    for n in 10..=13usize {
        let m = n - 1;
        let h = n / 2;
        let shapes: Vec<Vec<(usize, usize)>> = vec![
            (1..n).map(|i| (0, i)).collect(),
            (1..n).map(|i| if i < h { (0, i) } else if i == h { (0, h) } else { (h, i) }).collect(),
            (0..m).map(|i| (i, i + 1)).collect(),
            (0..m).map(|i| if i < m / 2 { (i, i + 1) } else { (i - m / 2, i + 1) }).collect(),
            (1..n).map(|i| ((i - 1) / 2, i)).collect(),
        ];
        for edges in shapes {
            shape_markets(n, &edges, &mut out);
        }
    }
    let nshape = tier.pick(9, 12);
    for n in 7..=nshape {
        for edges in free_trees(n) {
            shape_markets(n, &edges, &mut out);
        }
    }
    // rejection on large markets: each 10..13-currency shape, valid and broken in one place
    for n in 10..=13usize {
        let m = n - 1;
        let h = n / 2;
        let shapes: Vec<Vec<(usize, usize)>> = vec![
            (1..n).map(|i| (0, i)).collect(),
            (1..n).map(|i| if i < h { (0, i) } else if i == h { (0, h) } else { (h, i) }).collect(),
            (0..m).map(|i| (i, i + 1)).collect(),
            (0..m).map(|i| if i < m / 2 { (i, i + 1) } else { (i - m / 2, i + 1) }).collect(),
            (1..n).map(|i| ((i - 1) / 2, i)).collect(),
        ];
        for edges in shapes {
            let ok = vec![1u8; m];
            let mut variants: Vec<(Vec<(usize, usize)>, Vec<u8>)> = vec![(edges.clone(), ok.clone()), (edges.iter().rev().map(|(a, b)| (*b, *a)).collect(), vec![0u8; m])];
            // a cycle: one extra quote between two currencies already connected (at the end, at the front, in the middle)
            for (a, b) in [(edges[0].1, edges[m - 1].1), (edges[m - 1].1, edges[0].0), (edges[m / 2].1, edges[1].1)] {
                if a == b {
                    continue;
                }
                for pos in [0usize, m / 2, m] {
                    let mut e = edges.clone();
                    e.insert(pos, (a, b));
                    variants.push((e, vec![1u8; m + 1]));
                }
            }
            // a repeated quote, same and opposite orientation, in place of another quote (count stays n-1) and in addition
            for k in [0usize, m / 2, m - 1] {
                let mut e = edges.clone();
                e.push(edges[k]);
                variants.push((e, vec![1u8; m + 1]));
                let mut e = edges.clone();
                e[(k + 1) % m] = (edges[k].1, edges[k].0);
                variants.push((e, ok.clone()));
            }
            // one quote with another settlement date / with none
            for k in [0usize, m / 2, m - 1] {
                for dev in [0u8, 2] {
                    let mut p = ok.clone();
                    p[k] = dev;
                    variants.push((edges.clone(), p));
                }
            }
            // one quote missing (two components)
            for k in [0usize, m / 2, m - 1] {
                let mut e = edges.clone();
                e.remove(k);
                variants.push((e, vec![1u8; m - 1]));
            }
            for (pairs, settle) in variants {
                let mut bases = vec![None, Some(0), Some(n - 1)];
                if n < CCYS.len() {
                    bases.push(Some(n)); // a currency not quoted at all
                }
                for base in bases {
                    out.push(Case::Reject { nccy: n, pairs: pairs.clone(), base, settle: settle.clone() });
                }
            }
        }
    }
    // rejection space
    // quick: 4 currencies, length <= 4; thorough: additionally 5 currencies with length <= 3 (all patterns)
    for (nccy, maxlen) in tier.pick(vec![(4usize, 4usize)], vec![(4, 4), (5, 3)]) {
    let pairs_all: Vec<(usize, usize)> = (0..nccy).flat_map(|a| (0..nccy).filter(move |b| *b != a).map(move |b| (a, b))).collect();
    let mut seqs: Vec<Vec<(usize, usize)>> = vec![];
    let mut frontier: Vec<Vec<(usize, usize)>> = vec![vec![]];
    for _ in 0..maxlen {
        let mut next = vec![];
        for s in frontier.iter() {
            for p in pairs_all.iter() {
                let mut t = s.clone();
                t.push(*p);
                next.push(t);
            }
        }
        seqs.extend(next.iter().cloned());
        frontier = next;
    }
    for s in seqs {
        let l = s.len();
        let mut patterns: Vec<Vec<u8>> = vec![vec![0; l], vec![1; l]];
        if tier == Tier::Thorough && l <= 3 {
            patterns.clear();
            for code in 0..3usize.pow(l as u32) {
                let mut c = code;
                patterns.push((0..l).map(|_| { let d = (c % 3) as u8; c /= 3; d }).collect());
            }
        } else {
            for i in 0..l {
                for dev in [0u8, 2u8, 3u8] {
                    let mut p = vec![1u8; l];
                    p[i] = dev;
                    patterns.push(p);
                }
                let mut p = vec![0u8; l];
                p[i] = 1;
                patterns.push(p);
            }
            patterns.sort();
            patterns.dedup();
        }
        let only_trees_get_all_patterns = l > 1;
        for base in std::iter::once(None).chain((0..=nccy).map(Some)) {
            for (k, pat) in patterns.iter().enumerate() {
                // quick tier: the full pattern menu on every sequence for base None / first; others get the two uniform ones
                if tier == Tier::Quick && only_trees_get_all_patterns && k >= 2 && !(base.is_none() || base == Some(0)) {
                    continue;
                }
                out.push(Case::Reject { nccy, pairs: s.clone(), base, settle: pat.clone() });
            }
        }
    }
    }
    out
}

pub fn run(ctx: &Ctx, replay_file: Option<String>) -> ! {
    if let Some(f) = replay_file {
        replay::<Case, _>(ctx, &f, check);
    }
    let cs = cases(ctx.tier);
    let acc = explore(&cs, check);
    let meta = Meta::exploration(
        "(1) ALL labelled trees (Pruefer sequences) on n = 2..5 (thorough ..6) currencies x every orientation of every \
         quoted pair x every ordering of the quote list x every base (None and each currency), quotes = distinct small \
         primes so that every path product is a distinct exact rational; again with a magnitude table (7.8e-4 .. \
         15234.5); n = 6 (quick): all labelled trees and orientations with two orderings. (2) n = 7..9 (12): every \
         free-tree SHAPE (and, in both tiers, star / double star / chain / caterpillar / binary tree on 10..13 currencies) x a menu of orderings (as listed, reversed, BFS, reversed BFS, leaves first/last, interleaved, \
         all rotations) x 4 orientation patterns x every base. Oracle: all n^2 rates present, quoted pairs bit-exact, \
         diagonal exactly 1, r(a,b)*r(b,a)=1 and r(a,b) = exact path product to 1e-12 - which also makes the result \
         independent of ordering and base; a clone, and a market over the same currencies in another order overwritten with clone_from, answer exactly as their source. (3) rejection: every quote sequence of length <= 4 over all ordered pairs of \
         4 (5) currencies x base in {None, each, one foreign} x settlement patterns over {None, d1, d2, d1 + half a second}: accepted iff \
         the quotes form a tree over exactly the mentioned currencies and all settlements are equal; never a panic; the same verdict \
         is demanded on the 10..13-currency shapes, valid and broken in one place (an extra quote closing a cycle, a repeated quote in either orientation, \
         a missing quote, one deviating settlement, a base that is not quoted). \
         Non-trivial: trees that are neither a chain nor a star; rejected sequences.",
        json!({"cases": cs.len(), "all_labelled_trees_up_to": ctx.tier.pick(5, 6), "shapes_up_to": ctx.tier.pick(9, 12)}),
    )
    .assume("for 7+ currencies the space is complete in tree shape but menu-bounded in ordering/orientation")
    .assume("exact rational path products (i128) are the reference for prime quotes; f64 numerator/denominator products for the magnitude table");
    finish(ctx, acc, meta)
}
