//! C06 Combined and named calendars mean the union of their parts.
use crate::calmodel::*;
use crate::common::*;
use rateslib::calendars::{get_calendar_by_name, Cal, CalType, DateRoll, NamedCal, UnionCal};
use serde::{Deserialize, Serialize};
use serde_json::json;
use std::sync::OnceLock;

#[derive(Clone, Debug, Serialize, Deserialize)]
pub enum Case {
    /// members / settlement members given as (holiday subset bits of a 4-day window, mask menu index)
    Union { members: Vec<(u8, u8)>, settle: Option<Vec<(u8, u8)>> },
    /// name string vs AND of the single built-in calendars, every date 1970-2200
    Name { s: String },
    /// token string: Ok iff list('|' list)? over known names
    Parse { s: String },
    /// equality scenario id
    Equality { id: u32 },
    /// one-bit differences at the year boundaries and leap days of `year` (and, thorough tier, at every day of it):
    /// two seven-day-week calendars that differ in one business day (or one settlement day) must compare unequal
    EqualitySweep { year: i64, every_day: bool },
}

const MASKS: [&[u8]; 4] = [&[5, 6], &[], &[4, 5], &[6]];

fn z0() -> i64 {
    days_from_civil(2024, 2, 29) // Thursday
}

fn mk_cal(spec: &(u8, u8)) -> Cal {
    let hols = (0..4).filter(|i| spec.0 & (1 << i) != 0).map(|i| to_ndt(z0() + i)).collect();
    Cal::new(hols, MASKS[spec.1 as usize].to_vec())
}

fn model_bus(spec: &(u8, u8), z: i64) -> bool {
    let wd = weekday(z) as u8;
    let off = z - z0();
    let hol = (0..4).contains(&off) && spec.0 & (1 << off) != 0;
    !MASKS[spec.1 as usize].contains(&wd) && !hol
}

struct Builtins {
    bus: Vec<Vec<bool>>, // per builtin, per day 1970..2200
}
static BI: OnceLock<Builtins> = OnceLock::new();
fn builtins() -> &'static Builtins {
    BI.get_or_init(|| {
        let bus = BUILTIN
            .iter()
            .map(|n| {
                let c = get_calendar_by_name(n).unwrap();
                (DAY_MIN..=day_max()).map(|z| c.is_bus_day(&to_ndt(z))).collect()
            })
            .collect();
        Builtins { bus }
    })
}

fn mixed_case(s: &str, mode: u8) -> String {
    match mode {
        0 => s.to_string(),
        1 => s.to_uppercase(),
        _ => s.chars().enumerate().map(|(i, c)| if i % 2 == 0 { c.to_ascii_uppercase() } else { c }).collect(),
    }
}

/// reference grammar: Ok(Some((members, settlement))) / Err
fn parse_ref(s: &str) -> Option<(Vec<usize>, Option<Vec<usize>>)> {
    let low = s.to_lowercase();
    let parts: Vec<&str> = low.split('|').collect();
    if parts.len() > 2 {
        return None;
    }
    let list = |p: &str| -> Option<Vec<usize>> { p.split(',').map(|n| BUILTIN.iter().position(|b| *b == n)).collect() };
    let m = list(parts[0])?;
    let st = if parts.len() == 2 { Some(list(parts[1])?) } else { None };
    Some((m, st))
}

// ---- equality scenarios ------------------------------------------------------------------------

fn base_hols() -> (Vec<i64>, Vec<i64>, Vec<i64>) {
    (
        vec![days_from_civil(1999, 5, 3), days_from_civil(2015, 9, 9), days_from_civil(2100, 7, 1)],
        vec![days_from_civil(2015, 9, 10), days_from_civil(2150, 3, 2)],
        vec![days_from_civil(2015, 9, 11), days_from_civil(2030, 1, 2)],
    )
}
fn cal_of(h: &[i64]) -> Cal {
    Cal::new(h.iter().map(|z| to_ndt(*z)).collect(), vec![5, 6])
}

/// all comparisons available between two calendars given in the three kinds; returns the list of
/// (form, result)
fn eq_forms(a_u: &UnionCal, b_u: &UnionCal, a_c: Option<&Cal>, b_c: Option<&Cal>, a_n: Option<&NamedCal>, b_n: Option<&NamedCal>) -> Vec<(String, bool)> {
    let mut v = vec![("UnionCal==UnionCal".to_string(), a_u == b_u), ("UnionCal==UnionCal (swapped)".to_string(), b_u == a_u)];
    if let Some(bc) = b_c {
        v.push(("UnionCal==Cal".into(), a_u == bc));
        v.push(("Cal==UnionCal".into(), bc == a_u));
    }
    if let Some(ac) = a_c {
        v.push(("Cal==UnionCal".into(), ac == b_u));
        v.push(("UnionCal==Cal".into(), b_u == ac));
    }
    if let Some(an) = a_n {
        v.push(("NamedCal==UnionCal".into(), an == b_u));
        v.push(("UnionCal==NamedCal".into(), b_u == an));
        if let Some(bc) = b_c {
            v.push(("NamedCal==Cal".into(), an == bc));
            v.push(("Cal==NamedCal".into(), bc == an));
        }
        if let Some(bn) = b_n {
            v.push(("NamedCal==NamedCal".into(), an == bn));
            v.push(("NamedCal==NamedCal (swapped)".into(), bn == an));
        }
    }
    if let Some(bn) = b_n {
        v.push(("NamedCal==UnionCal".into(), bn == a_u));
        v.push(("UnionCal==NamedCal".into(), a_u == bn));
        if let Some(ac) = a_c {
            v.push(("NamedCal==Cal".into(), bn == ac));
            v.push(("Cal==NamedCal".into(), ac == bn));
        }
    }
    v
}

const N_EQ: u32 = 58;

/// returns (description, expected equal?, comparisons)
fn equality_scenario(id: u32) -> Option<(String, bool, Vec<(String, bool)>)> {
    let (h1, h2, h3) = base_hols();
    let inside = [days_from_civil(1970, 1, 1), days_from_civil(2200, 12, 31), days_from_civil(2015, 9, 8), days_from_civil(1970, 1, 2), days_from_civil(2200, 12, 30)];
    let outside = [days_from_civil(1969, 12, 31), days_from_civil(2201, 1, 1)];
    let base_u = UnionCal::new(vec![cal_of(&h1), cal_of(&h2)], Some(vec![cal_of(&h3)]));
    let merged: Vec<i64> = h1.iter().chain(h2.iter()).cloned().collect();
    let base_nosettle = UnionCal::new(vec![cal_of(&h1), cal_of(&h2)], None);
    let base_c = cal_of(&merged);
    match id {
        // -- same behaviour built differently => equal
        0 => {
            let b = UnionCal::new(vec![cal_of(&h2), cal_of(&h1)], Some(vec![cal_of(&h3)]));
            Some(("member order permuted".into(), true, eq_forms(&base_u, &b, None, None, None, None)))
        }
        1 => {
            let mut a1 = h1.clone();
            let moved = a1.pop().unwrap();
            let mut a2 = h2.clone();
            a2.push(moved);
            let b = UnionCal::new(vec![cal_of(&a1), cal_of(&a2)], Some(vec![cal_of(&h3)]));
            Some(("a holiday moved from one member to the other".into(), true, eq_forms(&base_u, &b, None, None, None, None)))
        }
        2 => Some(("two members vs one Cal holding all holidays".into(), true, eq_forms(&base_nosettle, &UnionCal::new(vec![base_c.clone()], None), None, Some(&base_c), None, None))),
        3 => {
            let b = UnionCal::new(vec![cal_of(&merged)], Some(vec![]));
            Some(("settlement None vs Some([])".into(), true, eq_forms(&base_nosettle, &b, Some(&base_c), None, None, None)))
        }
        4 => {
            let n = NamedCal::try_new("tgt,ldn|fed").unwrap();
            let n2 = NamedCal::try_new("LDN,tgt|FED").unwrap();
            let u = UnionCal::new(vec![get_calendar_by_name("tgt").unwrap(), get_calendar_by_name("ldn").unwrap()], Some(vec![get_calendar_by_name("fed").unwrap()]));
            let u2 = UnionCal::new(vec![get_calendar_by_name("ldn").unwrap(), get_calendar_by_name("tgt").unwrap()], Some(vec![get_calendar_by_name("fed").unwrap()]));
            Some(("named vs explicit, order and case changed".into(), true, eq_forms(&u, &u2, None, None, Some(&n), Some(&n2))))
        }
        5 => {
            let n = NamedCal::try_new("tgt").unwrap();
            let c = get_calendar_by_name("tgt").unwrap();
            let u = UnionCal::new(vec![c.clone()], None);
            Some(("Cal vs one-member UnionCal vs NamedCal".into(), true, eq_forms(&u, &u, Some(&c), Some(&c), Some(&n), Some(&n))))
        }
        // -- one bit of difference inside the range => unequal; outside => equal
        6..=35 => {
            let k = (id - 6) as usize;
            let which = k % 7; // date
            let kind = k / 7; // 0: extra member holiday (with settlement cal), 1: extra settlement holiday, 2: extra member holiday (no settlement; Cal forms), 3: removed weekday from ... (unused)
            if kind > 2 {
                return None;
            }
            let (x, in_range) = if which < 5 { (inside[which], true) } else { (outside[which - 5], false) };
            match kind {
                0 => {
                    let mut a1 = h1.clone();
                    a1.push(x);
                    let b = UnionCal::new(vec![cal_of(&a1), cal_of(&h2)], Some(vec![cal_of(&h3)]));
                    Some((format!("business-day bit differs at {}", fmt_day(x)), !in_range, eq_forms(&base_u, &b, None, None, None, None)))
                }
                1 => {
                    let mut a3 = h3.clone();
                    a3.push(x);
                    let b = UnionCal::new(vec![cal_of(&h1), cal_of(&h2)], Some(vec![cal_of(&a3)]));
                    Some((format!("settlement bit differs at {}", fmt_day(x)), !in_range, eq_forms(&base_u, &b, None, None, None, None)))
                }
                _ => {
                    let mut m2 = merged.clone();
                    m2.push(x);
                    let bc = cal_of(&m2);
                    let b = UnionCal::new(vec![bc.clone()], None);
                    Some((format!("business-day bit differs at {} (Cal forms)", fmt_day(x)), !in_range, eq_forms(&base_nosettle, &b, Some(&base_c), Some(&bc), None, None)))
                }
            }
        }
        36 => {
            // named calendar vs the same with one extra settlement holiday on the last day
            let n = NamedCal::try_new("tgt|fed").unwrap();
            let fedc = get_calendar_by_name("fed").unwrap();
            let mut fedh: Vec<i64> = (DAY_MIN..=day_max()).filter(|z| fedc.is_holiday(&to_ndt(*z))).collect();
            fedh.push(days_from_civil(2200, 12, 31));
            let u = UnionCal::new(vec![get_calendar_by_name("tgt").unwrap()], Some(vec![cal_of(&fedh)]));
            Some(("NamedCal vs explicit union differing in settlement on 2200-12-31".into(), false, eq_forms(&u, &u, None, None, Some(&n), None).into_iter().filter(|(f, _)| f.contains("Named")).collect()))
        }
        37 => {
            let n = NamedCal::try_new("ldn").unwrap();
            let c = get_calendar_by_name("ldn").unwrap();
            let mut hs: Vec<i64> = (DAY_MIN..=day_max()).filter(|z| c.is_holiday(&to_ndt(*z))).collect();
            hs.push(days_from_civil(1970, 1, 2));
            let c2 = cal_of(&hs);
            let u2 = UnionCal::new(vec![c2.clone()], None);
            Some(("NamedCal vs Cal differing on 1970-01-02".into(), false, eq_forms(&u2, &u2, None, Some(&c2), Some(&n), None).into_iter().filter(|(f, _)| f.contains("Named")).collect()))
        }
        38 => {
            // settlement differs ONLY on days that are non-business in both (shared weekends): "tgt" can always
            // settle, "tgt|bus" never on Saturday / Sunday - they disagree on settlement days, hence unequal
            let a = NamedCal::try_new("tgt|bus").unwrap();
            let b = NamedCal::try_new("tgt").unwrap();
            let au = UnionCal::new(vec![get_calendar_by_name("tgt").unwrap()], Some(vec![get_calendar_by_name("bus").unwrap()]));
            let bu = UnionCal::new(vec![get_calendar_by_name("tgt").unwrap()], None);
            let bc = get_calendar_by_name("tgt").unwrap();
            Some(("settlement differs only on shared weekend days (tgt|bus vs tgt)".into(), false, eq_forms(&au, &bu, None, Some(&bc), Some(&a), Some(&b))))
        }
        39 => {
            let sat = days_from_civil(2015, 9, 12);
            let mut a3 = h3.clone();
            a3.push(sat);
            let b = UnionCal::new(vec![cal_of(&h1), cal_of(&h2)], Some(vec![cal_of(&a3)]));
            // a settlement-calendar holiday on a Saturday changes nothing: Saturday is already closed there
            Some(("settlement-calendar holiday added on a day its week mask already closes".into(), true, eq_forms(&base_u, &b, None, None, None, None)))
        }
        40 => {
            // settlement calendar open on Saturdays in one, closed in the other; business calendars closed on Saturday in both
            let open_sat = Cal::new(h3.iter().map(|z| to_ndt(*z)).collect(), vec![6]);
            let a = UnionCal::new(vec![cal_of(&h1), cal_of(&h2)], Some(vec![open_sat]));
            Some(("settlement week masks differ on a day that is non-business in both".into(), false, eq_forms(&base_u, &a, None, None, None, None)))
        }
        41 => {
            let sat = days_from_civil(2015, 9, 12);
            let mut a1 = h1.clone();
            a1.push(sat);
            let b = UnionCal::new(vec![cal_of(&a1), cal_of(&h2)], Some(vec![cal_of(&h3)]));
            Some(("member holiday added on a day the week mask already closes".into(), true, eq_forms(&base_u, &b, None, None, None, None)))
        }
        42..=53 => {
            // a built-in calendar against the same calendar DESCRIBED differently (a plain Cal on either side):
            // weekend-dated holidays dropped / a holiday outside 1970-2200 added / holidays listed twice in reverse
            let k = (id - 42) as usize;
            let name = ["tgt", "ldn", "nyc", "bus"][k / 3];
            let n = NamedCal::try_new(name).unwrap();
            let c = get_calendar_by_name(name).unwrap();
            let mut hs: Vec<i64> = (days_from_civil(1969, 1, 1)..=days_from_civil(2201, 12, 31)).filter(|z| c.is_holiday(&to_ndt(*z))).collect();
            let what = match k % 3 {
                0 => {
                    hs.retain(|z| weekday(*z) < 5);
                    hs.push(days_from_civil(2024, 6, 1)); // a Saturday: already closed by the week mask
                    "weekend-dated holidays dropped, one Saturday holiday added"
                }
                1 => {
                    hs.push(days_from_civil(2201, 1, 5));
                    hs.push(days_from_civil(1969, 12, 30));
                    "holidays outside 1970-2200 added"
                }
                _ => {
                    let rev: Vec<i64> = hs.iter().rev().cloned().collect();
                    hs.extend(rev);
                    "every holiday listed twice, the second time in reverse"
                }
            };
            let c2 = cal_of(&hs);
            let u2 = UnionCal::new(vec![c2.clone()], None);
            let un = UnionCal::new(vec![c.clone()], None);
            Some((format!("{} vs a plain Cal of the same days ({})", name, what), true, eq_forms(&un, &u2, Some(&c), Some(&c2), Some(&n), Some(&n))))
        }
        57 => {
            // a settlement calendar that is not empty in structure yet never blocks a date of the range (holidays
            // outside 1970-2200, and one at noon, which no date of the range equals)
            let far = Cal::new(vec![to_ndt(days_from_civil(2201, 3, 3)), to_ndt(days_from_civil(1969, 6, 6)), to_ndt(days_from_civil(2024, 5, 6)) + chrono::Duration::hours(12)], vec![]);
            let b = UnionCal::new(vec![cal_of(&merged)], Some(vec![far]));
            Some(("settlement calendar whose holidays never fall on a date of the range".into(), true, eq_forms(&base_nosettle, &b, Some(&base_c), Some(&base_c), None, None)))
        }
        54..=56 => {
            // the same closed days written as a week mask in one calendar and as a (long) holiday list in the other
            let k = id - 54;
            let (mask_a, listed): (Vec<u8>, Vec<u8>) = match k {
                0 => (vec![], vec![5, 6]),  // nothing masked, every Saturday and Sunday listed
                1 => (vec![6], vec![5]),    // Sunday masked, every Saturday listed
                _ => (vec![5], vec![6]),
            };
            let hs: Vec<i64> = (days_from_civil(1969, 12, 1)..=days_from_civil(2201, 1, 31)).filter(|z| listed.contains(&(weekday(*z) as u8))).collect();
            let c_listed = Cal::new(hs.iter().map(|z| to_ndt(*z)).collect(), mask_a);
            let c_masked = Cal::new(vec![], vec![5, 6]);
            let n = NamedCal::try_new("bus").unwrap();
            let (ul, um) = (UnionCal::new(vec![c_listed.clone()], None), UnionCal::new(vec![c_masked.clone()], None));
            Some((format!("weekend written as {} listed holidays vs as a week mask", hs.len()), true, eq_forms(&um, &ul, Some(&c_masked), Some(&c_listed), Some(&n), Some(&n))))
        }
        _ => None,
    }
}

pub fn check(case: &Case, idx: u64, acc: &mut Acc) {
    let cj = || serde_json::to_value(case).unwrap();
    match case {
        Case::Union { members, settle } => {
            let u = UnionCal::new(members.iter().map(mk_cal).collect(), settle.as_ref().map(|v| v.iter().map(mk_cal).collect()));
            let ct = CalType::UnionCal(u.clone());
            let mut disagree = false;
            for z in (z0() - 2)..=(z0() + 5) {
                let d = to_ndt(z);
                let each: Vec<bool> = members.iter().map(|m| model_bus(m, z)).collect();
                let want_bus = each.iter().all(|b| *b);
                if each.iter().any(|b| *b) && !want_bus {
                    disagree = true;
                }
                let want_set = settle.as_ref().map_or(true, |v| v.iter().all(|m| model_bus(m, z)));
                acc.evals_add(2);
                let (gb, gs) = (u.is_bus_day(&d), u.is_settlement(&d));
                acc.outcome(&(z - z0(), gb, gs, want_bus));
                if gb != want_bus || ct.is_bus_day(&d) != want_bus || u.is_non_bus_day(&d) == want_bus {
                    acc.violate("union/is_bus_day", idx, cj(), json!({"date": fmt_day(z), "want": want_bus}), json!(gb));
                }
                if gs != want_set || ct.is_settlement(&d) != want_set {
                    acc.violate(
                        if settle.as_ref().map_or(true, |v| v.is_empty()) { "union/is_settlement/no-settlement-calendars" } else { "union/is_settlement" },
                        idx,
                        cj(),
                        json!({"date": fmt_day(z), "want": want_set}),
                        json!(gs),
                    );
                }
            }
            // single Cal against the model too
            if members.len() == 1 && settle.is_none() {
                let c = mk_cal(&members[0]);
                for z in (z0() - 2)..=(z0() + 5) {
                    if c.is_bus_day(&to_ndt(z)) != model_bus(&members[0], z) || !c.is_settlement(&to_ndt(z)) {
                        acc.violate("cal/is_bus_day", idx, cj(), json!({"date": fmt_day(z)}), json!(c.is_bus_day(&to_ndt(z))));
                    }
                }
            }
            if disagree {
                acc.nontrivial();
            }
            if idx % 100003 == 0 {
                acc.sample(cj);
            }
        }
        Case::Name { s } => {
            let (m, st) = match parse_ref(s) {
                Some(x) => x,
                None => {
                    acc.violate("name/oracle", idx, cj(), json!("parsable"), json!("reference grammar rejects"));
                    return;
                }
            };
            let bi = builtins();
            let cal = match NamedCal::try_new(s) {
                Ok(c) => c,
                Err(_) => {
                    acc.violate("name/rejected", idx, cj(), json!("Ok"), json!("Err"));
                    return;
                }
            };
            if m.len() > 1 || st.is_some() {
                acc.nontrivial();
            }
            let mut bad: Option<(i64, &str, bool)> = None;
            for z in DAY_MIN..=day_max() {
                let i = (z - DAY_MIN) as usize;
                let d = to_ndt(z);
                let wb = m.iter().all(|k| bi.bus[*k][i]);
                let ws = st.as_ref().map_or(true, |v| v.iter().all(|k| bi.bus[*k][i]));
                if cal.is_bus_day(&d) != wb && bad.is_none() {
                    bad = Some((z, "is_bus_day", wb));
                }
                if cal.is_settlement(&d) != ws && bad.is_none() {
                    bad = Some((z, "is_settlement", ws));
                }
            }
            acc.evals_add(2 * (day_max() - DAY_MIN + 1) as u64);
            acc.outcome(&s.to_lowercase());
            if let Some((z, what, want)) = bad {
                acc.violate(&format!("name/{}", what), idx, cj(), json!({"date": fmt_day(z), "want": want}), json!(!want));
            }
            if idx % 301 == 0 {
                acc.sample(cj);
            }
        }
        Case::Parse { s } => {
            acc.eval();
            let want = parse_ref(s).is_some();
            let got = NamedCal::try_new(s).is_ok();
            if !want {
                acc.nontrivial();
            }
            acc.outcome(&(s.len(), got));
            if got != want {
                acc.violate(if want { "parse/rejected-valid" } else { "parse/accepted-invalid" }, idx, cj(), json!(want), json!(got));
            }
            if idx % 1777 == 0 {
                acc.sample(cj);
            }
        }
        Case::EqualitySweep { year, every_day } => {
            let base_h = vec![days_from_civil(2000, 3, 3)];
            let mk = |h: &Vec<i64>| Cal::new(h.iter().map(|z| to_ndt(*z)).collect(), vec![]);
            let a_u = UnionCal::new(vec![mk(&base_h)], Some(vec![mk(&vec![])]));
            let a_c = mk(&base_h);
            let days: Vec<i64> = if *every_day {
                (days_from_civil(*year, 1, 1)..=days_from_civil(*year, 12, 31)).collect()
            } else {
                let mut v = vec![days_from_civil(*year, 1, 1), days_from_civil(*year, 12, 31), days_from_civil(*year, 2, 28), days_from_civil(*year, 3, 1), days_from_civil(*year, 12, 30)];
                if is_leap(*year) {
                    v.push(days_from_civil(*year, 2, 29));
                }
                v
            };
            for z in days {
                if base_h.contains(&z) {
                    continue; // adding the date both calendars already close changes nothing
                }
                acc.evals_add(3);
                acc.nontrivial();
                let mut h = base_h.clone();
                h.push(z);
                let b_bus = UnionCal::new(vec![mk(&h)], Some(vec![mk(&vec![])]));
                let b_set = UnionCal::new(vec![mk(&base_h)], Some(vec![mk(&vec![z])]));
                let b_c = mk(&h);
                let results = [("business-day bit, UnionCal==UnionCal", a_u == b_bus), ("settlement bit, UnionCal==UnionCal", b_set == a_u), ("business-day bit, Cal==UnionCal", a_c == b_bus), ("business-day bit, UnionCal==Cal", a_u == b_c)];
                for (what, eq) in results {
                    if eq {
                        acc.violate("equality/should-differ/single-day-sweep", idx, cj(), json!({"date": fmt_day(z), "comparison": what, "want": false}), json!(true));
                    }
                }
            }
            acc.outcome(year);
            if year % 40 == 0 {
                acc.sample(cj);
            }
        }
        Case::Equality { id } => {
            if let Some((desc, want, comps)) = equality_scenario(*id) {
                acc.nontrivial();
                for (form, got) in comps {
                    acc.eval();
                    acc.outcome(&(id, form.clone(), got));
                    if got != want {
                        acc.violate(
                            &format!("equality/{}/{}", if want { "should-be-equal" } else { "should-differ" }, form),
                            idx,
                            cj(),
                            json!({"scenario": desc, "want": want}),
                            json!(got),
                        );
                    }
                }
                acc.sample(|| json!({"Equality": {"id": id, "scenario": desc}}));
            }
        }
    }
}

pub fn cases(tier: Tier) -> Vec<Case> {
    let mut out = vec![];
    // (a) unions
    let all_specs: Vec<(u8, u8)> = (0..16u8).flat_map(|h| (0..4u8).map(move |m| (h, m))).collect();
    let few_specs: Vec<(u8, u8)> = [0u8, 0b0001, 0b0110, 0b1011].iter().flat_map(|h| (0..4u8).map(move |m| (*h, m))).collect();
    for a in all_specs.iter() {
        out.push(Case::Union { members: vec![*a], settle: None });
        for b in all_specs.iter() {
            out.push(Case::Union { members: vec![*a, *b], settle: None });
            out.push(Case::Union { members: vec![*a, *b], settle: Some(vec![]) });
            for s in few_specs.iter() {
                out.push(Case::Union { members: vec![*a, *b], settle: Some(vec![*s]) });
            }
        }
    }
    for a in few_specs.iter() {
        for b in few_specs.iter() {
            for s1 in all_specs.iter() {
                for s2 in few_specs.iter() {
                    out.push(Case::Union { members: vec![*a, *b], settle: Some(vec![*s1, *s2]) });
                }
            }
            let third: &Vec<(u8, u8)> = if tier == Tier::Thorough { &all_specs } else { &few_specs };
            for c in third.iter() {
                for s in few_specs.iter() {
                    out.push(Case::Union { members: vec![*a, *b, *c], settle: Some(vec![*s]) });
                }
                out.push(Case::Union { members: vec![*a, *b, *c], settle: None });
            }
        }
    }
    // (b) names
    let small = ["all", "bus", "tgt", "ldn", "fed", "tyo"];
    let lists = |alpha: &[&str]| -> Vec<String> {
        let mut v: Vec<String> = alpha.iter().map(|s| s.to_string()).collect();
        for a in alpha {
            for b in alpha {
                v.push(format!("{},{}", a, b));
            }
        }
        v
    };
    let alpha: Vec<&str> = small.to_vec();
    let ls = lists(&alpha);
    for mode in 0..3u8 {
        for (i, a) in ls.iter().enumerate() {
            out.push(Case::Name { s: mixed_case(a, mode) });
            for (j, b) in ls.iter().enumerate() {
                // quick tier: case variants on a diagonal slice only (lower case is complete)
                if tier == Tier::Quick && mode > 0 && (i + 2 * j) % 3 != 0 {
                    continue;
                }
                out.push(Case::Name { s: mixed_case(&format!("{}|{}", a, b), mode) });
            }
        }
    }
    // U+212A KELVIN SIGN is an upper-case letter whose lower-case form is the ASCII k: these are case variants of stk
    for n in ["ST\u{212A}", "st\u{212A}", "tgt,St\u{212A}|fed", "ldn|ST\u{212A}", "st\u{212A},ldn"] {
        out.push(Case::Name { s: n.to_string() });
    }
    if tier == Tier::Thorough {
        let lb = lists(&BUILTIN);
        for a in lb.iter() {
            out.push(Case::Name { s: a.clone() });
            for b in lb.iter() {
                out.push(Case::Name { s: format!("{}|{}", a, b) });
            }
        }
    } else {
        // every built-in at least alone, as a pair with tgt, and as settlement
        for a in BUILTIN.iter() {
            out.push(Case::Name { s: a.to_string() });
            out.push(Case::Name { s: format!("{},nyc", a) });
            out.push(Case::Name { s: format!("ldn|{}", a) });
            out.push(Case::Name { s: format!("ldn|{},stk", a) });
        }
    }
    // (c) token strings
    let toks = ["tgt", "ldn", "zzz", "", ",", "|"];
    let maxlen = tier.pick(5, 6);
    let mut frontier: Vec<String> = vec![String::new()];
    out.push(Case::Parse { s: String::new() });
    for _ in 0..maxlen {
        let mut next = vec![];
        for f in frontier.iter() {
            for t in toks.iter() {
                if t.is_empty() {
                    continue;
                }
                next.push(format!("{}{}", f, t));
            }
        }
        for s in next.iter() {
            out.push(Case::Parse { s: s.clone() });
        }
        frontier = next;
    }
    for s in ["TGT", "Tgt,LDN", "tgt ", " tgt", "tgt, ldn", "tgt||ldn", "|", ",", "tgt|", "|tgt", "tgt,", ",tgt", "tgt|ldn|fed", "ＴＧＴ", "tgt\u{0130}"] {
        out.push(Case::Parse { s: s.to_string() });
    }
    // (d) equality
    for year in 1970..=2200 {
        out.push(Case::EqualitySweep { year, every_day: tier == Tier::Thorough && year % 4 == 0 });
    }
    for id in 0..N_EQ {
        out.push(Case::Equality { id });
    }
    out
}

pub fn run(ctx: &Ctx, replay_file: Option<String>) -> ! {
    if let Err(e) = crosscheck_chrono() {
        machinery_fail(&format!("chrono vs civil-date model: {}", e));
    }
    if let Some(f) = replay_file {
        replay::<Case, _>(ctx, &f, check);
    }
    let cs = cases(ctx.tier);
    let acc = explore(&cs, check);
    let meta = Meta::exploration(
        "(a) unions of 1-3 member calendars and None / [] / 1-2 settlement calendars, each calendar = (holiday subset \
         of a 4-day window, week mask from a 4-element menu incl. different masks per member): is_bus_day = AND of \
         members, is_settlement = AND of settlement members (true when there are none), against a model of each Cal, \
         on every date of the window +-2, for UnionCal and CalType. (b) every name string list or list|list with \
         lists of length 1-2 over a name alphabet, in lower / UPPER / MiXeD case: NamedCal agrees with the AND of the \
         single built-in calendars on is_bus_day and is_settlement for EVERY date 1970-2200. (c) every token string of \
         length <= 5 (6) over {tgt, ldn, zzz, ',', '|'}: accepted iff list('|' list)? with known non-empty names; \
         never a panic. (d) equality scenarios across Cal / UnionCal / NamedCal in both argument orders: same \
         behaviour built differently is equal (incl. tgt, ldn, nyc, bus against a plain Cal of the same days with weekend-dated holidays dropped, out-of-range holidays added, or every holiday listed twice; a weekend written as 12 000 / 24 000 listed holidays against the same weekend as a week mask); one business-day or settlement bit of difference at 1970-01-01, \
         1970-01-02, 2015-09-08, 2200-12-30, 2200-12-31 is unequal; a difference only at 1969-12-31 or 2201-01-01 is \
         equal; a one-day difference at Jan 1, Feb 28/29, Mar 1, Dec 30, Dec 31 of EVERY year 1970-2200 (thorough: at every \
         day of every fourth year) is unequal. Non-trivial: unions whose members disagree on some date, names with >= 2 parts, rejected strings.",
        json!({"cases": cs.len()}),
    )
    .assume("single built-in calendars are taken as given here (C07 checks them against their rules)");
    finish(ctx, acc, meta)
}
