//! C17 Gradients are read back by name, in the order asked for.
use crate::common::*;
use crate::spec::*;
use rateslib::dual::{Dual2, Gradient1, Gradient2, Vars};
use serde::{Deserialize, Serialize};
use serde_json::json;

#[derive(Clone, Debug, Serialize, Deserialize)]
pub enum Case {
    /// read x back through every requested list over universe + one absent name
    ReadBack { nuni: usize, x: NumSpec },
    /// manifold(f*g)[i] = manifold(f)[i]*g + f*manifold(g)[i] for every requested list
    Product { nuni: usize, f: NumSpec, g: NumSpec },
    /// history independence: for every requested list, ask it of every layout in turn, each number built
    /// fresh and dropped before the next one (so that remembered look-ups meet re-used storage)
    SameListSequence { nuni: usize },
    /// a menu of large numbers (size names) read back through a menu of requested lists
    Large { size: usize },
    /// names that differ only by letter case, or by one character, are different variables
    CaseNames,
    /// a first-order number with 70 000 names (stored positions beyond 65 535) read back through short requests
    Huge,
    /// numbers with an infinite or overflowing second derivative (as x^1.5 has at 0) or gradient entry: every other
    /// entry must still be read back exactly, through every requested list
    NonFinite { which: u8 },
}

fn gval(name: usize, side: usize) -> f64 {
    gen_val(name + side * 5)
}
fn hval(i: usize, j: usize, side: usize) -> f64 {
    let (lo, hi) = if i <= j { (i, j) } else { (j, i) };
    gen_val(3 + lo * 4 + hi + side * 7) * 0.5
}

fn operands(nuni: usize, v: f64, side: usize, hess_only: bool) -> Vec<NumSpec> {
    let mut out = vec![];
    for list in ordered_sublists(nuni) {
        let n = list.len();
        for pat in 0..(1u32 << n) {
            let g: Vec<f64> = (0..n).map(|k| if pat & (1 << k) != 0 { gval(list[k], side) } else { 0.0 }).collect();
            for hv in 0..2 {
                if hv == 1 && n == 0 {
                    continue;
                }
                if hess_only && hv == 0 && n > 0 {
                    continue;
                }
                let h: Vec<f64> = if hv == 0 {
                    vec![]
                } else {
                    let mut h = vec![0.0; n * n];
                    for i in 0..n {
                        for j in 0..n {
                            // leave the Hessian entry at zero for names whose pattern bit is clear on
                            // BOTH sides only half the time: keeps zero and non-zero rows in play
                            h[i * n + j] = hval(list[i], list[j], side);
                        }
                    }
                    h
                };
                out.push(NumSpec { v, names: list.clone(), g: g.clone(), h });
            }
        }
    }
    out
}

fn cases(tier: Tier) -> Vec<Case> {
    let nuni = 4;
    let _ = tier;
    let mut out = vec![];
    for x in operands(nuni, 1.5, 0, false) {
        out.push(Case::ReadBack { nuni, x });
    }
    // the same requested list put to many freshly built numbers in a row (one thread, numbers dropped in between)
    out.push(Case::SameListSequence { nuni: 3 });
    for size in [3usize, 4, 5, 7, 8, 9, 15, 16, 17, 20, 24, 33] {
        out.push(Case::Large { size });
    }
    for which in 0..4u8 {
        out.push(Case::NonFinite { which });
    }
    out.push(Case::Huge);
    out.push(Case::CaseNames);
    // a variable whose first derivative AND own second derivative are zero while a cross derivative is not
    out.push(Case::ReadBack { nuni, x: NumSpec { v: 1.5, names: vec![0, 1], g: vec![0.0, 1.25], h: vec![0.0, 1.5, 1.5, 0.75] } });
    out.push(Case::ReadBack { nuni, x: NumSpec { v: 1.5, names: vec![2, 0, 1], g: vec![0.0, 0.0, 2.0], h: vec![0.0, 0.5, -0.75, 0.5, 0.0, 0.0, -0.75, 0.0, 0.0] } });
    let pn = 3;
    let fs = operands(pn, 1.5, 0, true);
    let gs = operands(pn, -2.5, 1, true);
    for f in fs.iter() {
        for g in gs.iter() {
            out.push(Case::Product { nuni: pn, f: f.clone(), g: g.clone() });
        }
    }
    out
}

/// names universe + the absent name "q" at index nuni
fn sym(nuni: usize, i: usize, u: &[String]) -> String {
    if i == nuni {
        "q".to_string()
    } else {
        u[i].clone()
    }
}

fn deriv1(x: &NumSpec, name: usize) -> f64 {
    x.names.iter().position(|n| *n == name).map(|k| x.g[k]).unwrap_or(0.0)
}
fn deriv2(x: &NumSpec, a: usize, b: usize) -> f64 {
    match (x.names.iter().position(|n| *n == a), x.names.iter().position(|n| *n == b)) {
        (Some(i), Some(j)) => x.hess(i, j),
        _ => 0.0,
    }
}

pub fn check(case: &Case, idx: u64, acc: &mut Acc) {
    let cj = || serde_json::to_value(case).unwrap();
    match case {
        Case::ReadBack { nuni, x } => {
            let u = universe(*nuni);
            let d1 = x.dual(&u);
            let d2 = x.dual2(&u);
            // a number created on ANOTHER thread answers the same (nothing about a number may live in the creating thread)
            if idx % 8 == 0 {
                let (xs, us) = (x.clone(), u.clone());
                let (t1, t2) = std::thread::spawn(move || (xs.dual(&us), xs.dual2(&us))).join().expect("builder thread");
                for list in ordered_sublists(nuni + 1) {
                    let req: Vec<String> = list.iter().map(|i| sym(*nuni, *i, &u)).collect();
                    acc.evals_add(2);
                    if t1.gradient1(req.clone()) != d1.gradient1(req.clone()) || t2.gradient2(req.clone()) != d2.gradient2(req.clone()) {
                        acc.violate("other-thread/read-back", idx, cj(), json!({"list": req}), json!("differs from the number built on this thread"));
                    }
                }
            }
            // the same numbers with non-standard memory layouts (reversed-memory gradient, column-major Hessian) must
            // answer every request exactly as the standard ones
            {
                let (n1, n2) = (x.dual_nonstd(&u), x.dual2_nonstd(&u));
                for list in ordered_sublists(nuni + 1) {
                    let req: Vec<String> = list.iter().map(|i| sym(*nuni, *i, &u)).collect();
                    acc.evals_add(3);
                    if n1.gradient1(req.clone()) != d1.gradient1(req.clone()) || n2.gradient1(req.clone()) != d2.gradient1(req.clone()) {
                        acc.violate("layout/gradient1", idx, cj(), json!({"list": req, "want": d1.gradient1(req.clone()).to_vec()}), json!(n1.gradient1(req.clone()).to_vec()));
                    }
                    if n2.gradient2(req.clone()) != d2.gradient2(req.clone()) {
                        acc.violate("layout/gradient2", idx, cj(), json!({"list": req}), json!(format!("{:?}", n2.gradient2(req.clone()))));
                    }
                    let (ma, mb) = (n2.gradient1_manifold(req.clone()), d2.gradient1_manifold(req.clone()));
                    if ma.len() != mb.len() || ma.iter().zip(mb.iter()).any(|(p, q)| p.real() != q.real() || p.gradient1(req.clone()) != q.gradient1(req.clone())) {
                        acc.violate("layout/manifold", idx, cj(), json!({"list": req}), json!("differs from the standard-layout number"));
                    }
                }
            }
            let mut last_manifold: Option<ndarray::Array1<Dual2>> = None;
            for list in ordered_sublists(nuni + 1) {
                let req: Vec<String> = list.iter().map(|i| sym(*nuni, *i, &u)).collect();
                let m = list.len();
                let is_fast = list == x.names;
                let is_perm = !is_fast && m == x.names.len() && list.iter().all(|i| x.names.contains(i));
                if is_fast {
                    acc.bump("fast path (requested == stored list)");
                } else if is_perm {
                    acc.bump("permutation of the stored list");
                }
                if list.contains(nuni) {
                    acc.bump("contains an absent name");
                }
                if !is_fast && m > 0 {
                    acc.nontrivial();
                }
                acc.evals_add(4);
                // gradient1 on both types
                let g1 = d1.gradient1(req.clone());
                let g1b = d2.gradient1(req.clone());
                let want1: Vec<f64> = list.iter().map(|i| deriv1(x, *i)).collect();
                if g1.to_vec() != want1 {
                    acc.violate("gradient1/Dual", idx, cj(), json!({"list": req, "want": want1}), json!(g1.to_vec()));
                }
                if g1b.to_vec() != want1 {
                    acc.violate("gradient1/Dual2", idx, cj(), json!({"list": req, "want": want1}), json!(g1b.to_vec()));
                }
                acc.outcome(&(hash_f64s(&want1), m));
                // gradient2
                let g2 = d2.gradient2(req.clone());
                let mut bad = g2.shape() != [m, m];
                if !bad {
                    for (i, a) in list.iter().enumerate() {
                        for (j, b) in list.iter().enumerate() {
                            if g2[[i, j]] != deriv2(x, *a, *b) {
                                bad = true;
                            }
                        }
                    }
                }
                if bad {
                    acc.violate(
                        if is_fast { "gradient2/fast-path" } else { "gradient2/reindexed" },
                        idx,
                        cj(),
                        json!({"list": req, "want": "Hessian entries by name, zero for absent"}),
                        json!(format!("{:?}", g2)),
                    );
                }
                // manifold
                let man = d2.gradient1_manifold(req.clone());
                if man.len() != m {
                    acc.violate("manifold/len", idx, cj(), json!(m), json!(man.len()));
                    continue;
                }
                for (i, a) in list.iter().enumerate() {
                    let e: &Dual2 = &man[i];
                    let absent = !x.names.contains(a);
                    let key = if absent { "manifold/absent-name" } else { "manifold/present-name" };
                    let names_ok = e.vars().iter().cloned().collect::<Vec<String>>() == req;
                    let mut ok = names_ok && e.real() == deriv1(x, *a) && e.dual().len() == m && e.dual2().shape() == [m, m];
                    if ok {
                        for (j, b) in list.iter().enumerate() {
                            if e.dual()[j] != deriv2(x, *a, *b) {
                                ok = false;
                            }
                        }
                        if e.dual2().iter().any(|z| *z != 0.0) {
                            ok = false;
                        }
                    }
                    if !ok {
                        acc.violate(
                            key,
                            idx,
                            cj(),
                            json!({"list": req, "entry": i, "want_value": deriv1(x, *a),
                                   "want_gradient": list.iter().map(|b| deriv2(x, *a, *b)).collect::<Vec<f64>>()}),
                            json!(format!("{:?}", e)),
                        );
                    }
                }
                // the result stays alive while the next list is asked for (every ordered sub-list follows, so every
                // permutation of these names is requested with an earlier result still held)
                last_manifold = Some(man);
            }
            drop(last_manifold);
            if idx % 37 == 0 {
                acc.sample(cj);
            }
        }
        Case::Large { size } => {
            let size = *size;
            let stored: Vec<usize> = (0..size).map(|i| (i * 3 + 1) % size).collect::<Vec<_>>();
            let mut chk = stored.clone();
            chk.sort();
            let stored: Vec<usize> = if chk == (0..size).collect::<Vec<_>>() { stored } else { (0..size).rev().collect() };
            let name = |i: usize| format!("v{}", i);
            let gv = |n: usize| gen_val(n * 2 + 1) + 0.015625 * n as f64;
            let hv = |a: usize, b: usize| if a == b || a + 1 == b || b + 1 == a || (a + b) % 7 == 0 { 0.5 * gen_val(a + b) } else { 0.0 };
            let d1 = rateslib::dual::Dual::try_new(0.75, stored.iter().map(|i| name(*i)).collect(), stored.iter().map(|i| gv(*i)).collect()).unwrap();
            let mut hflat = vec![];
            for a in stored.iter() {
                for b in stored.iter() {
                    hflat.push(0.5 * hv(*a, *b));
                }
            }
            let d2 = Dual2::try_new(0.75, stored.iter().map(|i| name(*i)).collect(), stored.iter().map(|i| gv(*i)).collect(), hflat).unwrap();
            // requested lists; index >= size means an absent name. The menu is the product of
            //   selection (which stored names) x order (how they are arranged) x padding (absent names added)
            let mut selections: Vec<Vec<usize>> = vec![stored.clone()];
            for omit in [0usize, 1, size / 2, size - 1] {
                selections.push(stored.iter().enumerate().filter(|(p, _)| *p != omit).map(|(_, v)| *v).collect());
            }
            selections.push(stored.iter().enumerate().filter(|(p, _)| p % 2 == 0).map(|(_, v)| *v).collect());
            for (lo, hi) in [(1usize, size - 1), (0, size - 1), (1, size), (size / 4, size / 4 + size / 2 + 1), (2.min(size - 3), size - 1)] {
                if lo + 3 <= hi && hi <= size {
                    selections.push(stored[lo..hi].to_vec());
                    // a block with one interior name replaced by a name stored elsewhere
                    if lo > 0 {
                        let mut v = stored[lo..hi].to_vec();
                        let mid = v.len() / 2;
                        v[mid] = stored[0];
                        selections.push(v);
                    }
                }
            }
            selections.push(vec![stored[0], stored[size - 1], stored[size / 2]]);
            selections.push(vec![stored[size - 1], stored[0]]);
            let mut reqs: Vec<Vec<usize>> = vec![(0..size).collect(), (0..size + 3).rev().collect()];
            for sel in selections.iter() {
                let n = sel.len();
                let mut orders: Vec<Vec<usize>> = vec![sel.clone(), sel.iter().rev().cloned().collect()];
                if n >= 4 {
                    let mut v = sel.clone();
                    v.swap(n / 3, 2 * n / 3); // two interior names swapped, ends in place
                    orders.push(v);
                    let mut v = sel.clone();
                    v[1..n - 1].reverse(); // interior reversed, ends in place
                    orders.push(v);
                    let mut v = sel.clone();
                    v.rotate_left(2);
                    orders.push(v);
                    let mut v = sel.clone();
                    v.swap(0, n - 1); // ends swapped
                    orders.push(v);
                }
                for ord in orders {
                    // padding with absent names
                    reqs.push(ord.clone());
                    let mut inter = vec![];
                    for (i, v) in ord.iter().enumerate() {
                        inter.push(*v);
                        if i % 3 == 1 {
                            inter.push(size + i);
                        }
                    }
                    reqs.push(inter);
                    let many = 4 * size + 2; // request far longer than the stored list
                    let mut front: Vec<usize> = (0..many).map(|i| size + 100 + i).collect();
                    front.extend(ord.iter().cloned());
                    reqs.push(front);
                    let mut back = ord.clone();
                    back.extend((0..many).map(|i| size + 100 + i));
                    reqs.push(back);
                    let mut spread = vec![];
                    let per = many / ord.len().max(1) + 1;
                    for (i, v) in ord.iter().enumerate() {
                        spread.push(*v);
                        spread.extend((0..per).map(|j| size + 100 + i * per + j));
                    }
                    reqs.push(spread);
                }
            }
            reqs.sort();
            reqs.dedup();
            for req in reqs.iter() {
                acc.evals_add(4);
                acc.nontrivial();
                let rn: Vec<String> = req.iter().map(|i| name(*i)).collect();
                let w1: Vec<f64> = req.iter().map(|i| if *i < size { gv(*i) } else { 0.0 }).collect();
                let want2 = |a: usize, b: usize| if a < size && b < size { hv(a, b) } else { 0.0 };
                if d1.gradient1(rn.clone()).to_vec() != w1 {
                    acc.violate("large/gradient1/Dual", idx, cj(), json!({"request": rn}), json!(d1.gradient1(rn.clone()).to_vec()));
                }
                if d2.gradient1(rn.clone()).to_vec() != w1 {
                    acc.violate("large/gradient1/Dual2", idx, cj(), json!({"request": rn}), json!(d2.gradient1(rn.clone()).to_vec()));
                }
                let h = d2.gradient2(rn.clone());
                let man = d2.gradient1_manifold(rn.clone());
                let mut bad2 = h.shape() != [req.len(), req.len()];
                let mut badm = man.len() != req.len();
                for (i, a) in req.iter().enumerate() {
                    for (j, b) in req.iter().enumerate() {
                        if !bad2 && h[[i, j]] != want2(*a, *b) {
                            bad2 = true;
                        }
                        if !badm && (man[i].dual().len() != req.len() || man[i].dual()[j] != want2(*a, *b)) {
                            badm = true;
                        }
                    }
                    if !badm && (man[i].real() != w1[i] || man[i].vars().iter().cloned().collect::<Vec<_>>() != rn) {
                        badm = true;
                    }
                }
                if bad2 {
                    acc.violate("large/gradient2", idx, cj(), json!({"request": rn}), json!("Hessian entries by name differ"));
                }
                if badm {
                    acc.violate("large/manifold", idx, cj(), json!({"request": rn}), json!("manifold entries by name differ"));
                }
            }
            acc.sample(cj);
        }
        Case::CaseNames => {
            acc.nontrivial();
            let sets: [(&[&str], &[&[&str]]); 6] = [
                // names that differ only by white space at their ends (blank, tab, no-break space, ideographic space)
                (&["a", "a ", "\ta"], &[&["a", "a ", "\ta"], &["\ta", "a"], &["a "], &[" a", "a"], &["a ", "a", "a\u{a0}"]]),
                (&[" x", "y\u{3000}"], &[&[" x", "y\u{3000}"], &["x", "y"], &["y\u{3000}", " x"], &[" x "]]),
                (&["r 0", "r0", ""], &[&["r 0", "r0", ""], &["", "r0"], &["r0", "r 0"], &[" "]]),
                (&["k", "K"], &[&["K", "k"], &["k", "K"], &["K"], &["k"], &["K", "K2", "k"]]),
                (&["fx_eurusd", "r0"], &[&["fx_EURUSD", "r0"], &["FX_EURUSD", "R0"], &["r0", "fx_eurusd"], &["fx_eurusd", "R0"]]),
                (&["Ab", "aB", "ab"], &[&["ab", "Ab", "aB"], &["AB", "ab"], &["aB", "Ab", "ab"], &["ab", "aB", "Ab"]]),
            ];
            for (stored, reqs) in sets.iter() {
                let n = stored.len();
                let names: Vec<String> = stored.iter().map(|s| s.to_string()).collect();
                let g: Vec<f64> = (0..n).map(|i| 1.5 + i as f64).collect();
                let mut h = vec![0.0; n * n];
                for i in 0..n {
                    for j in 0..n {
                        h[i * n + j] = 0.25 * (1 + i + j) as f64 + if i == j { 1.0 } else { 0.0 };
                    }
                }
                let d1 = rateslib::dual::Dual::try_new(0.5, names.clone(), g.clone()).unwrap();
                let d2 = Dual2::try_new(0.5, names.clone(), g.clone(), h.iter().map(|x| 0.5 * x).collect()).unwrap();
                for req in reqs.iter() {
                    acc.evals_add(3);
                    let rn: Vec<String> = req.iter().map(|s| s.to_string()).collect();
                    let pos: Vec<Option<usize>> = req.iter().map(|r| stored.iter().position(|s| s == r)).collect();
                    let w1: Vec<f64> = pos.iter().map(|p| p.map(|k| g[k]).unwrap_or(0.0)).collect();
                    if d1.gradient1(rn.clone()).to_vec() != w1 || d2.gradient1(rn.clone()).to_vec() != w1 {
                        acc.violate("case-names/gradient1", idx, cj(), json!({"stored": stored, "request": req, "want": w1}), json!(d1.gradient1(rn.clone()).to_vec()));
                    }
                    let hh = d2.gradient2(rn.clone());
                    let mut bad = hh.shape() != [req.len(), req.len()];
                    if !bad {
                        for (i, a) in pos.iter().enumerate() {
                            for (j, b) in pos.iter().enumerate() {
                                let w = match (a, b) {
                                    (Some(p), Some(q)) => h[p * n + q],
                                    _ => 0.0,
                                };
                                if hh[[i, j]] != w {
                                    bad = true;
                                }
                            }
                        }
                    }
                    if bad {
                        acc.violate("case-names/gradient2", idx, cj(), json!({"stored": stored, "request": req}), json!(format!("{:?}", hh)));
                    }
                }
                // arithmetic keeps them apart as well
                let other = rateslib::dual::Dual::try_new(2.0, stored.iter().map(|s| s.to_uppercase()).collect::<std::collections::BTreeSet<_>>().into_iter().collect(), vec![1.0; stored.iter().map(|s| s.to_uppercase()).collect::<std::collections::BTreeSet<_>>().len()]).unwrap();
                let sum = &d1 + &other;
                let all: std::collections::BTreeSet<String> = stored.iter().map(|s| s.to_string()).chain(other.vars().iter().cloned()).collect();
                if sum.vars().len() != all.len() {
                    acc.violate("case-names/arithmetic-merges-names", idx, cj(), json!(all), json!(sum.vars().iter().cloned().collect::<Vec<_>>()));
                }
            }
            acc.sample(cj);
        }
        Case::Huge => {
            let size = 70_000usize;
            let name = |i: usize| format!("v{}", i);
            let gv = |n: usize| 0.5 + (n % 1013) as f64 * 0.0009765625 + (n / 1013) as f64;
            let d = rateslib::dual::Dual::try_new(0.75, (0..size).map(name).collect(), (0..size).map(gv).collect()).unwrap();
            acc.nontrivial();
            let reqs: Vec<Vec<usize>> = vec![
                vec![size - 1],
                vec![65_535],
                vec![65_536, 3],
                vec![65_537, 65_536, 65_535, 65_534],
                vec![0, size + 5, size - 1],
                (0..size).rev().step_by(4_999).collect(),
                (60_000..size).collect(),
            ];
            for req in reqs {
                acc.eval();
                let rn: Vec<String> = req.iter().map(|i| name(*i)).collect();
                let want: Vec<f64> = req.iter().map(|i| if *i < size { gv(*i) } else { 0.0 }).collect();
                let got = d.gradient1(rn.clone()).to_vec();
                if got != want {
                    let k = (0..want.len()).find(|k| got.get(*k) != Some(&want[*k])).unwrap_or(0);
                    acc.violate("huge/gradient1", idx, cj(), json!({"names": size, "requested": rn.len(), "first_wrong_name": rn.get(k), "want": want.get(k)}), json!(got.get(k)));
                }
            }
            acc.sample(cj);
        }
        Case::NonFinite { which } => {
            let nuni = 3usize;
            let u = universe(nuni);
            // stored order c, a, b ; special entry at (a, a) [which 0: +inf, 1: 1.2e308 (doubles to +inf), 2: -inf at (a, c)], 3: gradient of b is +inf
            let stored = [2usize, 0, 1];
            let names: Vec<String> = stored.iter().map(|i| u[*i].clone()).collect();
            let mut g = vec![0.5, -1.25, 2.0];
            let mut d2 = vec![0.0; 9];
            for i in 0..3 {
                for j in 0..3 {
                    d2[i * 3 + j] = 0.125 * ((stored[i] + 1) * (stored[j] + 1)) as f64;
                }
            }
            match which {
                0 => d2[1 * 3 + 1] = f64::INFINITY,
                1 => d2[1 * 3 + 1] = 1.2e308,
                2 => {
                    d2[1 * 3 + 0] = f64::NEG_INFINITY;
                    d2[0 * 3 + 1] = f64::NEG_INFINITY;
                }
                _ => g[2] = f64::INFINITY,
            }
            let x = match Dual2::try_new(1.5, names.clone(), g.clone(), d2.clone()) {
                Ok(x) => x,
                Err(_) => {
                    acc.skip();
                    return;
                }
            };
            let same = |p: f64, q: f64| p.to_bits() == q.to_bits() || p == q || (p.is_nan() && q.is_nan());
            for list in ordered_sublists(nuni + 1) {
                acc.evals_add(3);
                acc.nontrivial();
                let req: Vec<String> = list.iter().map(|i| sym(nuni, *i, &u)).collect();
                let pos = |name: usize| stored.iter().position(|s| *s == name);
                let g1 = x.gradient1(req.clone());
                let w1: Vec<f64> = list.iter().map(|i| pos(*i).map(|p| g[p]).unwrap_or(0.0)).collect();
                if g1.len() != w1.len() || g1.iter().zip(w1.iter()).any(|(p, q)| !same(*p, *q)) {
                    acc.violate("non-finite/gradient1", idx, cj(), json!({"list": req, "want": format!("{:?}", w1)}), json!(format!("{:?}", g1)));
                }
                let h = x.gradient2(req.clone());
                let mut bad = h.shape() != [list.len(), list.len()];
                if !bad {
                    for (i, a) in list.iter().enumerate() {
                        for (j, b) in list.iter().enumerate() {
                            let w = match (pos(*a), pos(*b)) {
                                (Some(p), Some(q)) => 2.0 * d2[p * 3 + q],
                                _ => 0.0,
                            };
                            if !same(h[[i, j]], w) {
                                bad = true;
                            }
                        }
                    }
                }
                if bad {
                    acc.violate("non-finite/gradient2", idx, cj(), json!({"list": req, "want": "twice the stored half-Hessian entry by name, 0 for absent names; finite entries unaffected by the infinite one"}), json!(format!("{:?}", h)));
                }
                let man = x.gradient1_manifold(req.clone());
                let mut badm = man.len() != list.len();
                if !badm {
                    for (i, a) in list.iter().enumerate() {
                        let wv = pos(*a).map(|p| g[p]).unwrap_or(0.0);
                        if !same(man[i].real(), wv) {
                            badm = true;
                        }
                        let mg = man[i].gradient1(req.clone());
                        for (j, b) in list.iter().enumerate() {
                            let w = match (pos(*a), pos(*b)) {
                                (Some(p), Some(q)) => 2.0 * d2[p * 3 + q],
                                _ => 0.0,
                            };
                            if !same(mg[j], w) {
                                badm = true;
                            }
                        }
                    }
                }
                if badm {
                    acc.violate("non-finite/manifold", idx, cj(), json!({"list": req}), json!("manifold entries by name differ"));
                }
            }
            acc.sample(cj);
        }
        Case::SameListSequence { nuni } => {
            let u = universe(*nuni);
            let ops = operands(*nuni, 1.5, 0, true);
            for list in ordered_sublists(nuni + 1) {
                if list.is_empty() {
                    continue;
                }
                let req: Vec<String> = list.iter().map(|i| sym(*nuni, *i, &u)).collect();
                for x in ops.iter() {
                    acc.evals_add(3);
                    acc.nontrivial();
                    let want1: Vec<f64> = list.iter().map(|i| deriv1(x, *i)).collect();
                    {
                        let d1 = x.dual(&u);
                        let g = d1.gradient1(req.clone()).to_vec();
                        if g != want1 {
                            acc.violate("after-other-requests/gradient1/Dual", idx, cj(), json!({"number": x, "list": req, "want": want1}), json!(g));
                        }
                    }
                    {
                        let d2 = x.dual2(&u);
                        let g = d2.gradient1(req.clone()).to_vec();
                        if g != want1 {
                            acc.violate("after-other-requests/gradient1/Dual2", idx, cj(), json!({"number": x, "list": req, "want": want1}), json!(g));
                        }
                    }
                    {
                        let d2 = x.dual2(&u);
                        let h = d2.gradient2(req.clone());
                        let mut bad = h.shape() != [list.len(), list.len()];
                        if !bad {
                            for (i, a) in list.iter().enumerate() {
                                for (j, b) in list.iter().enumerate() {
                                    if h[[i, j]] != deriv2(x, *a, *b) {
                                        bad = true;
                                    }
                                }
                            }
                        }
                        if bad {
                            acc.violate("after-other-requests/gradient2", idx, cj(), json!({"number": x, "list": req}), json!(format!("{:?}", h)));
                        }
                    }
                }
            }
            acc.sample(cj);
        }
        Case::Product { nuni, f, g } => {
            let u = universe(*nuni);
            let (df, dg) = (f.dual2(&u), g.dual2(&u));
            let fg = &df * &dg;
            for list in ordered_sublists(nuni + 1) {
                if list.is_empty() {
                    continue;
                }
                let req: Vec<String> = list.iter().map(|i| sym(*nuni, *i, &u)).collect();
                acc.eval();
                acc.nontrivial();
                let lhs = fg.gradient1_manifold(req.clone());
                let mf = df.gradient1_manifold(req.clone());
                let mg = dg.gradient1_manifold(req.clone());
                for i in 0..list.len() {
                    let rhs: Dual2 = &(&mf[i] * &dg) + &(&df * &mg[i]);
                    let l = &lhs[i];
                    let scale = 1.0 + l.real().abs() + rhs.real().abs();
                    let mut ok = close_scaled(l.real(), rhs.real(), 1e-12, scale);
                    let gl = l.gradient1(req.clone());
                    let gr = rhs.gradient1(req.clone());
                    let gs: f64 = 1.0 + gl.iter().chain(gr.iter()).fold(0.0_f64, |m, z| m.max(z.abs()));
                    for j in 0..list.len() {
                        if !close_scaled(gl[j], gr[j], 1e-12, gs * 64.0) {
                            ok = false;
                        }
                    }
                    if !ok {
                        let absent = list[i] == *nuni || (!f.names.contains(&list[i]) && !g.names.contains(&list[i]));
                        acc.violate(
                            if absent { "manifold-product/absent-name" } else { "manifold-product/present-name" },
                            idx,
                            cj(),
                            json!({"list": req, "entry": i, "rhs": format!("{:?}", rhs)}),
                            json!(format!("{:?}", l)),
                        );
                    }
                }
            }
            if idx % 4001 == 0 {
                acc.sample(cj);
            }
        }
    }
}

pub fn run(ctx: &Ctx, replay_file: Option<String>) -> ! {
    if let Some(f) = replay_file {
        replay::<Case, _>(ctx, &f, check);
    }
    let cs = cases(ctx.tier);
    let acc = explore(&cs, check);
    for k in ["fast path (requested == stored list)", "permutation of the stored list", "contains an absent name"] {
        if acc.breakdown.get(k).copied().unwrap_or(0) == 0 {
            machinery_fail(&format!("vacuous: class '{}' never occurred", k));
        }
    }
    let meta = Meta::exploration(
        "number = every ordered list of distinct names over the universe x every zero/non-zero derivative pattern x \
         Hessian absent/full; requested list = EVERY ordered list of distinct names over universe + one absent name \
         (incl. exactly-the-stored-list, its permutations, sub/supersets). gradient1 (Dual, Dual2), gradient2 and \
         gradient1_manifold are compared entry by entry, exactly, with the by-name derivative (0 for absent). Product \
         identity manifold(f*g)[i] = manifold(f)[i]*g + f*manifold(g)[i] for every pair of a 3-name pool with full \
         Hessians and every requested list. Larger numbers on a menu (3..33 names) through a request menu that is the product of selection (all stored names, one omitted at the \
         front / second / middle / end, every other, contiguous blocks, a block with one name replaced by a name stored elsewhere, scattered names) x order \
         (stored, reversed, two interior names swapped, interior reversed, rotated, ends swapped) x padding with absent names (none, interleaved, \
         4*size+2 absent names in front / behind / spread through). Every number is also built through clone_from with a reversed-memory gradient and a column-major Hessian and must answer every request as its standard form does. Names that differ only by letter case are different variables (three name sets, requests that swap the cases, arithmetic). Numbers with a variable whose gradient and own second derivative are zero while a cross derivative is not. A first-order number with 70 000 names read back through seven short requests around position 65 535. Numbers with an infinite / overflowing Hessian entry or an infinite gradient entry: every requested list still reads every other entry back exactly. History independence: every requested list put, in a row on one thread, to \
         every layout of a 3-name pool, each number built fresh and dropped before the next. Non-trivial: requests that differ from the stored list.",
        json!({"names": 4, "requested_lists": ordered_sublists(5).len(), "cases": cs.len()}),
    )
    .assume("derivative values come from a fixed generic table; orders/subsets are exhaustive");
    finish(ctx, acc, meta)
}
