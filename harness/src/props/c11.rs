//! C11 Curve look-ups follow each interpolation rule at, between and beyond nodes.
use crate::common::*;
use crate::curvemodel::*;
use indexmap::IndexMap;
use rateslib::calendars::{Cal, CalType, Convention, Modifier};
use rateslib::curves::{
    CurveDF, CurveInterpolation, FlatBackwardInterpolator, FlatForwardInterpolator, LinearInterpolator, LinearZeroRateInterpolator, LogLinearInterpolator, Nodes,
};
use rateslib::dual::{ADOrder, Number};
use rateslib::verif_hooks as hooks;
use rateslib::verif_hooks::{VerifCurve, VerifInterp};
use serde::{Deserialize, Serialize};
use serde_json::json;

#[derive(Clone, Debug, Serialize, Deserialize)]
pub enum Case {
    Curve { rule: u8, gaps: Vec<u8>, vset: u8 },
    IndexLeft { list: Vec<f64> },
    /// bisection paths on long lists: [1, 2, .., len], every element, mid point and both outsides as query
    IndexLeftLong { len: usize },
    /// many nodes (9, 17, 33, ...): three supply orders, every node / mid / outside query
    LongCurve {
        rule: u8,
        n: usize,
        vset: u8,
        #[serde(default)]
        grid: u8,
    },
    /// history independence: look-ups on curve A, then on curve B whose nodes have the same count, first and last
    /// date but different interior dates (gaps permuted), then on A again - all on one thread
    Interleave { rule: u8, gaps_a: Vec<u8>, gaps_b: Vec<u8>, python_facing: bool },
}

pub fn interp_of(rule: usize) -> VerifInterp {
    [VerifInterp::Linear, VerifInterp::LogLinear, VerifInterp::LinearZeroRate, VerifInterp::FlatForward, VerifInterp::FlatBackward][rule]
}

fn run_df<T: CurveInterpolation>(c: &CurveDF<T, Cal>, qs: &[i64]) -> Vec<(f64, usize)> {
    qs.iter().map(|q| (f64::from(c.interpolated_value(&ts_to_ndt(*q))), c.node_index(*q))).collect()
}

/// build with the public constructor from nodes supplied in `order`, look every query up
pub fn lookup_df(rule: usize, xs: &[i64], ys: &[f64], order: &[usize], qs: &[i64]) -> Vec<(f64, usize)> {
    let mut m: IndexMap<chrono::NaiveDateTime, f64> = IndexMap::new();
    for k in order {
        m.insert(ts_to_ndt(xs[*k]), ys[*k]);
    }
    let cal = Cal::new(vec![], vec![5, 6]);
    macro_rules! go {
        ($i:expr) => {{
            let c = CurveDF::try_new(Nodes::F64(m), $i, "crv", Convention::Act360, Modifier::ModF, None, cal).unwrap();
            run_df(&c, qs)
        }};
    }
    match rule {
        0 => go!(LinearInterpolator::new()),
        1 => go!(LogLinearInterpolator::new()),
        2 => go!(LinearZeroRateInterpolator::new()),
        3 => go!(FlatForwardInterpolator::new()),
        _ => go!(FlatBackwardInterpolator::new()),
    }
}

pub fn lookup_py(rule: usize, xs: &[i64], ys: &[f64], order: &[usize], qs: &[i64]) -> Vec<(f64, usize)> {
    let mut m: IndexMap<chrono::NaiveDateTime, Number> = IndexMap::new();
    for k in order {
        m.insert(ts_to_ndt(xs[*k]), Number::F64(ys[*k]));
    }
    let c = VerifCurve::new(m, interp_of(rule), ADOrder::Zero, "crv", Convention::Act360, Modifier::ModF, CalType::Cal(Cal::new(vec![], vec![5, 6])), None).unwrap();
    qs.iter().map(|q| (f64::from(c.get(&ts_to_ndt(*q))), c.node_index(*q))).collect()
}

/// two curves on one thread, looked up in the order of `seq` (false: curve a, true: curve b)
pub fn alternate_df(rule: usize, xa: &[i64], xb: &[i64], ys: &[f64], seq: &[(bool, i64)]) -> Vec<(f64, usize)> {
    let cal = Cal::new(vec![], vec![5, 6]);
    let map = |xs: &[i64]| -> IndexMap<chrono::NaiveDateTime, f64> { xs.iter().zip(ys.iter()).map(|(x, y)| (ts_to_ndt(*x), *y)).collect() };
    macro_rules! go {
        ($i:expr) => {{
            let a = CurveDF::try_new(Nodes::F64(map(xa)), $i, "crv", Convention::Act360, Modifier::ModF, None, cal.clone()).unwrap();
            let b = CurveDF::try_new(Nodes::F64(map(xb)), $i, "crv", Convention::Act360, Modifier::ModF, None, cal.clone()).unwrap();
            seq.iter().map(|(w, q)| { let c = if *w { &b } else { &a }; (f64::from(c.interpolated_value(&ts_to_ndt(*q))), c.node_index(*q)) }).collect()
        }};
    }
    match rule {
        0 => go!(LinearInterpolator::new()),
        1 => go!(LogLinearInterpolator::new()),
        2 => go!(LinearZeroRateInterpolator::new()),
        3 => go!(FlatForwardInterpolator::new()),
        _ => go!(FlatBackwardInterpolator::new()),
    }
}

pub fn alternate_py(rule: usize, xa: &[i64], xb: &[i64], ys: &[f64], seq: &[(bool, i64)]) -> Vec<(f64, usize)> {
    let mk = |xs: &[i64]| {
        let m: IndexMap<chrono::NaiveDateTime, Number> = xs.iter().zip(ys.iter()).map(|(x, y)| (ts_to_ndt(*x), Number::F64(*y))).collect();
        VerifCurve::new(m, interp_of(rule), ADOrder::Zero, "crv", Convention::Act360, Modifier::ModF, CalType::Cal(Cal::new(vec![], vec![5, 6])), None).unwrap()
    };
    let (a, b) = (mk(xa), mk(xb));
    seq.iter().map(|(w, q)| { let c = if *w { &b } else { &a }; (f64::from(c.get(&ts_to_ndt(*q))), c.node_index(*q)) }).collect()
}

fn ulps(a: f64, b: f64) -> u64 {
    if a == b {
        0
    } else if a.is_nan() || b.is_nan() || a.signum() != b.signum() {
        u64::MAX
    } else {
        (a.to_bits() as i64 - b.to_bits() as i64).unsigned_abs()
    }
}

pub fn check(case: &Case, idx: u64, acc: &mut Acc) {
    let cj = || serde_json::to_value(case).unwrap();
    match case {
        Case::Curve { rule, gaps, vset } => {
            let rule = *rule as usize;
            let xs = node_times(gaps);
            let n = xs.len();
            let ys: Vec<f64> = VSETS[*vset as usize][..n].to_vec();
            let qs = queries(&xs);
            let perms = permutations(n);
            let ident: Vec<usize> = (0..n).collect();
            let base = lookup_df(rule, &xs, &ys, &ident, &qs);
            // --- closed forms, interval rule, node values, betweenness on the sorted supply
            for (k, q) in qs.iter().enumerate() {
                acc.eval();
                let i = interval_of(&xs, *q);
                let (got, gi) = base[k];
                let inside = *q > xs[0] && *q < xs[n - 1];
                let at_node = xs.iter().position(|x| x == q);
                if inside && at_node.is_none() {
                    acc.nontrivial();
                }
                if at_node.is_some() {
                    acc.bump("query exactly at a node");
                }
                if !inside && at_node.is_none() {
                    acc.bump("query outside the node range");
                }
                if gi != i {
                    acc.violate(&format!("interval/{}", RULES[rule]), idx, cj(), json!({"query_ts": q, "want_interval": i}), json!(gi));
                }
                let want = closed_form::<f64>(rule, xs[0], xs[i], &ys[i], xs[i + 1], &ys[i + 1], *q);
                acc.outcome(&(rule, got.to_bits()));
                if !close_scaled(got, want, 1e-12, want.abs()) {
                    acc.violate(
                        &format!("value/{}/{}", RULES[rule], if at_node.is_some() { "at-node" } else if inside { "between-nodes" } else { "outside-range" }),
                        idx,
                        cj(),
                        json!({"query_ts": q, "interval": i, "want": want}),
                        json!(got),
                    );
                }
                if let Some(kn) = at_node {
                    // the node's own value (linear-zero-rate presumes the first node's value is 1)
                    let lzr_first = rule == 2 && kn == 0;
                    let w = if lzr_first { 1.0 } else { ys[kn] };
                    if !(lzr_first && ys[0] != 1.0 && false) && !close_scaled(got, w, 1e-12, w.abs()) {
                        acc.violate(&format!("node-value/{}", RULES[rule]), idx, cj(), json!({"node": kn, "want": w}), json!(got));
                    }
                }
                if inside && rule <= 1 {
                    let (lo, hi) = (ys[i].min(ys[i + 1]), ys[i].max(ys[i + 1]));
                    if got < lo * (1.0 - 1e-14) || got > hi * (1.0 + 1e-14) {
                        acc.violate(&format!("between/{}", RULES[rule]), idx, cj(), json!({"query_ts": q, "lo": lo, "hi": hi}), json!(got));
                    }
                }
            }
            // --- supply order does not matter; both constructors agree
            for p in perms.iter() {
                for ctor in 0..2 {
                    let got = if ctor == 0 { lookup_df(rule, &xs, &ys, p, &qs) } else { lookup_py(rule, &xs, &ys, p, &qs) };
                    acc.evals_add(qs.len() as u64);
                    for k in 0..qs.len() {
                        if ulps(got[k].0, base[k].0) > 4 || got[k].1 != base[k].1 {
                            acc.violate(
                                &format!("supply-order/{}/{}", RULES[rule], if ctor == 0 { "CurveDF" } else { "python-facing" }),
                                idx,
                                cj(),
                                json!({"supply_order": p, "query_ts": qs[k], "want": base[k].0, "want_interval": base[k].1}),
                                json!({"value": got[k].0, "interval": got[k].1}),
                            );
                            break;
                        }
                    }
                }
            }
            if idx % 211 == 0 {
                acc.sample(cj);
            }
        }
        Case::Interleave { rule, gaps_a, gaps_b, python_facing } => {
            let rule = *rule as usize;
            let (xa, xb) = (node_times(gaps_a), node_times(gaps_b));
            let n = xa.len();
            let ys: Vec<f64> = VSETS[0][..n].to_vec();
            let ident: Vec<usize> = (0..n).collect();
            acc.nontrivial();
            for (step, xs) in [&xa, &xb, &xa, &xb].iter().enumerate() {
                let qs = queries(xs);
                let got = if *python_facing { lookup_py(rule, xs, &ys, &ident, &qs) } else { lookup_df(rule, xs, &ys, &ident, &qs) };
                for (k, q) in qs.iter().enumerate() {
                    acc.eval();
                    let i = interval_of(xs, *q);
                    let want = closed_form::<f64>(rule, xs[0], xs[i], &ys[i], xs[i + 1], &ys[i + 1], *q);
                    if got[k].1 != i || !close_scaled(got[k].0, want, 1e-12, want.abs()) {
                        acc.violate(
                            &format!("after-another-curve/{}", RULES[rule]),
                            idx,
                            cj(),
                            json!({"step": step, "query_ts": q, "want_interval": i, "want": want}),
                            json!({"interval": got[k].1, "value": got[k].0}),
                        );
                        break;
                    }
                }
            }
            // strictly alternating look-ups: a at qa, then b at qb, for every pair of queries (round 10: a memo of
            // the last interval found survives exactly one look-up on the other curve)
            let (qa, qb) = (queries(&xa), queries(&xb));
            let mut seq: Vec<(bool, i64)> = Vec::with_capacity(2 * qa.len() * qb.len());
            for a in &qa {
                for b in &qb {
                    seq.push((false, *a));
                    seq.push((true, *b));
                }
            }
            let got = if *python_facing { alternate_py(rule, &xa, &xb, &ys, &seq) } else { alternate_df(rule, &xa, &xb, &ys, &seq) };
            for (k, (w, q)) in seq.iter().enumerate() {
                acc.eval();
                let xs = if *w { &xb } else { &xa };
                let i = interval_of(xs, *q);
                let want = closed_form::<f64>(rule, xs[0], xs[i], &ys[i], xs[i + 1], &ys[i + 1], *q);
                if got[k].1 != i || !close_scaled(got[k].0, want, 1e-12, want.abs()) {
                    acc.violate(
                        &format!("alternating-with-another-curve/{}", RULES[rule]),
                        idx,
                        cj(),
                        json!({"position": k, "on_curve_b": w, "query_ts": q, "previous_query_ts": if k > 0 { Some(seq[k - 1].1) } else { None }, "want_interval": i, "want": want}),
                        json!({"interval": got[k].1, "value": got[k].0}),
                    );
                    break;
                }
            }
            if idx % 61 == 0 {
                acc.sample(cj);
            }
        }
        Case::IndexLeftLong { len } => {
            let list: Vec<f64> = (1..=*len).map(|x| x as f64).collect();
            let li: Vec<i64> = (1..=*len as i64).map(|x| 2 * x).collect();
            acc.nontrivial();
            for h in 1..=(2 * *len + 1) {
                let v = h as f64 * 0.5;
                acc.evals_add(2);
                let first_ge = list.iter().position(|k| *k >= v).unwrap_or(list.len());
                let want = (first_ge as i64 - 1).clamp(0, list.len() as i64 - 2) as usize;
                let got = hooks::index_left_f64(&list, &v, None);
                let gi = hooks::index_left_i64(&li, &(h as i64), None);
                acc.outcome(&(*len, got));
                if got != want || gi != want {
                    acc.violate("index_left/long-list", idx, cj(), json!({"value": v, "want": want}), json!([got, gi]));
                }
            }
            acc.sample(cj);
        }
        Case::LongCurve { rule, n, vset, grid } => {
            let rule = *rule as usize;
            let xs = grid_times(*n, *grid, 7);
            let ys: Vec<f64> = if *vset == 9 { (0..*n).map(|k| VEXTREME[k % 6]).collect() } else { (0..*n).map(|k| VSETS[*vset as usize][k % 6] * (1.0 - 0.002 * k as f64)).collect() };
            let qs = queries(&xs);
            let ident: Vec<usize> = (0..*n).collect();
            let rev: Vec<usize> = (0..*n).rev().collect();
            let shuf: Vec<usize> = (0..*n).map(|i| (i * 5 + 3) % *n).collect();
            let mut orders = vec![ident.clone(), rev];
            let mut chk = shuf.clone();
            chk.sort();
            if chk == ident {
                orders.push(shuf);
            }
            acc.nontrivial();
            for (oi, ord) in orders.iter().enumerate() {
                for ctor in 0..2 {
                    let got = if ctor == 0 { lookup_df(rule, &xs, &ys, ord, &qs) } else { lookup_py(rule, &xs, &ys, ord, &qs) };
                    for (k, q) in qs.iter().enumerate() {
                        acc.eval();
                        let i = interval_of(&xs, *q);
                        let want = closed_form::<f64>(rule, xs[0], xs[i], &ys[i], xs[i + 1], &ys[i + 1], *q);
                        // (a reference value that over- or underflowed to inf / 0 says nothing about the last digits)
                        let judged = want.is_finite() && (want == 0.0 || want.abs() > 1e-290);
                        if got[k].1 != i || (judged && !close_scaled(got[k].0, want, 1e-10, want.abs())) || (!judged && got[k].0.is_nan() && !want.is_nan()) {
                            acc.violate(&format!("many-nodes/{}", RULES[rule]), idx, cj(), json!({"supply_order": oi, "query_ts": q, "want_interval": i, "want": want}), json!({"interval": got[k].1, "value": got[k].0}));
                            break;
                        }
                    }
                }
            }
            // dates with a sub-second part: a curve works in whole seconds, rounding DOWN - a millisecond before a node
            // is the second before it (left of the node), a millisecond after it is the node's own second
            if *n <= 40 {
                let mut m: IndexMap<chrono::NaiveDateTime, Number> = IndexMap::new();
                for k in 0..*n {
                    m.insert(ts_to_ndt(xs[k]), Number::F64(ys[k]));
                }
                let c = VerifCurve::new(m, interp_of(rule), ADOrder::Zero, "crv", Convention::Act360, Modifier::ModF, CalType::Cal(Cal::new(vec![], vec![5, 6])), None).unwrap();
                let ms = chrono::Duration::milliseconds(1);
                for k in 0..*n {
                    acc.evals_add(2);
                    let node = ts_to_ndt(xs[k]);
                    let (before, sec_before) = (f64::from(c.get(&(node - ms))), f64::from(c.get(&ts_to_ndt(xs[k] - 1))));
                    let (after, at) = (f64::from(c.get(&(node + ms))), f64::from(c.get(&node)));
                    if before.to_bits() != sec_before.to_bits() || after.to_bits() != at.to_bits() {
                        acc.violate(&format!("sub-second/{}", RULES[rule]), idx, cj(), json!({"node": format!("{}", node), "want": {"1ms_before": sec_before, "1ms_after": at}}), json!({"1ms_before": before, "1ms_after": after}));
                        break;
                    }
                }
            }
            acc.sample(cj);
        }
        Case::IndexLeft { list } => {
            let dup = list.windows(2).any(|w| w[0] == w[1]);
            for h in 1..=11 {
                let v = h as f64 * 0.5;
                acc.eval();
                let first_ge = list.iter().position(|k| *k >= v).unwrap_or(list.len());
                let want = (first_ge as i64 - 1).clamp(0, list.len() as i64 - 2) as usize;
                let got = hooks::index_left_f64(list, &v, None);
                if list.len() >= 5 {
                    acc.nontrivial();
                }
                acc.outcome(&(list.len(), got, h));
                if got != want {
                    acc.violate(
                        if dup { "index_left/with-duplicates" } else { "index_left/strictly-increasing" },
                        idx,
                        cj(),
                        json!({"value": v, "want": want}),
                        json!(got),
                    );
                }
                let li: Vec<i64> = list.iter().map(|x| (*x * 2.0) as i64).collect();
                let gi = hooks::index_left_i64(&li, &(h as i64), None);
                if gi != want {
                    acc.violate("index_left/i64", idx, cj(), json!({"value": h, "want": want}), json!(gi));
                }
            }
            if idx % 499 == 0 {
                acc.sample(cj);
            }
        }
    }
}

pub fn cases(tier: Tier) -> Vec<Case> {
    let mut out = vec![];
    let nmax = tier.pick(5, 6);
    for n in 2..=nmax {
        let combos = 4usize.pow((n - 1) as u32);
        for c in 0..combos {
            let mut cc = c;
            let gaps: Vec<u8> = (0..n - 1).map(|_| { let g = (cc % 4) as u8; cc /= 4; g }).collect();
            for vset in 0..4u8 {
                for rule in 0..5u8 {
                    out.push(Case::Curve { rule, gaps: gaps.clone(), vset });
                }
            }
        }
    }
    // interleaved look-ups: every gap vector with at least two different gaps against each of its other orderings
    for n in 3..=4usize {
        let combos = 4usize.pow((n - 1) as u32);
        for c in 0..combos {
            let mut cc = c;
            let ga: Vec<u8> = (0..n - 1).map(|_| { let g = (cc % 4) as u8; cc /= 4; g }).collect();
            for p in permutations(n - 1) {
                let gb: Vec<u8> = p.iter().map(|i| ga[*i]).collect();
                if gb == ga {
                    continue;
                }
                for rule in 0..5u8 {
                    out.push(Case::Interleave { rule, gaps_a: ga.clone(), gaps_b: gb.clone(), python_facing: (c + rule as usize) % 2 == 0 });
                }
            }
        }
    }
    for len in 2..=tier.pick(48usize, 130usize) {
        out.push(Case::IndexLeftLong { len });
    }
    // awkward magnitudes: values near the largest double, subnormal, neighbours 600 orders of magnitude apart
    for n in [2usize, 3, 6, 7, 12] {
        for rule in 0..5u8 {
            for grid in [0u8, 1, 5] {
                out.push(Case::LongCurve { rule, n, vset: 9, grid });
            }
        }
    }
    for n in [7usize, 8, 9, 15, 16, 17, 24, 31, 32, 33, 64, 101, 130, 255, 256, 257, 300, 1023, 1024, 1025, 1400, 2100] {
        for rule in 0..5u8 {
            for vset in [0u8, 2] {
                for grid in 0..6u8 {
                    if n > 1000 && !(vset == 0 && (grid == 1 || grid == 2)) {
                        continue;
                    }
                    out.push(Case::LongCurve { rule, n, vset, grid });
                }
            }
        }
    }
    // every non-decreasing list of length 2..L over {1..5}
    let lmax = tier.pick(9, 11);
    fn rec(cur: &mut Vec<f64>, len: usize, out: &mut Vec<Case>) {
        if cur.len() == len {
            out.push(Case::IndexLeft { list: cur.clone() });
            return;
        }
        let start = cur.last().copied().unwrap_or(1.0) as i64;
        for v in start..=5 {
            cur.push(v as f64);
            rec(cur, len, out);
            cur.pop();
        }
    }
    for len in 2..=lmax {
        rec(&mut vec![], len, &mut out);
    }
    out
}

pub fn run(ctx: &Ctx, replay_file: Option<String>) -> ! {
    if let Some(f) = replay_file {
        replay::<Case, _>(ctx, &f, check);
    }
    let cs = cases(ctx.tier);
    let acc = explore(&cs, check);
    let meta = Meta::exploration(
        "curves: 5 rules x node counts 2..5 (6) x every gap vector over {1d, 30d, 365d, 3650d} x 4 value sets \
         (monotone from 1, non-monotone from 1, first value != 1, flat segments) x EVERY permutation of the supply order x both \
         constructors (CurveDF::try_new with the typed interpolator; the Python-facing constructor through the hook); \
         query dates: every node, node +-1 day, quarter/mid/three-quarter points of every interval, 400 days before the \
         first and after the last node. Oracle: interval = (first node >= date) - 1 clamped (also through node_index); \
         value = closed form of the rule on that interval's two nodes (1e-12); a node's own value at a node; between \
         the two node values for linear / log-linear; identical (<= 4 ulp, same interval) for every supply \
         permutation. index_left directly: every non-decreasing list of length 2..9 (11) over {1..5} x every query in \
         {0.5, 1, ..., 5.5}, f64 and i64. Larger sizes on a menu: index_left on [1..len] for every len up to 48 (130) with every \
         element / mid point as query; curves of 7, 8, 9, 15, 16, 17, 24, 31, 32, 33, 64, 101, 130, 255, 256, 257, 300 (and, evenly spaced, 1023, 1024, 1025, 1400, 2100) nodes in three supply orders on six node grids, with look-ups one millisecond before and after every node on the smaller ones (uneven, evenly spaced, evenly spaced with displaced interior nodes, dense-then-sparse, sparse-then-dense, uneven starting before 1970); curves of 2 .. 12 nodes whose values are 1e300, 1e-300, 1e150, 1e-150, 1, 5e-324 in turn (value judged to 1e-10 where the closed form itself stays in range, interval always). \
         History independence: look-ups on curve A, then on a curve B with the same node count, first and \
         last date but permuted gaps, then A and B again, on one thread. Non-trivial: queries strictly between nodes; \
         lists of length >= 5; interleaved pairs.",
        json!({"cases": cs.len(), "max_nodes": ctx.tier.pick(5, 6)}),
    )
    .assume("closed forms in harness/src/curvemodel.rs; node values from three fixed tables");
    finish(ctx, acc, meta)
}
