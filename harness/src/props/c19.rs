//! C19 Ordering, sign, remainder, sums and identities are coherent with the value.
use crate::common::*;
use crate::refdual::*;
use crate::spec::*;
use num_traits::{One, Signed, Zero};
use rateslib::dual::{Dual, Dual2, Gradient1, Gradient2, Number};
use serde::{Deserialize, Serialize};
use serde_json::json;
use std::cmp::Ordering;

#[derive(Clone, Debug, Serialize, Deserialize)]
pub enum Case {
    Cmp { a: NumSpec, b: NumSpec },
    Abs { a: NumSpec },
    Rem { a: NumSpec, b: NumSpec },
    Sum { xs: Vec<NumSpec> },
    Ident { a: NumSpec },
}

const TOL: f64 = 1e-12;

fn uni() -> Vec<String> {
    universe(3)
}

/// derivative contents attached to a value: none / one name / two names stored "backwards"
/// with a full Hessian / two names, one of them with zero derivative.
fn contents(v: f64, salt: usize) -> Vec<NumSpec> {
    vec![
        NumSpec::constant(v),
        NumSpec { v, names: vec![0], g: vec![gen_val(salt)], h: vec![gen_val(salt + 3)] },
        NumSpec {
            v,
            names: vec![1, 0],
            g: vec![gen_val(salt + 1), gen_val(salt + 2)],
            h: vec![gen_val(salt + 4), gen_val(salt + 5), gen_val(salt + 5), gen_val(salt + 6)],
        },
        NumSpec { v, names: vec![2, 0], g: vec![0.0, gen_val(salt + 7)], h: vec![] },
    ]
}

fn cases(tier: Tier) -> Vec<Case> {
    let vals: Vec<f64> = tier.pick(
        vec![-7.5, -2.0, -0.5, 0.5, 2.0, 7.5, 3.0, 0.0, -0.0],
        vec![-7.5, -2.0, -0.5, 0.5, 2.0, 7.5, 3.0, 0.0, -0.0, -3.0, 1e-3, -1e-3, 1e6, -1e6, 0.3, -0.7],
    );
    let mut pool: Vec<NumSpec> = vec![];
    for (k, v) in vals.iter().enumerate() {
        pool.extend(contents(*v, k));
    }
    let mut out = vec![];
    for a in pool.iter() {
        out.push(Case::Abs { a: a.clone() });
        out.push(Case::Ident { a: a.clone() });
        for b in pool.iter() {
            out.push(Case::Cmp { a: a.clone(), b: b.clone() });
            out.push(Case::Rem { a: a.clone(), b: b.clone() });
        }
    }
    // remainders with very large quotients (|a/b| from 1e13 to 1e27: beyond 2^53 and beyond 2^63)
    for (ka, av) in [2.5e9, -7e8, 3.0e15, 6.5e3].iter().enumerate() {
        for (kb, bv) in [1e-12, -4e-11, 3.0e-5, -2.5e-10].iter().enumerate() {
            for a in contents(*av, ka) {
                for b in contents(*bv, kb + 2) {
                    out.push(Case::Rem { a: a.clone(), b });
                }
            }
        }
    }
    // remainders of very small operands (their product underflows although the quotient is ordinary)
    {
        let p600 = 2.0_f64.powi(-600);
        let p650 = 2.0_f64.powi(-650);
        for (ka, av) in [1.5 * p600, -1.5 * p600, 2.5 * p650, -7.25 * p650, 5e-324, -1.5e-323].iter().enumerate() {
            for (kb, bv) in [p600, -p600, p650, -3.0 * p650, 1e-323].iter().enumerate() {
                for a in contents(*av, ka) {
                    for b in contents(*bv, kb + 1) {
                        out.push(Case::Rem { a: a.clone(), b });
                    }
                }
            }
        }
    }
    // sums: every sequence of length 0..=L over a small pool
    let sp: Vec<NumSpec> = vec![
        contents(0.5, 0)[1].clone(),
        contents(-2.0, 1)[2].clone(),
        contents(7.5, 2)[0].clone(),
        contents(-0.5, 3)[3].clone(),
        contents(3.0, 4)[2].clone(),
        // a single-name term on the second name, and a three-name term listed in an order that is not first appearance
        NumSpec { v: 1.25, names: vec![1], g: vec![gen_val(9)], h: vec![gen_val(10)] },
        NumSpec { v: 2.5, names: vec![0, 1, 2], g: vec![gen_val(20), gen_val(21), gen_val(22)], h: vec![gen_val(23), gen_val(24), gen_val(25), gen_val(24), gen_val(26), gen_val(27), gen_val(25), gen_val(27), gen_val(28)] },
        NumSpec { v: -0.75, names: vec![1, 0, 2], g: vec![gen_val(11), gen_val(12), gen_val(13)], h: vec![gen_val(14), gen_val(15), gen_val(16), gen_val(15), gen_val(17), gen_val(18), gen_val(16), gen_val(18), gen_val(19)] },
    ];
    let maxlen = tier.pick(4, 5);
    let mut seqs: Vec<Vec<usize>> = vec![vec![]];
    let mut frontier: Vec<Vec<usize>> = vec![vec![]];
    for _ in 0..maxlen {
        let mut next = vec![];
        for s in frontier.iter() {
            for k in 0..sp.len() {
                let mut t = s.clone();
                t.push(k);
                next.push(t);
            }
        }
        seqs.extend(next.iter().cloned());
        frontier = next;
    }
    for s in seqs {
        out.push(Case::Sum { xs: s.iter().map(|k| sp[*k].clone()).collect() });
    }
    // longer sums on a menu of lengths: rotating through the pool from every starting item
    // (the pool is widened by terms carrying all three names in several stored orders, so that a term can carry
    // every name of the sequence in an order different from first appearance)
    let mut spl = sp.clone();
    for (k, names) in [vec![2usize, 1, 0], vec![0, 2, 1], vec![1, 2], vec![2, 0, 1]].into_iter().enumerate() {
        let n = names.len();
        let g: Vec<f64> = (0..n).map(|i| gen_val(k * 3 + i + 11)).collect();
        let mut h = vec![0.0; n * n];
        for i in 0..n {
            for j in 0..n {
                h[i * n + j] = gen_val(k + 5 + i.min(j) * 3 + i.max(j));
            }
        }
        spl.push(NumSpec { v: 0.25 + k as f64, names, g, h });
    }
    for len in [7usize, 8, 9, 15, 16, 17, 31, 32, 33, 34, 64, 65, 130, 255, 256, 257, 300] {
        for start in 0..spl.len() {
            for step in [1usize, 2, 4, 5] {
                out.push(Case::Sum { xs: (0..len).map(|i| spl[(start + i * step) % spl.len()].clone()).collect() });
            }
        }
    }
    out
}

fn ord_checks(
    acc: &mut Acc,
    idx: u64,
    case: &Case,
    form: &str,
    av: f64,
    bv: f64,
    pc: Option<Ordering>,
    lt: bool,
    le: bool,
    gt: bool,
    ge: bool,
) {
    acc.eval();
    acc.outcome(&(form, pc.map(|o| o as i8), lt, le, gt, ge));
    let exp = (av.partial_cmp(&bv), av < bv, av <= bv, av > bv, av >= bv);
    if (pc, lt, le, gt, ge) != exp {
        acc.violate(
            &format!("ord/{}", form),
            idx,
            serde_json::to_value(case).unwrap(),
            json!(format!("{:?}", exp)),
            json!(format!("{:?}", (pc, lt, le, gt, ge))),
        );
    }
}

pub fn check(case: &Case, idx: u64, acc: &mut Acc) {
    let u = uni();
    let cj = || serde_json::to_value(case).unwrap();
    match case {
        Case::Cmp { a, b } => {
            if a.v != b.v && (!a.names.is_empty() || !b.names.is_empty()) {
                acc.nontrivial();
            }
            // positive difference: zero (no derivatives) when a <= b, otherwise a - b
            {
                acc.evals_add(2);
                let (d1, e1) = (a.dual(&u), b.dual(&u));
                let (d2, e2) = (a.dual2(&u), b.dual2(&u));
                let (s1, s2) = (d1.abs_sub(&e1), d2.abs_sub(&e2));
                if a.v <= b.v {
                    if s1.real() != 0.0 || s1.dual().iter().any(|x| *x != 0.0) {
                        acc.violate("abs_sub/Dual/not-greater", idx, cj(), json!(0.0), json!(format!("{:?}", s1)));
                    }
                    if s2.real() != 0.0 || s2.dual().iter().any(|x| *x != 0.0) || s2.dual2().iter().any(|x| *x != 0.0) {
                        acc.violate("abs_sub/Dual2/not-greater", idx, cj(), json!(0.0), json!(s2.real()));
                    }
                } else {
                    if let Err(e) = cmp_dual(&s1, &a.refd1().sub(&b.refd1()), &u, TOL, TOL) {
                        acc.violate("abs_sub/Dual/greater", idx, cj(), json!("a - b"), json!(e));
                    }
                    if let Err(e) = cmp_dual2(&s2, &a.refd2().sub(&b.refd2()), &u, TOL, TOL, TOL) {
                        acc.violate("abs_sub/Dual2/greater", idx, cj(), json!("a - b"), json!(e));
                    }
                }
            }
            let (d1, e1) = (a.dual(&u), b.dual(&u));
            ord_checks(acc, idx, case, "Dual,Dual", a.v, b.v, d1.partial_cmp(&e1), d1 < e1, d1 <= e1, d1 > e1, d1 >= e1);
            ord_checks(acc, idx, case, "Dual,f64", a.v, b.v, d1.partial_cmp(&b.v), d1 < b.v, d1 <= b.v, d1 > b.v, d1 >= b.v);
            ord_checks(acc, idx, case, "f64,Dual", a.v, b.v, a.v.partial_cmp(&e1), a.v < e1, a.v <= e1, a.v > e1, a.v >= e1);
            let (d2, e2) = (a.dual2(&u), b.dual2(&u));
            ord_checks(acc, idx, case, "Dual2,Dual2", a.v, b.v, d2.partial_cmp(&e2), d2 < e2, d2 <= e2, d2 > e2, d2 >= e2);
            ord_checks(acc, idx, case, "Dual2,f64", a.v, b.v, d2.partial_cmp(&b.v), d2 < b.v, d2 <= b.v, d2 > b.v, d2 >= b.v);
            ord_checks(acc, idx, case, "f64,Dual2", a.v, b.v, a.v.partial_cmp(&e2), a.v < e2, a.v <= e2, a.v > e2, a.v >= e2);
            for o in [1u8, 2u8] {
                let (na, nb) = (a.number(&u, o), b.number(&u, o));
                ord_checks(acc, idx, case, &format!("Number{o},Number{o}"), a.v, b.v, na.partial_cmp(&nb), na < nb, na <= nb, na > nb, na >= nb);
                ord_checks(acc, idx, case, &format!("Number{o},f64"), a.v, b.v, na.partial_cmp(&b.v), na < b.v, na <= b.v, na > b.v, na >= b.v);
                ord_checks(acc, idx, case, &format!("f64,Number{o}"), a.v, b.v, a.v.partial_cmp(&nb), a.v < nb, a.v <= nb, a.v > nb, a.v >= nb);
                let nf = Number::F64(b.v);
                ord_checks(acc, idx, case, &format!("Number{o},NumberF"), a.v, b.v, na.partial_cmp(&nf), na < nf, na <= nf, na > nf, na >= nf);
                let nfa = Number::F64(a.v);
                ord_checks(acc, idx, case, &format!("NumberF,Number{o}"), a.v, b.v, nfa.partial_cmp(&nb), nfa < nb, nfa <= nb, nfa > nb, nfa >= nb);
            }
        }
        Case::Abs { a } => {
            // sign queries agree with the float's own (also at +-0)
            {
                acc.evals_add(3);
                let (d, d2) = (a.dual(&u), a.dual2(&u));
                let want = (Signed::signum(&a.v), Signed::is_positive(&a.v), Signed::is_negative(&a.v));
                let g1 = d.signum();
                let g2 = d2.signum();
                if g1.real().to_bits() != want.0.to_bits() || g1.dual().iter().any(|x| *x != 0.0) || d.is_positive() != want.1 || d.is_negative() != want.2 {
                    acc.violate("sign/Dual", idx, cj(), json!(format!("{:?}", want)), json!(format!("{:?} {} {}", g1, d.is_positive(), d.is_negative())));
                }
                if g2.real().to_bits() != want.0.to_bits() || g2.dual().iter().any(|x| *x != 0.0) || g2.dual2().iter().any(|x| *x != 0.0) || d2.is_positive() != want.1 || d2.is_negative() != want.2 {
                    acc.violate("sign/Dual2", idx, cj(), json!(format!("{:?}", want)), json!(format!("{:?} {} {}", g2.real(), d2.is_positive(), d2.is_negative())));
                }
                for o in [1u8, 2] {
                    let n = a.number(&u, o);
                    let s = n.signum();
                    if f64::from(&s).to_bits() != want.0.to_bits() || n.is_positive() != want.1 || n.is_negative() != want.2 {
                        acc.violate(&format!("sign/Number{}", o), idx, cj(), json!(format!("{:?}", want)), json!(format!("{:?} {} {}", s, n.is_positive(), n.is_negative())));
                    }
                }
                // is_zero: value zero AND no non-zero derivative (it is the type's own equality with zero)
                let z1 = a.v == 0.0 && a.g.iter().all(|x| *x == 0.0);
                let z2 = z1 && a.h.iter().all(|x| *x == 0.0);
                if d.is_zero() != z1 || a.number(&u, 1).is_zero() != z1 {
                    acc.violate("is_zero/Dual", idx, cj(), json!(z1), json!(d.is_zero()));
                }
                if d2.is_zero() != z2 || a.number(&u, 2).is_zero() != z2 {
                    acc.violate("is_zero/Dual2", idx, cj(), json!(z2), json!(d2.is_zero()));
                }
            }
            if a.v == 0.0 {
                acc.skip();
                return;
            }
            if a.v < 0.0 && !a.names.is_empty() {
                acc.nontrivial();
            }
            let r1 = a.refd1().abs();
            let r2 = a.refd2().abs();
            acc.evals_add(4);
            let d = a.dual(&u).abs();
            acc.outcome(&("abs1", d.real().to_bits()));
            if let Err(e) = cmp_dual(&d, &r1, &u, 0.0, 0.0) {
                acc.violate("abs/Dual", idx, cj(), json!("sign flipped together (exact)"), json!(e));
            }
            let d2 = a.dual2(&u).abs();
            if let Err(e) = cmp_dual2(&d2, &r2, &u, 0.0, 0.0, 0.0) {
                acc.violate("abs/Dual2", idx, cj(), json!("sign flipped together (exact)"), json!(e));
            }
            if let Number::Dual(x) = a.number(&u, 1).abs() {
                if let Err(e) = cmp_dual(&x, &r1, &u, 0.0, 0.0) {
                    acc.violate("abs/Number1", idx, cj(), json!("as Dual"), json!(e));
                }
            } else {
                acc.violate("abs/Number1", idx, cj(), json!("Dual kind"), json!("other kind"));
            }
            if let Number::Dual2(x) = a.number(&u, 2).abs() {
                if let Err(e) = cmp_dual2(&x, &r2, &u, 0.0, 0.0, 0.0) {
                    acc.violate("abs/Number2", idx, cj(), json!("as Dual2"), json!(e));
                }
            } else {
                acc.violate("abs/Number2", idx, cj(), json!("Dual2 kind"), json!("other kind"));
            }
        }
        Case::Rem { a, b } => {
            if b.v == 0.0 {
                acc.skip();
                return;
            }
            let q = a.v / b.v;
            // on a discontinuity of the truncated quotient (a/b within rounding of an integer without being
            // one exactly) "a - b*trunc(a/b)" has two defensible floating-point values that differ by |b|:
            // the exact remainder (fmod) and the rounded formula. Such pairs are out of domain.
            let formula = a.v - b.v * q.trunc();
            // (a quotient beyond 2^52 is an integer already: truncation is the identity and there is no such ambiguity)
            if q.abs() < 4.5e15 && ((a.v % b.v) - formula).abs() > 0.25 * b.v.abs() {
                acc.skip();
                return;
            }
            if q < 0.0 && q.trunc() != q.floor() && !(a.names.is_empty() && b.names.is_empty()) {
                acc.nontrivial();
                acc.bump("negative non-integer quotient");
            }
            // operands that SHARE their variable list (the divisor re-built on the dividend's list, or the other
            // way round, whenever its names are a subset)
            {
                let sub = |x: &NumSpec, y: &NumSpec| !x.names.is_empty() && x.names.iter().all(|n| y.names.contains(n));
                let half = |s: &NumSpec| -> Vec<f64> { s.h.iter().map(|x| 0.5 * x).collect() };
                let mut pairs1: Vec<(Dual, Dual)> = vec![];
                let mut pairs2: Vec<(Dual2, Dual2)> = vec![];
                if sub(b, a) {
                    let (a1, a2) = (a.dual(&u), a.dual2(&u));
                    let b1 = Dual::try_new_from(&a1, b.v, b.name_strings(&u), b.g.clone()).unwrap();
                    let b2 = Dual2::try_new_from(&a2, b.v, b.name_strings(&u), b.g.clone(), half(b)).unwrap();
                    pairs1.push((a1, b1));
                    pairs2.push((a2, b2));
                }
                if sub(a, b) {
                    let (b1, b2) = (b.dual(&u), b.dual2(&u));
                    let a1 = Dual::try_new_from(&b1, a.v, a.name_strings(&u), a.g.clone()).unwrap();
                    let a2 = Dual2::try_new_from(&b2, a.v, a.name_strings(&u), a.g.clone(), half(a)).unwrap();
                    pairs1.push((a1, b1));
                    pairs2.push((a2, b2));
                }
                let (w1, w2) = (a.refd1().rem(&b.refd1()), a.refd2().rem(&b.refd2()));
                for (x, y) in pairs1.iter() {
                    acc.eval();
                    acc.bump("remainders on a shared variable list");
                    if let Err(e) = cmp_dual(&(x % y), &w1, &u, TOL, TOL) {
                        acc.violate("rem/Dual/shared-storage", idx, cj(), json!(format!("{:?}", w1.val.v)), json!(e));
                    }
                }
                for (x, y) in pairs2.iter() {
                    acc.eval();
                    if let Err(e) = cmp_dual2(&(x % y), &w2, &u, TOL, TOL, TOL) {
                        acc.violate("rem/Dual2/shared-storage", idx, cj(), json!(format!("{:?}", w2.val.v)), json!(e));
                    }
                }
            }
            let fa = NumSpec::constant(a.v);
            let fb = NumSpec::constant(b.v);
            // (form, left, right)
            let forms: [(&str, &NumSpec, &NumSpec); 3] = [("d%d", a, b), ("d%f", a, &fb), ("f%d", &fa, b)];
            for (form, l, r) in forms.iter() {
                acc.evals_add(2);
                let want1 = l.refd1().rem(&r.refd1());
                let want2 = l.refd2().rem(&r.refd2());
                let got1: Dual = match *form {
                    "d%d" => &l.dual(&u) % &r.dual(&u),
                    "d%f" => &l.dual(&u) % &r.v,
                    _ => &l.v % &r.dual(&u),
                };
                acc.outcome(&(form, got1.real().to_bits()));
                if let Err(e) = cmp_dual(&got1, &want1, &u, TOL, TOL) {
                    acc.violate(&format!("rem/Dual/{}", form), idx, cj(), json!(format!("{:?}", want1.val.v)), json!(e));
                }
                let got2: Dual2 = match *form {
                    "d%d" => &l.dual2(&u) % &r.dual2(&u),
                    "d%f" => &l.dual2(&u) % &r.v,
                    _ => &l.v % &r.dual2(&u),
                };
                if let Err(e) = cmp_dual2(&got2, &want2, &u, TOL, TOL, TOL) {
                    acc.violate(&format!("rem/Dual2/{}", form), idx, cj(), json!(format!("{:?}", want2.val.v)), json!(e));
                }
                // owned-operand forms must agree bitwise with the borrowed ones
                let got1o: Dual = match *form {
                    "d%d" => l.dual(&u) % r.dual(&u),
                    "d%f" => l.dual(&u) % r.v,
                    _ => l.v % r.dual(&u),
                };
                if got1o.real().to_bits() != got1.real().to_bits() || got1o != got1 {
                    acc.violate(&format!("rem/Dual/{}/owned", form), idx, cj(), json!("same as borrowed form"), json!(format!("{:?}", got1o)));
                }
            }
        }
        Case::Sum { xs } => {
            if xs.len() >= 2 {
                acc.nontrivial();
            }
            acc.evals_add(3);
            // reference: ((0 + x1) + x2) + ...
            let mut r1 = RefDual::constant(0.0);
            let mut r2 = RefDual::constant(0.0);
            for x in xs {
                r1 = r1.add(&x.refd1());
                r2 = r2.add(&x.refd2());
            }
            // realisation 2: equal items are clones of ONE object (shared Arc), as a user summing a reused number would have
            {
                let mut distinct: Vec<&NumSpec> = vec![];
                for x in xs.iter() {
                    if !distinct.iter().any(|d| *d == x) {
                        distinct.push(x);
                    }
                }
                let objs1: Vec<Dual> = distinct.iter().map(|d| d.dual(&u)).collect();
                let objs2: Vec<rateslib::dual::Dual2> = distinct.iter().map(|d| d.dual2(&u)).collect();
                let pick = |x: &NumSpec| distinct.iter().position(|d| *d == x).unwrap();
                let sh1: Dual = xs.iter().map(|x| objs1[pick(x)].clone()).sum();
                if let Err(e) = cmp_dual(&sh1, &r1, &u, TOL, TOL) {
                    acc.violate("sum/Dual/shared-storage", idx, cj(), json!(r1.val.v), json!(e));
                }
                let sh2: rateslib::dual::Dual2 = xs.iter().map(|x| objs2[pick(x)].clone()).sum();
                if let Err(e) = cmp_dual2(&sh2, &r2, &u, TOL, TOL, TOL) {
                    acc.violate("sum/Dual2/shared-storage", idx, cj(), json!(r2.val.v), json!(e));
                }
                let shn2: Number = xs.iter().map(|x| Number::Dual2(objs2[pick(x)].clone())).sum();
                if let (Number::Dual2(d), false) = (&shn2, xs.is_empty()) {
                    if let Err(e) = cmp_dual2(d, &r2, &u, TOL, TOL, TOL) {
                        acc.violate("sum/Number2/shared-storage", idx, cj(), json!(r2.val.v), json!(e));
                    }
                }
                let shn: Number = xs.iter().map(|x| Number::Dual(objs1[pick(x)].clone())).sum();
                if let (Number::Dual(d), false) = (&shn, xs.is_empty()) {
                    if let Err(e) = cmp_dual(d, &r1, &u, TOL, TOL) {
                        acc.violate("sum/Number1/shared-storage", idx, cj(), json!(r1.val.v), json!(e));
                    }
                }
                acc.evals_add(3);
            }
            let s1: Dual = xs.iter().map(|x| x.dual(&u)).sum();
            acc.outcome(&("sum", s1.real().to_bits(), xs.len()));
            if let Err(e) = cmp_dual(&s1, &r1, &u, TOL, TOL) {
                acc.violate("sum/Dual", idx, cj(), json!(r1.val.v), json!(e));
            }
            let mut f1 = Dual::new(0.0, vec![]);
            for x in xs {
                f1 = f1 + x.dual(&u);
            }
            if f1.real().to_bits() != s1.real().to_bits() || f1 != s1 {
                acc.violate("sum/Dual/fold", idx, cj(), json!(format!("{:?}", f1)), json!(format!("{:?}", s1)));
            }
            let s2: Dual2 = xs.iter().map(|x| x.dual2(&u)).sum();
            if let Err(e) = cmp_dual2(&s2, &r2, &u, TOL, TOL, TOL) {
                acc.violate("sum/Dual2", idx, cj(), json!(r2.val.v), json!(e));
            }
            let mut f2 = Dual2::new(0.0, vec![]);
            for x in xs {
                f2 = f2 + x.dual2(&u);
            }
            if f2.real().to_bits() != s2.real().to_bits() || f2 != s2 {
                acc.violate("sum/Dual2/fold", idx, cj(), json!(format!("{:?}", f2)), json!(format!("{:?}", s2)));
            }
            // Number: all of one kind (order 1), and floats only
            let sn: Number = xs.iter().map(|x| x.number(&u, 1)).sum();
            match (&sn, xs.is_empty()) {
                (Number::F64(f), true) => {
                    if *f != 0.0 {
                        acc.violate("sum/Number/empty", idx, cj(), json!(0.0), json!(f));
                    }
                }
                (Number::Dual(d), false) => {
                    if let Err(e) = cmp_dual(d, &r1, &u, TOL, TOL) {
                        acc.violate("sum/Number1", idx, cj(), json!(r1.val.v), json!(e));
                    }
                }
                _ => acc.violate("sum/Number/kind", idx, cj(), json!("Dual kind (F64 if empty)"), json!(format!("{:?}", sn))),
            }
            let sf: Number = xs.iter().map(|x| Number::F64(x.v)).sum();
            let mut ff = 0.0_f64;
            for x in xs {
                ff += x.v;
            }
            match sf {
                Number::F64(f) if f.to_bits() == ff.to_bits() => {}
                other => acc.violate("sum/NumberF", idx, cj(), json!(ff), json!(format!("{:?}", other))),
            }
        }
        Case::Ident { a } => {
            if !a.names.is_empty() {
                acc.nontrivial();
            }
            let r1 = a.refd1();
            let r2 = a.refd2();
            let d = a.dual(&u);
            let d2 = a.dual2(&u);
            let z1 = Dual::zero();
            let o1 = Dual::one();
            let z2 = Dual2::zero();
            let o2 = Dual2::one();
            let trials1: Vec<(&str, Dual)> = vec![
                ("x+0", &d + &z1),
                ("0+x", &z1 + &d),
                ("x*1", &d * &o1),
                ("1*x", &o1 * &d),
                ("x+0f", &d + 0.0),
                ("0f+x", 0.0 + &d),
                ("x*1f", &d * 1.0),
                ("1f*x", 1.0 * &d),
            ];
            for (nm, got) in trials1 {
                acc.eval();
                acc.outcome(&(nm, got.real().to_bits()));
                if let Err(e) = cmp_dual(&got, &r1, &u, 0.0, 0.0) {
                    acc.violate(&format!("ident/Dual/{}", nm), idx, cj(), json!("x unchanged"), json!(e));
                }
                if got != d {
                    acc.violate(&format!("ident/Dual/{}/eq", nm), idx, cj(), json!("== x"), json!(format!("{:?}", got)));
                }
            }
            let trials2: Vec<(&str, Dual2)> = vec![
                ("x+0", &d2 + &z2),
                ("0+x", &z2 + &d2),
                ("x*1", &d2 * &o2),
                ("1*x", &o2 * &d2),
                ("x+0f", &d2 + 0.0),
                ("0f+x", 0.0 + &d2),
                ("x*1f", &d2 * 1.0),
                ("1f*x", 1.0 * &d2),
            ];
            for (nm, got) in trials2 {
                acc.eval();
                if let Err(e) = cmp_dual2(&got, &r2, &u, 0.0, 0.0, 0.0) {
                    acc.violate(&format!("ident/Dual2/{}", nm), idx, cj(), json!("x unchanged"), json!(e));
                }
                if got != d2 {
                    acc.violate(&format!("ident/Dual2/{}/eq", nm), idx, cj(), json!("== x"), json!(format!("{:?}", got)));
                }
            }
            for o in [0u8, 1, 2] {
                let x = a.number(&u, o);
                let trials: Vec<(&str, Number)> = vec![
                    ("x+0", &x + &Number::zero()),
                    ("0+x", &Number::zero() + &x),
                    ("x*1", &x * &Number::one()),
                    ("1*x", &Number::one() * &x),
                ];
                for (nm, got) in trials {
                    acc.eval();
                    let ok = match (&got, o) {
                        (Number::F64(f), 0) => f.to_bits() == a.v.to_bits() || (*f == 0.0 && a.v == 0.0),
                        (Number::Dual(g), 1) => cmp_dual(g, &r1, &u, 0.0, 0.0).is_ok(),
                        (Number::Dual2(g), 2) => cmp_dual2(g, &r2, &u, 0.0, 0.0, 0.0).is_ok(),
                        _ => false,
                    };
                    if !ok {
                        acc.violate(&format!("ident/Number{}/{}", o, nm), idx, cj(), json!("x unchanged, same kind"), json!(format!("{:?}", got)));
                    }
                }
            }
        }
    }
    acc.sample(cj);
}

pub fn run(ctx: &Ctx, replay_file: Option<String>) -> ! {
    if let Some(f) = replay_file {
        replay::<Case, _>(ctx, &f, check);
    }
    let cs = cases(ctx.tier);
    let acc = explore(&cs, check);
    let meta = Meta::exploration(
        "every pair of numbers from (value table x 4 derivative contents) for comparisons and remainder in the forms \
         dual-dual / dual-float / float-dual, on Dual, Dual2 and Number; abs, signum / is_positive / is_negative / is_zero (also at +-0), abs_sub on every pair, and the zero/one identities on every \
         number; every sequence of length 0..L over an 8-number pool for sum (items realised both as fresh numbers and as \
         clones of one object), plus rotating sequences of length 7, 8, 9, 15, 16, 17, 31..34, 64, 65, 130, 255, 256, 257, 300 over a pool widened by numbers carrying all three names in several stored orders; remainders also with the two operands sharing one variable list; remainders of operands around 2^-600 and of subnormal operands; remainders with quotients of 1e13 .. 1e27 (beyond 2^53 and 2^63). Non-trivial: comparisons of unequal \
         values with derivatives present, abs of negative numbers with derivatives, remainders with negative \
         non-integer quotient and derivatives, sums of >= 2 terms, identities on numbers that carry variables. \
         Oracle: float comparison; RefDual (by-name value/gradient/Hessian) for abs, rem = a - b*trunc(a/b), left fold \
         from zero, x unchanged.",
        json!({"values": ctx.tier.pick(7, 14), "contents_per_value": 4, "sum_max_len": ctx.tier.pick(4, 5), "cases": cs.len()}),
    )
    .assume("derivative rules are checked at the table values only")
    .assume("RefDual reference model (harness/src/refdual.rs) is the trusted base");
    finish(ctx, acc, meta)
}
