//! C12 Curve values carry exact sensitivities to their nodes at every derivative order.
//! Explicit-state BFS (stateright) over the real curve object under set_ad_order, to a fixpoint.
use crate::common::*;
use crate::curvemodel::*;
use crate::props::c11::interp_of;
use crate::refdual::*;
use chrono::NaiveDateTime;
use indexmap::IndexMap;
use rateslib::calendars::{Cal, CalType, Convention, Modifier};
use rateslib::curves::{
    CurveDF, FlatBackwardInterpolator, FlatForwardInterpolator, LinearInterpolator, LinearZeroRateInterpolator, LogLinearInterpolator, Nodes,
};
use rateslib::dual::{ADOrder, Dual, Dual2, Gradient1, Gradient2, Number, Vars};
use rateslib::verif_hooks as hooks;
use rateslib::verif_hooks::VerifCurve;
use serde::{Deserialize, Serialize};
use serde_json::json;
use stateright::{Checker, Model, Property};
use std::hash::{Hash, Hasher};
use std::sync::atomic::{AtomicU64, Ordering as AO};
use std::sync::Arc;

const ID: &str = "crv";
const GOWN: f64 = 2.0;

#[derive(Clone, Debug, Serialize, Deserialize)]
pub struct Init {
    pub rule: u8,
    /// 0: CurveDF::try_new, 1: Python-facing constructor
    pub ctor: u8,
    /// 0 floats, 1 Duals with own names, 2 Dual2s with own names, 3 floats and Duals alternating
    pub node_kind: u8,
    /// order argument of the Python-facing constructor
    pub ad: u8,
    pub gaps: Vec<u8>,
    pub vset: u8,
    pub supply: Vec<usize>,
    pub index_base: Option<f64>,
}

#[derive(Clone, Debug, Serialize, Deserialize)]
pub enum Case {
    Explore { init: Init },
    History { init: Init, switches: Vec<u8> },
    /// two float curves with their own ids and node counts, switched to order 1 one after the other on one thread
    /// (A, B, then A to 2, B to 2): the tags of each are '<its id><i>' whatever the other one is called
    IdHistory { id_a: String, n_a: usize, id_b: String, n_b: usize, py: bool },
    /// a curve whose node values are first-order numbers on the SAME two (three) variables listed in different orders
    /// from node to node, taken through `switches`; judged against the twin whose nodes all list them in one order
    PermutedVars { rule: u8, py: bool, second_order_nodes: bool, switches: Vec<u8> },
    /// a float curve with MANY nodes (tag names with two digits, long node maps) taken through 1, 2, 1, 0, 2
    ManyNodes {
        rule: u8,
        n: usize,
        ctor: u8,
        reversed_supply: bool,
        /// 0 uneven spacing, 1 evenly spaced weekly, 2 weekly with interior nodes moved off the grid
        #[serde(default)]
        grid: u8,
    },
}

#[derive(Clone)]
pub enum Obj {
    Py(VerifCurve),
    Lin(CurveDF<LinearInterpolator, Cal>),
    Log(CurveDF<LogLinearInterpolator, Cal>),
    Lzr(CurveDF<LinearZeroRateInterpolator, Cal>),
    Ff(CurveDF<FlatForwardInterpolator, Cal>),
    Fb(CurveDF<FlatBackwardInterpolator, Cal>),
}

fn nodes_vec(n: Nodes) -> Vec<(NaiveDateTime, Number)> {
    match n {
        Nodes::F64(m) => m.into_iter().map(|(k, v)| (k, Number::F64(v))).collect(),
        Nodes::Dual(m) => m.into_iter().map(|(k, v)| (k, Number::Dual(v))).collect(),
        Nodes::Dual2(m) => m.into_iter().map(|(k, v)| (k, Number::Dual2(v))).collect(),
    }
}

macro_rules! each {
    ($self:expr, $c:ident => $py:expr, $df:expr) => {
        match $self {
            Obj::Py($c) => $py,
            Obj::Lin($c) => $df,
            Obj::Log($c) => $df,
            Obj::Lzr($c) => $df,
            Obj::Ff($c) => $df,
            Obj::Fb($c) => $df,
        }
    };
}

impl Obj {
    fn set_ad_order(&mut self, o: ADOrder) -> bool {
        each!(self, c => c.set_ad_order(o).is_ok(), c.set_ad_order(o).is_ok())
    }
    fn ad(&self) -> u8 {
        let a = each!(self, c => c.ad(), c.ad());
        match a {
            ADOrder::Zero => 0,
            ADOrder::One => 1,
            ADOrder::Two => 2,
        }
    }
    fn get(&self, d: &NaiveDateTime) -> Number {
        each!(self, c => c.get(d), c.interpolated_value(d))
    }
    fn nodes(&self) -> Vec<(NaiveDateTime, Number)> {
        each!(self, c => c.nodes().into_iter().collect(), nodes_vec(hooks::curvedf_nodes(c)))
    }
    fn index_value(&self, d: &NaiveDateTime) -> Result<Number, ()> {
        each!(self, c => c.index_value(d).map_err(|_| ()), c.index_value(d).map_err(|_| ()))
    }
}

fn adorder(o: u8) -> ADOrder {
    match o {
        0 => ADOrder::Zero,
        1 => ADOrder::One,
        _ => ADOrder::Two,
    }
}

/// expected (name, gradient) of node k in date order
type Tags = Vec<Option<(String, f64)>>;

fn build(init: &Init) -> (Obj, Tags, Vec<i64>, Vec<f64>) {
    let xs = node_times(&init.gaps);
    let n = xs.len();
    let ys: Vec<f64> = VSETS[init.vset as usize][..n].to_vec();
    let own = |k: usize| format!("u{}", k);
    let is_dual_node = |k: usize| match init.node_kind {
        0 => false,
        1 | 2 => true,
        _ => k % 2 == 1,
    };
    let cal = Cal::new(vec![], vec![5, 6]);
    if init.ctor == 0 {
        macro_rules! go {
            ($variant:ident, $i:expr) => {{
                let nodes = match init.node_kind {
                    0 => Nodes::F64(init.supply.iter().map(|k| (ts_to_ndt(xs[*k]), ys[*k])).collect()),
                    1 => Nodes::Dual(init.supply.iter().map(|k| (ts_to_ndt(xs[*k]), Dual::try_new(ys[*k], vec![own(*k)], vec![GOWN]).unwrap())).collect()),
                    _ => Nodes::Dual2(init.supply.iter().map(|k| (ts_to_ndt(xs[*k]), Dual2::try_new(ys[*k], vec![own(*k)], vec![GOWN], vec![]).unwrap())).collect()),
                };
                Obj::$variant(CurveDF::try_new(nodes, $i, ID, Convention::Act360, Modifier::ModF, init.index_base, cal).unwrap())
            }};
        }
        let obj = match init.rule {
            0 => go!(Lin, LinearInterpolator::new()),
            1 => go!(Log, LogLinearInterpolator::new()),
            2 => go!(Lzr, LinearZeroRateInterpolator::new()),
            3 => go!(Ff, FlatForwardInterpolator::new()),
            _ => go!(Fb, FlatBackwardInterpolator::new()),
        };
        let tags: Tags = (0..n).map(|k| if init.node_kind == 0 { None } else { Some((own(k), GOWN)) }).collect();
        (obj, tags, xs, ys)
    } else {
        let mut m: IndexMap<NaiveDateTime, Number> = IndexMap::new();
        for k in init.supply.iter() {
            let num = if !is_dual_node(*k) {
                Number::F64(ys[*k])
            } else if init.node_kind == 2 {
                Number::Dual2(Dual2::try_new(ys[*k], vec![own(*k)], vec![GOWN], vec![]).unwrap())
            } else {
                Number::Dual(Dual::try_new(ys[*k], vec![own(*k)], vec![GOWN]).unwrap())
            };
            m.insert(ts_to_ndt(xs[*k]), num);
        }
        let c = VerifCurve::new(m, interp_of(init.rule as usize), adorder(init.ad), ID, Convention::Act360, Modifier::ModF, CalType::Cal(cal), init.index_base).unwrap();
        let tags: Tags = (0..n)
            .map(|k| {
                if init.ad == 0 {
                    None
                } else if is_dual_node(k) {
                    Some((own(k), GOWN))
                } else {
                    Some((format!("{}{}", ID, k), 1.0))
                }
            })
            .collect();
        (Obj::Py(c), tags, xs, ys)
    }
}

#[derive(Clone)]
pub struct St {
    pub obj: Obj,
    pub tags: Tags,
    pub order: u8,
    pub bad: Option<(String, String)>,
    pub key: String,
}
impl std::fmt::Debug for St {
    fn fmt(&self, f: &mut std::fmt::Formatter<'_>) -> std::fmt::Result {
        write!(f, "St(order {}, tags {:?}, bad {:?})", self.order, self.tags, self.bad)
    }
}
impl PartialEq for St {
    fn eq(&self, o: &St) -> bool {
        self.key == o.key
    }
}
impl Eq for St {}
impl Hash for St {
    fn hash<H: Hasher>(&self, h: &mut H) {
        self.key.hash(h)
    }
}

fn num_key(x: &Number) -> String {
    match x {
        Number::F64(f) => format!("F{:016x}", f.to_bits()),
        Number::Dual(d) => format!("D{:016x}{:?}{:?}", d.real().to_bits(), d.vars(), d.dual().iter().map(|g| g.to_bits()).collect::<Vec<_>>()),
        Number::Dual2(d) => format!(
            "T{:016x}{:?}{:?}{:?}",
            d.real().to_bits(),
            d.vars(),
            d.dual().iter().map(|g| g.to_bits()).collect::<Vec<_>>(),
            d.dual2().iter().map(|g| g.to_bits()).collect::<Vec<_>>()
        ),
    }
}

fn state_key(obj: &Obj, tags: &Tags, bad: &Option<(String, String)>) -> String {
    let mut s = format!("ad{}|", obj.ad());
    for (k, v) in obj.nodes() {
        s.push_str(&format!("{}={};", k, num_key(&v)));
    }
    s.push_str(&format!("|{:?}|{:?}", tags, bad.as_ref().map(|b| &b.0)));
    s
}

struct Ctxm {
    init: Init,
    xs: Vec<i64>,
    ys: Vec<f64>,
    qs: Vec<i64>,
    vals0: Vec<f64>,
}

/// every state oracle
fn examine(cx: &Ctxm, obj: &Obj, tags: &Tags, order: u8) -> Option<(String, String)> {
    let rule = cx.init.rule as usize;
    let n = cx.xs.len();
    if obj.ad() != order {
        return Some(("ad-reports-order".into(), format!("ad() = {} after switching to {}", obj.ad(), order)));
    }
    // nodes: sorted, values unchanged, names / unit structure as tracked
    let nodes = obj.nodes();
    if nodes.len() != n || nodes.iter().zip(cx.xs.iter()).any(|((d, _), x)| d.and_utc().timestamp() != *x) {
        return Some(("nodes-order".into(), format!("nodes not in date order: {:?}", nodes.iter().map(|(d, _)| d.to_string()).collect::<Vec<_>>())));
    }
    let uni: Vec<String> = (0..n).map(|k| tags[k].as_ref().map(|t| t.0.clone()).unwrap_or_else(|| format!("__none{}", k))).collect();
    for (k, (_, v)) in nodes.iter().enumerate() {
        let ok = match (v, order, &tags[k]) {
            (Number::F64(f), 0, _) => f.to_bits() == cx.ys[k].to_bits(),
            (Number::Dual(d), 1, Some((nm, g))) => d.real().to_bits() == cx.ys[k].to_bits() && d.vars().iter().cloned().collect::<Vec<_>>() == vec![nm.clone()] && d.dual().to_vec() == vec![*g],
            (Number::Dual2(d), 2, Some((nm, g))) => {
                d.real().to_bits() == cx.ys[k].to_bits() && d.vars().iter().cloned().collect::<Vec<_>>() == vec![nm.clone()] && d.dual().to_vec() == vec![*g] && d.dual2().iter().all(|z| *z == 0.0)
            }
            _ => false,
        };
        if !ok {
            let float_origin = tags[k].as_ref().map_or(false, |t| t.0.starts_with(ID));
            return Some((
                if float_origin { "node-tag/float-origin".into() } else { "node-tag/own-name".into() },
                format!("node {} is {:?}, expected value {} tagged {:?}", k, v, cx.ys[k], tags[k]),
            ));
        }
    }
    // look-ups
    for (qi, q) in cx.qs.iter().enumerate() {
        let d = ts_to_ndt(*q);
        let got = obj.get(&d);
        let v = f64::from(&got);
        if !close_scaled(v, cx.vals0[qi], 1e-14, cx.vals0[qi].abs()) {
            return Some((format!("value-changed/order{}", order), format!("query {}: {:e} vs float curve {:e}", d, v, cx.vals0[qi])));
        }
        let i = interval_of(&cx.xs, *q);
        let leaf = |k: usize| -> RefDual {
            match &tags[k] {
                Some((_, g)) => RefDual::leaf(cx.ys[k], &[(k, *g)]),
                None => RefDual::constant(cx.ys[k]),
            }
        };
        let rd: RefDual = closed_form::<RefDual>(rule, cx.xs[0], cx.xs[i], &leaf(i), cx.xs[i + 1], &leaf(i + 1), *q);
        let outside = *q < cx.xs[0] || *q > cx.xs[n - 1];
        let res = match (&got, order) {
            (Number::F64(_), 0) => Ok(()),
            (Number::Dual(x), 1) => cmp_dual(x, &rd.drop_hessian(), &uni, 1e-12, 1e-10),
            (Number::Dual2(x), 2) => cmp_dual2(x, &rd, &uni, 1e-12, 1e-10, 1e-9),
            _ => Err(format!("kind of {:?} does not match order {}", got, order)),
        };
        if let Err(e) = res {
            return Some((format!("sensitivity/{}/order{}{}", RULES[rule], order, if outside { "/outside-range" } else { "" }), format!("query {} (interval {}): {}", d, i, e)));
        }
        // index value
        match (cx.init.index_base, obj.index_value(&d)) {
            (None, Err(())) => {}
            (None, Ok(x)) => return Some(("index_value/no-base".into(), format!("returned {:?} without an index base", x))),
            (Some(_), Err(())) => return Some(("index_value/error".into(), "Err with an index base".into())),
            (Some(ib), Ok(x)) => {
                if *q < cx.xs[0] {
                    if f64::from(&x) != 0.0 {
                        return Some(("index_value/before-first-node".into(), format!("{:?}", x)));
                    }
                } else {
                    let want = RefDual::constant(ib).div(&rd);
                    if !finite(&want) {
                        // far extrapolation can underflow the curve value so that base / value (or its
                        // derivatives) overflows: outside the floating-point domain, not judged
                        continue;
                    }
                    let r = match (&x, order) {
                        (Number::F64(f), 0) => {
                            if close_scaled(*f, want.val.v, 1e-12, want.val.v.abs()) {
                                Ok(())
                            } else {
                                Err(format!("{:e} vs {:e}", f, want.val.v))
                            }
                        }
                        (Number::Dual(z), 1) => cmp_dual(z, &want.drop_hessian(), &uni, 1e-12, 1e-10),
                        (Number::Dual2(z), 2) => cmp_dual2(z, &want, &uni, 1e-12, 1e-10, 1e-9),
                        _ => Err(format!("kind of {:?} does not match order {}", x, order)),
                    };
                    if let Err(e) = r {
                        return Some((format!("index_value/order{}", order), format!("query {}: {}", d, e)));
                    }
                }
            }
        }
    }
    None
}

fn cmp_dual_local(x: &Dual, rd: &RefDual, local: &[String]) -> Result<(), String> {
    let g = x.gradient1(local.to_vec());
    for k in 0..2 {
        if !scaled_close(g[k], rd.val.g[k], 1e-10, rd.mag.g[k]) {
            return Err(format!("d/d{} = {:e} != {:e}", local[k], g[k], rd.val.g[k]));
        }
    }
    for v in x.vars().iter() {
        if !local.contains(v) {
            return Err(format!("carries {:?}, a node outside the interval", v));
        }
    }
    Ok(())
}
fn cmp_dual2_local(x: &Dual2, rd: &RefDual, local: &[String]) -> Result<(), String> {
    let g = x.gradient1(local.to_vec());
    let h = x.gradient2(local.to_vec());
    for k in 0..2 {
        if !scaled_close(g[k], rd.val.g[k], 1e-10, rd.mag.g[k]) {
            return Err(format!("d/d{} = {:e} != {:e}", local[k], g[k], rd.val.g[k]));
        }
        for l in 0..2 {
            if !scaled_close(h[[k, l]], rd.val.h[k][l], 1e-9, rd.mag.h[k][l]) {
                return Err(format!("d2/d{}d{} = {:e} != {:e}", local[k], local[l], h[[k, l]], rd.val.h[k][l]));
            }
        }
    }
    for v in x.vars().iter() {
        if !local.contains(v) {
            return Err(format!("carries {:?}, a node outside the interval", v));
        }
    }
    Ok(())
}

fn next_tags(tags: &Tags, from: u8, to: u8) -> Tags {
    if to == 0 {
        tags.iter().map(|_| None).collect()
    } else if from == 0 {
        (0..tags.len()).map(|k| Some((format!("{}{}", ID, k), 1.0))).collect()
    } else {
        tags.clone()
    }
}

fn apply(cx: &Ctxm, st: &St, o: u8) -> St {
    let mut obj = st.obj.clone();
    let mut bad = st.bad.clone();
    let ok = guarded(|| obj.set_ad_order(adorder(o)));
    let tags = next_tags(&st.tags, st.order, o);
    match ok {
        Err(m) => bad = Some(("panic".into(), m)),
        Ok(false) => bad = Some(("set_ad_order-error".into(), format!("switch {} -> {} returned Err", st.order, o))),
        Ok(true) => {
            if bad.is_none() {
                match guarded(|| examine(cx, &obj, &tags, o)) {
                    Ok(b) => {
                        bad = b.map(|(k, m)| {
                            let k2 = if (st.order == 1 && o == 2) || (st.order == 2 && o == 1) { format!("{}/after-{}to{}", k, st.order, o) } else { k };
                            (k2, m)
                        })
                    }
                    Err(m) => bad = Some(("panic".into(), m)),
                }
            }
        }
    }
    // the switch was applied to a clone: the curve it was cloned from must still be in its own state
    if bad.is_none() && state_key(&st.obj, &st.tags, &st.bad) != st.key {
        bad = Some(("clone-shares-state".into(), format!("the curve the clone was taken from changed when the clone was switched {} -> {}", st.order, o)));
    }
    let key = state_key(&obj, &tags, &bad);
    St { obj, tags, order: o, bad, key }
}

fn context(init: &Init) -> (Ctxm, St) {
    let (obj, tags, xs, ys) = build(init);
    let qs = queries(&xs);
    let mut flat = obj.clone();
    flat.set_ad_order(ADOrder::Zero);
    let vals0: Vec<f64> = qs.iter().map(|q| f64::from(flat.get(&ts_to_ndt(*q)))).collect();
    let cx = Ctxm { init: init.clone(), xs, ys, qs, vals0 };
    let order = obj.ad();
    let bad = examine(&cx, &obj, &tags, order).map(|(k, m)| (format!("initial/{}", k), m));
    let key = state_key(&obj, &tags, &bad);
    (cx, St { obj, tags, order, bad, key })
}

struct CurveModel {
    cx: Ctxm,
    init: St,
    transitions: Arc<AtomicU64>,
}
impl Model for CurveModel {
    type State = St;
    type Action = u8;
    fn init_states(&self) -> Vec<St> {
        vec![self.init.clone()]
    }
    fn actions(&self, s: &St, a: &mut Vec<u8>) {
        if s.bad.is_none() {
            a.extend([0u8, 1, 2]);
        }
    }
    fn next_state(&self, last: &St, a: u8) -> Option<St> {
        self.transitions.fetch_add(1, AO::Relaxed);
        Some(apply(&self.cx, last, a))
    }
    fn properties(&self) -> Vec<Property<Self>> {
        vec![Property::<Self>::always("curve oracles hold", |_, s: &St| s.bad.is_none())]
    }
}

pub fn check(case: &Case, idx: u64, acc: &mut Acc) {
    match case {
        Case::Explore { init } => {
            let (cx, st0) = context(init);
            let transitions = Arc::new(AtomicU64::new(0));
            let nq = cx.qs.len() as u64;
            let model = CurveModel { cx, init: st0.clone(), transitions: transitions.clone() };
            let checker = model.checker().threads(1).spawn_bfs().join();
            let states = checker.unique_state_count() as u64;
            let tr = transitions.load(AO::Relaxed);
            acc.states += states;
            acc.transitions += tr;
            acc.evals_add(tr * nq);
            acc.nontrivial += states;
            acc.outcome(&(states, tr, init.rule, init.node_kind, init.ctor, init.ad));
            if let Some(path) = checker.discoveries().get("curve oracles hold") {
                let sw: Vec<u8> = path.clone().into_actions();
                let (cx2, mut st) = context(init);
                for a in sw.iter() {
                    st = apply(&cx2, &st, *a);
                }
                let (k, m) = st.bad.clone().unwrap_or(("unreproduced".into(), "discovery did not reproduce".into()));
                acc.violate(&k, idx, serde_json::to_value(Case::History { init: init.clone(), switches: sw }).unwrap(), json!("all curve oracles hold"), json!(m));
            } else if !checker.is_done() {
                acc.violate("search-incomplete", idx, serde_json::to_value(case).unwrap(), json!("fixpoint"), json!("not done"));
            } else {
                acc.bump("fixpoints reached");
            }
            if idx % 131 == 0 {
                acc.sample(|| json!({"init": init, "states": states, "transitions": tr, "max_depth": checker.max_depth(), "example_history": [1, 2, 1, 0, 2]}));
            }
        }
        Case::PermutedVars { rule, py, second_order_nodes, switches } => {
            let cal = Cal::new(vec![], vec![5, 6]);
            let xs = node_times(&[1, 2, 0, 1]);
            let ys = [1.0, 0.97, 0.93, 0.9, 0.86];
            // gradients with respect to (a, b, c) of each node; the listing order of the names rotates / swaps per node
            let g: [[f64; 3]; 5] = [[1.0, 2.0, 0.5], [5.0, 3.0, 0.25], [7.0, 11.0, 13.0], [0.0, 4.0, 1.5], [2.5, 0.0, 6.0]];
            let orders: [[usize; 3]; 5] = [[0, 1, 2], [1, 0, 2], [2, 0, 1], [0, 1, 2], [2, 1, 0]];
            let nm = ["a", "b", "c"];
            let mk = |permuted: bool| -> Obj {
                let num = |k: usize| -> Number {
                    let o = if permuted { orders[k] } else { [0, 1, 2] };
                    let names: Vec<String> = o.iter().map(|i| nm[*i].to_string()).collect();
                    let grads: Vec<f64> = o.iter().map(|i| g[k][*i]).collect();
                    if *second_order_nodes {
                        Number::Dual2(Dual2::try_new(ys[k], names, grads, vec![]).unwrap())
                    } else {
                        Number::Dual(Dual::try_new(ys[k], names, grads).unwrap())
                    }
                };
                if *py {
                    let mut m: IndexMap<NaiveDateTime, Number> = IndexMap::new();
                    for k in 0..5 {
                        m.insert(ts_to_ndt(xs[k]), num(k));
                    }
                    Obj::Py(VerifCurve::new(m, interp_of(*rule as usize), adorder(if *second_order_nodes { 2 } else { 1 }), ID, Convention::Act360, Modifier::ModF, CalType::Cal(cal.clone()), None).unwrap())
                } else {
                    macro_rules! go {
                        ($variant:ident, $i:expr) => {{
                            let nodes = if *second_order_nodes {
                                Nodes::Dual2((0..5).map(|k| (ts_to_ndt(xs[k]), match num(k) { Number::Dual2(d) => d, _ => unreachable!() })).collect())
                            } else {
                                Nodes::Dual((0..5).map(|k| (ts_to_ndt(xs[k]), match num(k) { Number::Dual(d) => d, _ => unreachable!() })).collect())
                            };
                            Obj::$variant(CurveDF::try_new(nodes, $i, ID, Convention::Act360, Modifier::ModF, None, cal.clone()).unwrap())
                        }};
                    }
                    match rule {
                        0 => go!(Lin, LinearInterpolator::new()),
                        1 => go!(Log, LogLinearInterpolator::new()),
                        2 => go!(Lzr, LinearZeroRateInterpolator::new()),
                        3 => go!(Ff, FlatForwardInterpolator::new()),
                        _ => go!(Fb, FlatBackwardInterpolator::new()),
                    }
                }
            };
            let (mut subj, mut twin) = (mk(true), mk(false));
            let names: Vec<String> = nm.iter().map(|s| s.to_string()).collect();
            let mut qs: Vec<i64> = vec![];
            for w in xs.windows(2) {
                qs.push(w[0]);
                qs.push(w[0] + (w[1] - w[0]) / 3);
            }
            qs.push(xs[4]);
            acc.nontrivial();
            let cj = || serde_json::to_value(case).unwrap();
            let by_name = |x: &Number| -> (f64, Vec<f64>, Vec<f64>) {
                match x {
                    Number::F64(f) => (*f, vec![], vec![]),
                    Number::Dual(d) => (d.real(), d.gradient1(names.clone()).to_vec(), vec![]),
                    Number::Dual2(d) => (d.real(), d.gradient1(names.clone()).to_vec(), d.gradient2(names.clone()).iter().cloned().collect()),
                }
            };
            for step in 0..=switches.len() {
                if step > 0 {
                    let o = adorder(switches[step - 1]);
                    let (a, b) = (subj.set_ad_order(o), twin.set_ad_order(o));
                    if !a || !b {
                        acc.violate("permuted-vars/set_ad_order-refused", idx, cj(), json!("Ok"), json!([a, b]));
                        return;
                    }
                }
                // once a curve has been at order 0 its nodes carry automatic tags: the comparison by (a, b, c) then
                // sees zeros on both sides, and the tags are compared through the full variable lists below
                for q in qs.iter() {
                    acc.evals_add(2);
                    let (x, y) = (subj.get(&ts_to_ndt(*q)), twin.get(&ts_to_ndt(*q)));
                    let (kx, ky) = (by_name(&x), by_name(&y));
                    let same = kx.0.to_bits() == ky.0.to_bits()
                        && kx.1.len() == ky.1.len()
                        && kx.1.iter().zip(ky.1.iter()).all(|(p, q)| close_scaled(*p, *q, 1e-12, q.abs().max(1.0)))
                        && kx.2.len() == ky.2.len()
                        && kx.2.iter().zip(ky.2.iter()).all(|(p, q)| close_scaled(*p, *q, 1e-12, q.abs().max(1.0)));
                    acc.outcome(&(step, hash_f64s(&kx.1), *rule));
                    if !same {
                        acc.violate(&format!("permuted-vars/look-up-differs-from-twin/after-{}-switches", step.min(2)), idx, cj(), json!({"date_ts": q, "twin": format!("{:?}", ky)}), json!(format!("{:?}", kx)));
                        return;
                    }
                }
                // switches between first and second order keep the variable names already present - literally, also a
                // name whose sensitivity is zero
                if !switches[..step].contains(&0) {
                    for (obj, which) in [(&subj, "permuted"), (&twin, "twin")] {
                        for (k, (_, x)) in obj.nodes().iter().enumerate() {
                            acc.eval();
                            let mut have: Vec<String> = match x {
                                Number::F64(_) => vec![],
                                Number::Dual(d) => d.vars().iter().cloned().collect(),
                                Number::Dual2(d) => d.vars().iter().cloned().collect(),
                            };
                            have.sort();
                            if have != names {
                                acc.violate("permuted-vars/node-lost-or-gained-a-name", idx, cj(), json!({"node": k, "curve": which, "after_switches": &switches[..step], "want": names}), json!(have));
                                return;
                            }
                        }
                    }
                }
                for ((_, x), (_, y)) in subj.nodes().iter().zip(twin.nodes().iter()) {
                    acc.eval();
                    let (kx, ky) = (by_name(x), by_name(y));
                    if kx.0.to_bits() != ky.0.to_bits() || kx.1 != ky.1 || kx.2 != ky.2 {
                        acc.violate("permuted-vars/node-differs-from-twin", idx, cj(), json!(format!("{:?}", ky)), json!(format!("{:?}", kx)));
                        return;
                    }
                }
            }
            if idx % 53 == 0 {
                acc.sample(cj);
            }
        }
        Case::IdHistory { id_a, n_a, id_b, n_b, py } => {
            let cal = Cal::new(vec![], vec![5, 6]);
            let mk = |id: &str, n: usize| -> Obj {
                let xs = grid_times(n, 1, 1);
                if *py {
                    let m: IndexMap<NaiveDateTime, Number> = (0..n).map(|k| (ts_to_ndt(xs[k]), Number::F64(1.0 - 0.001 * k as f64))).collect();
                    Obj::Py(VerifCurve::new(m, interp_of(1), ADOrder::Zero, id, Convention::Act360, Modifier::ModF, CalType::Cal(cal.clone()), None).unwrap())
                } else {
                    let nodes = Nodes::F64((0..n).map(|k| (ts_to_ndt(xs[k]), 1.0 - 0.001 * k as f64)).collect());
                    Obj::Log(CurveDF::try_new(nodes, LogLinearInterpolator::new(), id, Convention::Act360, Modifier::ModF, None, cal.clone()).unwrap())
                }
            };
            let tags_ok = |o: &Obj, id: &str| -> Result<(), String> {
                for (k, (_, v)) in o.nodes().iter().enumerate() {
                    let want = format!("{}{}", id, k);
                    let got: Vec<String> = match v {
                        Number::Dual(x) => x.vars().iter().cloned().collect(),
                        Number::Dual2(x) => x.vars().iter().cloned().collect(),
                        Number::F64(_) => vec![],
                    };
                    if got != vec![want.clone()] {
                        return Err(format!("node {} of curve {:?} is tagged {:?}, not {:?}", k, id, got, want));
                    }
                }
                Ok(())
            };
            acc.nontrivial();
            let r = guarded(|| {
                let (mut a, mut b) = (mk(id_a, *n_a), mk(id_b, *n_b));
                let mut errs: Vec<String> = vec![];
                for (step, which, order) in [(0, 0, 1u8), (1, 1, 1), (2, 0, 2), (3, 1, 2), (4, 0, 1)] {
                    let (o, id) = if which == 0 { (&mut a, id_a) } else { (&mut b, id_b) };
                    if !o.set_ad_order(adorder(order)) {
                        errs.push(format!("step {}: set_ad_order failed", step));
                        continue;
                    }
                    if let Err(e) = tags_ok(o, id) {
                        errs.push(format!("step {}: {}", step, e));
                    }
                }
                // a fresh pair built directly at order 1 through the constructor
                errs
            });
            acc.evals_add(5);
            match r {
                Err(m) => acc.violate("id-history/panic", idx, serde_json::to_value(case).unwrap(), json!("tags"), json!(m)),
                Ok(errs) => {
                    if let Some(e) = errs.first() {
                        acc.violate("id-history/node-tag", idx, serde_json::to_value(case).unwrap(), json!("'<curve id><i>' on every node of both curves"), json!(e));
                    }
                }
            }
            if idx % 97 == 0 {
                acc.sample(|| serde_json::to_value(case).unwrap());
            }
        }
        Case::ManyNodes { rule, n, ctor, reversed_supply, grid } => {
            let rule_u = *rule as usize;
            let xs = grid_times(*n, *grid, 5);
            let ys: Vec<f64> = (0..*n).map(|k| VSETS[0][k % 6] * (1.0 - 0.003 * k as f64)).collect();
            let order: Vec<usize> = if *reversed_supply { (0..*n).rev().collect() } else { (0..*n).collect() };
            let cal = Cal::new(vec![], vec![5, 6]);
            let mut obj = if *ctor == 0 {
                let nodes = Nodes::F64(order.iter().map(|k| (ts_to_ndt(xs[*k]), ys[*k])).collect());
                match rule_u {
                    0 => Obj::Lin(CurveDF::try_new(nodes, LinearInterpolator::new(), ID, Convention::Act360, Modifier::ModF, Some(100.0), cal).unwrap()),
                    1 => Obj::Log(CurveDF::try_new(nodes, LogLinearInterpolator::new(), ID, Convention::Act360, Modifier::ModF, Some(100.0), cal).unwrap()),
                    2 => Obj::Lzr(CurveDF::try_new(nodes, LinearZeroRateInterpolator::new(), ID, Convention::Act360, Modifier::ModF, Some(100.0), cal).unwrap()),
                    3 => Obj::Ff(CurveDF::try_new(nodes, FlatForwardInterpolator::new(), ID, Convention::Act360, Modifier::ModF, Some(100.0), cal).unwrap()),
                    _ => Obj::Fb(CurveDF::try_new(nodes, FlatBackwardInterpolator::new(), ID, Convention::Act360, Modifier::ModF, Some(100.0), cal).unwrap()),
                }
            } else {
                let m: IndexMap<NaiveDateTime, Number> = order.iter().map(|k| (ts_to_ndt(xs[*k]), Number::F64(ys[*k]))).collect();
                Obj::Py(VerifCurve::new(m, interp_of(rule_u), ADOrder::Zero, ID, Convention::Act360, Modifier::ModF, CalType::Cal(cal), Some(100.0)).unwrap())
            };
            let qs = queries(&xs);
            let vals0: Vec<f64> = qs.iter().map(|q| f64::from(obj.get(&ts_to_ndt(*q)))).collect();
            let all_names: Vec<String> = (0..*n).map(|k| format!("{}{}", ID, k)).collect();
            acc.nontrivial();
            for o in [1u8, 2, 1, 0, 2] {
                acc.eval();
                if !obj.set_ad_order(adorder(o)) || obj.ad() != o {
                    acc.violate("many-nodes/set_ad_order", idx, serde_json::to_value(case).unwrap(), json!(o), json!(obj.ad()));
                    return;
                }
                // node tags in date order
                for (k, (d, v)) in obj.nodes().iter().enumerate() {
                    let ok = d.and_utc().timestamp() == xs[k]
                        && match (v, o) {
                            (Number::F64(f), 0) => f.to_bits() == ys[k].to_bits(),
                            (Number::Dual(x), 1) => x.real().to_bits() == ys[k].to_bits() && x.vars().iter().cloned().collect::<Vec<_>>() == vec![all_names[k].clone()] && x.dual().to_vec() == vec![1.0],
                            (Number::Dual2(x), 2) => x.real().to_bits() == ys[k].to_bits() && x.vars().iter().cloned().collect::<Vec<_>>() == vec![all_names[k].clone()] && x.dual().to_vec() == vec![1.0] && x.dual2().iter().all(|z| *z == 0.0),
                            _ => false,
                        };
                    if !ok {
                        acc.violate("many-nodes/node-tag", idx, serde_json::to_value(case).unwrap(), json!({"node": k, "order": o, "want_name": all_names[k]}), json!(format!("{} {:?}", d, v)));
                        return;
                    }
                }
                for (qi, q) in qs.iter().enumerate() {
                    acc.eval();
                    let got = obj.get(&ts_to_ndt(*q));
                    let i = interval_of(&xs, *q);
                    let local = vec![all_names[i].clone(), all_names[i + 1].clone()];
                    let rd = closed_form::<RefDual>(rule_u, xs[0], xs[i], &RefDual::leaf(ys[i], &[(0, 1.0)]), xs[i + 1], &RefDual::leaf(ys[i + 1], &[(1, 1.0)]), *q);
                    let others: Vec<String> = all_names.iter().enumerate().filter(|(k, _)| *k != i && *k != i + 1).map(|(_, s)| s.clone()).collect();
                    let res: Result<(), String> = if !close_scaled(f64::from(&got), vals0[qi], 1e-14, vals0[qi].abs()) {
                        Err(format!("value {:e} vs float curve {:e}", f64::from(&got), vals0[qi]))
                    } else {
                        match (&got, o) {
                            (Number::F64(_), 0) => Ok(()),
                            (Number::Dual(x), 1) => {
                                if x.gradient1(others.clone()).iter().any(|z| *z != 0.0) {
                                    Err("non-zero sensitivity to a node outside the interval".into())
                                } else {
                                    cmp_dual_local(x, &rd, &local)
                                }
                            }
                            (Number::Dual2(x), 2) => {
                                if x.gradient1(others.clone()).iter().any(|z| *z != 0.0) {
                                    Err("non-zero sensitivity to a node outside the interval".into())
                                } else {
                                    cmp_dual2_local(x, &rd, &local)
                                }
                            }
                            _ => Err(format!("kind of {:?} does not match order {}", got, o)),
                        }
                    };
                    if let Err(e) = res {
                        acc.violate(&format!("many-nodes/look-up/{}/order{}", RULES[rule_u], o), idx, serde_json::to_value(case).unwrap(), json!({"query_ts": q, "interval": i}), json!(e));
                        return;
                    }
                }
            }
            acc.sample(|| serde_json::to_value(case).unwrap());
        }
        Case::History { init, switches } => {
            let (cx, mut st) = context(init);
            if let Some((k, m)) = &st.bad {
                acc.violate(k, idx, serde_json::to_value(case).unwrap(), json!("all curve oracles hold"), json!(m));
                return;
            }
            for a in switches {
                acc.eval();
                st = apply(&cx, &st, *a);
                if let Some((k, m)) = &st.bad {
                    acc.violate(k, idx, serde_json::to_value(case).unwrap(), json!("all curve oracles hold"), json!(m));
                    return;
                }
            }
        }
    }
}

pub fn cases(tier: Tier) -> Vec<Case> {
    let mut out = vec![];
    // nodes on shared variables listed in different orders: every switch sequence of length <= 3 (thorough: 4)
    {
        let maxlen = tier.pick(3usize, 4usize);
        let mut seqs: Vec<Vec<u8>> = vec![vec![]];
        let mut frontier: Vec<Vec<u8>> = vec![vec![]];
        for _ in 0..maxlen {
            let mut next = vec![];
            for f in frontier.iter() {
                for o in 0..3u8 {
                    let mut t = f.clone();
                    t.push(o);
                    next.push(t);
                }
            }
            frontier = next;
        }
        seqs = frontier; // (sequences of full length: every prefix is judged on the way)
        for rule in 0..5u8 {
            for py in [false, true] {
                for second_order_nodes in [false, true] {
                    for sw in seqs.iter() {
                        out.push(Case::PermutedVars { rule, py, second_order_nodes, switches: sw.clone() });
                    }
                }
            }
        }
    }
    let gap_sets: Vec<Vec<u8>> = tier.pick(
        vec![vec![1], vec![2, 1], vec![0, 2, 1], vec![1, 3, 0, 2]],
        vec![vec![1], vec![0], vec![2, 1], vec![0, 3], vec![0, 2, 1], vec![3, 0, 1], vec![1, 3, 0, 2], vec![2, 2, 1, 0]],
    );
    for gaps in gap_sets {
        let n = gaps.len() + 1;
        let mut supplies: Vec<Vec<usize>> = vec![(0..n).collect(), (0..n).rev().collect()];
        if n >= 3 {
            let mut s: Vec<usize> = (0..n).collect();
            s.rotate_left(1);
            s.swap(0, n - 1);
            supplies.push(s);
        }
        if tier == Tier::Thorough && n <= 4 {
            supplies = permutations(n);
        }
        for rule in 0..5u8 {
            for vset in tier.pick(vec![0u8, 2, 3], vec![0u8, 1, 2, 3]) {
                for supply in supplies.iter() {
                    for ib in [None, Some(110.0)] {
                        for nk in 0..3u8 {
                            out.push(Case::Explore { init: Init { rule, ctor: 0, node_kind: nk, ad: nk, gaps: gaps.clone(), vset, supply: supply.clone(), index_base: ib } });
                        }
                        for nk in 0..4u8 {
                            for ad in 0..3u8 {
                                out.push(Case::Explore { init: Init { rule, ctor: 1, node_kind: nk, ad, gaps: gaps.clone(), vset, supply: supply.clone(), index_base: ib } });
                            }
                        }
                    }
                }
            }
        }
    }
    // curve ids and node counts whose concatenations collide ("eur" + "12" vs "eur1" + "2"), ids ending in digits,
    // the empty id, ids with multi-byte characters: every ordered pair of configurations
    {
        let ids = ["eur", "eur1", "eur12", "1", "", "\u{20ac}str", "\u{fc}node", "a b"];
        let counts = [2usize, 3, 11, 12, 21, 112];
        let mut cfgs: Vec<(String, usize)> = vec![];
        for id in ids {
            for n in counts {
                if n > 100 && !(id == "eur" || id == "1") {
                    continue;
                }
                cfgs.push((id.to_string(), n));
            }
        }
        for (i, a) in cfgs.iter().enumerate() {
            for (j, b) in cfgs.iter().enumerate() {
                out.push(Case::IdHistory { id_a: a.0.clone(), n_a: a.1, id_b: b.0.clone(), n_b: b.1, py: (i + j) % 2 == 1 });
            }
        }
    }
    for n in [9usize, 10, 11, 12, 16, 17, 24, 33, 101, 112, 130, 210, 256, 257, 300] {
        for rule in 0..5u8 {
            for ctor in 0..2u8 {
                for (rev, grid) in [(false, 0u8), (true, 0), (false, 1), (true, 2), (false, 3), (true, 4), (false, 5)] {
                    if n > 40 && (rule % 2 == 1) != (ctor == 1) {
                        continue;
                    }
                    out.push(Case::ManyNodes { rule, n, ctor, reversed_supply: rev, grid });
                }
            }
        }
    }
    out
}

pub fn run(ctx: &Ctx, replay_file: Option<String>) -> ! {
    if let Some(f) = replay_file {
        replay::<Case, _>(ctx, &f, check);
    }
    let cs = cases(ctx.tier);
    let acc = explore(&cs, check);
    let nexp = cs.iter().filter(|c| matches!(c, Case::Explore { .. })).count() as u64;
    let fix = acc.breakdown.get("fixpoints reached").copied().unwrap_or(0);
    let mut meta = Meta::exploration(
        "explicit-state breadth-first search (stateright) over the REAL curve object (CurveDF with each typed \
         interpolator, and the Python-facing Curve through the hook), state = the object keyed by its complete node \
         content (dates, values, variable names, gradients, Hessians) and reported order; actions set_ad_order(0|1|2) \
         enabled in every state; initial states: 5 rules x node sets of 2-5 nodes x value sets x supply orders (sorted, \
         reversed, scrambled) x {float nodes, Dual nodes with own names and non-unit gradient, Dual2 nodes, mixed \
         float/Dual} x constructor order 0/1/2 x with/without index base. Each search runs to its fixpoint, so every \
         switch sequence of any length is covered. In every state: ad() reports the order; nodes are in date order, \
         keep their values, and carry exactly the expected name ('<id><i>' with i the date-order index for float-origin \
         nodes, the node's own name otherwise; kept across 1<->2) with the expected gradient and zero Hessian; every \
         look-up (all query dates of C11) equals the float curve's value to 1e-14 and has gradient and Hessian, read \
         back by name, equal to the RefDual derivatives of the rule's closed form w.r.t. the two node values used and \
         exactly zero for every other node; index_value = base / value as a number of the curve's order, 0 before the \
         first node, Err without a base. In addition float curves of 9, 10, 11, 12, 16, 17, 24, 33, 101, 112, 130, 210, 256, 257, 300 nodes (two- and three-digit tag \
         names; uneven, evenly spaced, and evenly spaced with displaced interior nodes) are taken through the switch sequence 1, 2, 1, 0, 2 with the same checks on every node and look-up; and every ordered pair of (curve id, node count) configurations from 8 ids (colliding concatenations, trailing digits, empty, multi-byte) x 6 counts is switched A, B, A, B, A on one thread with every node tag checked.",
        json!({"initial_states": nexp, "fixpoints_reached": fix}),
    );
    meta.level = "model_checking";
    meta = meta.with("fixpoint_reached", json!(fix == nexp)).assume("closed forms and RefDual model; node values from fixed tables");
    if fix != nexp && acc.violations.is_empty() {
        machinery_fail("a search did not reach its fixpoint");
    }
    finish(ctx, acc, meta)
}
