//! C03 Derivatives are tracked by variable name, whatever the internal layout.
use crate::common::*;
use crate::refdual::*;
use crate::spec::*;
use rateslib::dual::{Dual, Dual2, Vars, VarsRelationship};
use serde::{Deserialize, Serialize};
use serde_json::json;

#[derive(Clone, Debug, Serialize, Deserialize)]
pub struct Case {
    pub nuni: usize,
    pub a: NumSpec,
    pub b: NumSpec,
    /// 0: independent variable lists; 1: b re-built on a's list (shared Arc); 2: a re-built on b's
    pub storage: u8,
    /// when present this is a LARGE-layout case: `size` names, b's list derived from a's by `relation`
    #[serde(default)]
    pub large: Option<(usize, u8)>,
}

const TOL: f64 = 1e-12;

/// derivative value for a name: depends on the name (and on the side unless `eq_mode`), never on
/// the position in the list.
fn gval(name: usize, side: usize, eq_mode: bool) -> f64 {
    gen_val(name + if eq_mode { 0 } else { side * 5 })
}
fn hval(i: usize, j: usize, side: usize, eq_mode: bool) -> f64 {
    let (lo, hi) = if i <= j { (i, j) } else { (j, i) };
    gen_val(3 + lo * 4 + hi + if eq_mode { 0 } else { side * 7 }) * 0.5
}

/// every operand: ordered list of distinct names x zero/non-zero pattern x {no Hessian, full Hessian}
fn operands(nuni: usize, v: f64, side: usize, eq_mode: bool) -> Vec<NumSpec> {
    let mut out = vec![];
    for list in ordered_sublists(nuni) {
        let n = list.len();
        for pat in 0..(1u32 << n) {
            let g: Vec<f64> = (0..n).map(|k| if pat & (1 << k) != 0 { gval(list[k], side, eq_mode) } else { 0.0 }).collect();
            for hv in 0..2 {
                if hv == 1 && n == 0 {
                    continue;
                }
                let h: Vec<f64> = if hv == 0 {
                    vec![]
                } else {
                    let mut h = vec![0.0; n * n];
                    for i in 0..n {
                        for j in 0..n {
                            h[i * n + j] = hval(list[i], list[j], side, eq_mode);
                        }
                    }
                    h
                };
                out.push(NumSpec { v, names: list.clone(), g: g.clone(), h });
            }
        }
    }
    out
}

fn subset(x: &[usize], y: &[usize]) -> bool {
    x.iter().all(|i| y.contains(i))
}

fn cases(tier: Tier) -> Vec<Case> {
    let nuni = tier.pick(3, 4);
    let mut out = vec![];
    // (a value, b value, eq_mode)
    for (va, vb, eq_mode) in [(1.5, -2.5, false), (1.5, 1.5, true)] {
        let la = operands(nuni, va, 0, eq_mode);
        let lb = operands(nuni, vb, 1, eq_mode);
        for a in la.iter() {
            for b in lb.iter() {
                out.push(Case { nuni, a: a.clone(), b: b.clone(), storage: 0, large: None });
                if subset(&b.names, &a.names) {
                    out.push(Case { nuni, a: a.clone(), b: b.clone(), storage: 1, large: None });
                }
                if subset(&a.names, &b.names) {
                    out.push(Case { nuni, a: a.clone(), b: b.clone(), storage: 2, large: None });
                }
            }
        }
    }
    if tier == Tier::Quick {
        // four names, unshared storage, generic derivative values (the thorough tier runs the full four-name space)
        let la = operands(4, 1.5, 0, false);
        let lb = operands(4, -2.5, 1, false);
        for a in la.iter().filter(|x| x.g.iter().all(|g| *g != 0.0)) {
            for b in lb.iter().filter(|x| x.g.iter().all(|g| *g != 0.0)) {
                out.push(Case { nuni: 4, a: a.clone(), b: b.clone(), storage: 0, large: None });
            }
        }
    }
    // a menu of LARGE layouts (sizes around powers of two), each relation of b's list to a's
    for size in [7usize, 8, 9, 15, 16, 17, 33, 63, 64, 65, 70, 130, 257] {
        for relation in 0..10u8 {
            out.push(Case { nuni: 0, a: NumSpec::constant(1.5), b: NumSpec::constant(-2.5), storage: 0, large: Some((size, relation)) });
        }
    }
    // sequential history passes (relation code 100: first order, 101: second order)
    for rel in [100u8, 101, 102, 103, 104, 105] {
        out.push(Case { nuni: 4, a: NumSpec::constant(1.5), b: NumSpec::constant(-2.5), storage: 0, large: Some((0, rel)) });
    }
    out
}

/// b's names derived from a's (0..size): 0 same order, 1 rotated by 3, 2 reversed, 3 every other name (subset),
/// 4 superset (all + 2 extras, interleaved), 5 disjoint, 6 overlapping half shifted
fn large_lists(size: usize, relation: u8) -> (Vec<usize>, Vec<usize>) {
    let a: Vec<usize> = (0..size).collect();
    let b: Vec<usize> = match relation {
        0 => a.clone(),
        1 => (0..size).map(|i| (i + 3) % size).collect(),
        2 => (0..size).rev().collect(),
        3 => (0..size).filter(|i| i % 2 == 1).collect(),
        4 => {
            let mut v: Vec<usize> = vec![size];
            v.extend((0..size).map(|i| (i * 2 + 1) % size).collect::<std::collections::BTreeSet<usize>>());
            v.extend((0..size).filter(|i| (i * 2 + 1) % size != *i && !(0..size).map(|k| (k * 2 + 1) % size).any(|x| x == *i)));
            v.push(size + 1);
            v
        }
        5 => (size..2 * size).collect(),
        6 => (size / 2..size / 2 + size).rev().collect(),
        7 => {
            // first and last name fixed, the middle reversed
            let mut v: Vec<usize> = (0..size).collect();
            v[1..size - 1].reverse();
            v
        }
        9 => {
            // the same list with interior names replaced by NEW names: neither list contains the other, the first
            // name and the name at the last position coincide
            let mut v: Vec<usize> = (0..size).collect();
            v[1] = size;
            if size > 4 {
                v[size / 2] = size + 1;
            }
            v
        }
        _ => {
            // subset keeping the first and the last name, middle names thinned out and swapped pairwise
            let mut v: Vec<usize> = (0..size).filter(|i| *i == 0 || *i == size - 1 || i % 3 != 1).collect();
            let m = v.len();
            let mut k = 1;
            while k + 1 < m - 1 {
                v.swap(k, k + 1);
                k += 2;
            }
            v
        }
    };
    (a, b)
}

fn check_large(size: usize, relation: u8, case: &Case, idx: u64, acc: &mut Acc) {
    use crate::dynref::DR;
    use rateslib::dual::{Gradient1, Gradient2};
    let (la, lb) = large_lists(size, relation);
    let nv = 2 * size + 2;
    let heavy = size > 40; // Hessians of 130+ names: first order and one second-order product only
    let uni: Vec<String> = (0..nv).map(|i| format!("n{}", i)).collect();
    // deliberately non-dyadic values (sums of them depend on the order of summation in the last bit)
    let gv = |name: usize, side: usize| gen_val(name * 3 + side * 5 + 1) + 1.0 / (3.0 + name as f64 + 0.5 * side as f64);
    let hv = |i: usize, j: usize, side: usize| if i == j || i + 1 == j || j + 1 == i || (i.min(j) == 0 && i.max(j) % 5 == 4) { 0.25 * gen_val(i + j + side) } else { 0.0 };
    let mk_ref = |l: &Vec<usize>, v: f64, side: usize, second: bool| -> DR {
        let mut d = DR::zero(nv);
        d.v = v;
        for n in l {
            d.g[*n] = gv(*n, side);
        }
        if second {
            for a in l {
                for b in l {
                    d.h[a * nv + b] = hv(*a, *b, side);
                }
            }
        }
        d
    };
    let names = |l: &Vec<usize>| -> Vec<String> { l.iter().map(|i| uni[*i].clone()).collect() };
    let cj = || serde_json::to_value(case).unwrap();
    // first order
    {
        let a = Dual::try_new(1.5, names(&la), la.iter().map(|n| gv(*n, 0)).collect()).unwrap();
        let b = Dual::try_new(-2.5, names(&lb), lb.iter().map(|n| gv(*n, 1)).collect()).unwrap();
        let cls = class_name(&a.vars_cmp(b.vars()));
        acc.bump(&format!("large/Dual/{}", cls));
        acc.nontrivial();
        let (ra, rb) = (mk_ref(&la, 1.5, 0, false), mk_ref(&lb, -2.5, 1, false));
        let wants: [(&str, DR); 4] = [("add", ra.add(&rb, 1.0)), ("sub", ra.add(&rb, -1.0)), ("mul", ra.mul(&rb)), ("div", ra.mul(&rb.recip()))];
        for (op, w) in wants.iter() {
            for own in [false, true] {
                acc.eval();
                let got: Dual = match (*op, own) {
                    ("add", false) => &a + &b,
                    ("add", true) => a.clone() + b.clone(),
                    ("sub", false) => &a - &b,
                    ("sub", true) => a.clone() - b.clone(),
                    ("mul", false) => &a * &b,
                    ("mul", true) => a.clone() * b.clone(),
                    (_, false) => &a / &b,
                    (_, true) => a.clone() / b.clone(),
                };
                let g = got.gradient1(uni.clone());
                let mut bad = !close(got.real(), w.v, 1e-12) || got.dual().len() != got.vars().len();
                for i in 0..nv {
                    if !close_scaled(g[i], w.g[i], 1e-12, w.g[i].abs().max(1.0)) {
                        bad = true;
                    }
                }
                let mut want_names: Vec<usize> = la.clone();
                want_names.extend(lb.iter().filter(|x| !la.contains(x)));
                let got_set: std::collections::BTreeSet<String> = got.vars().iter().cloned().collect();
                if got_set != want_names.iter().map(|i| uni[*i].clone()).collect() || got.vars().len() != got_set.len() {
                    bad = true;
                }
                if bad {
                    acc.violate(&format!("large/Dual/{}/{}", op, cls), idx, cj(), json!({"size": size, "relation": relation, "want_value": w.v}), json!(format!("{:?}", got)));
                }
            }
        }
        acc.evals_add(2);
        let eq_want = la.iter().all(|n| lb.contains(n) && gv(*n, 0) == gv(*n, 1)) && lb.iter().all(|n| la.contains(n)) && false;
        if (a == b) != eq_want || (b == a) != eq_want {
            acc.violate(&format!("large/Dual/eq/{}", cls), idx, cj(), json!(eq_want), json!(a == b));
        }
        // equal by name, different order / padded with zero derivatives
        let b_same = Dual::try_new(1.5, names(&lb), lb.iter().map(|n| if la.contains(n) { gv(*n, 0) } else { 0.0 }).collect()).unwrap();
        let covers = la.iter().all(|n| lb.contains(n));
        if covers && !(a == b_same && b_same == a) {
            acc.violate(&format!("large/Dual/eq-by-name/{}", cls), idx, cj(), json!(true), json!(false));
        }
    }
    // second order
    {
        let hflat = |l: &Vec<usize>, side: usize| -> Vec<f64> {
            let mut h = vec![];
            for a in l {
                for b in l {
                    h.push(0.5 * hv(*a, *b, side));
                }
            }
            h
        };
        let a = Dual2::try_new(1.5, names(&la), la.iter().map(|n| gv(*n, 0)).collect(), hflat(&la, 0)).unwrap();
        let b = Dual2::try_new(-2.5, names(&lb), lb.iter().map(|n| gv(*n, 1)).collect(), hflat(&lb, 1)).unwrap();
        let cls = class_name(&a.vars_cmp(b.vars()));
        let (ra, rb) = (mk_ref(&la, 1.5, 0, true), mk_ref(&lb, -2.5, 1, true));
        let mut wants: Vec<(&str, DR)> = vec![("add", ra.add(&rb, 1.0)), ("mul", ra.mul(&rb))];
        if !heavy {
            wants.push(("sub", ra.add(&rb, -1.0)));
            wants.push(("div", ra.mul(&rb.recip())));
        }
        for (op, w) in wants.iter() {
            acc.eval();
            let got: Dual2 = match *op {
                "add" => &a + &b,
                "sub" => &a - &b,
                "mul" => &a * &b,
                _ => &a / &b,
            };
            let g = got.gradient1(uni.clone());
            let h = got.gradient2(uni.clone());
            let n = got.vars().len();
            let mut bad = !close(got.real(), w.v, 1e-12) || got.dual().len() != n || got.dual2().shape() != [n, n];
            let hs = w.h.iter().fold(1.0_f64, |m, x| m.max(x.abs()));
            for i in 0..nv {
                if !close_scaled(g[i], w.g[i], 1e-12, w.g[i].abs().max(1.0)) {
                    bad = true;
                }
                for j in 0..nv {
                    if !close_scaled(h[[i, j]], w.h[i * nv + j], 1e-12, hs) {
                        bad = true;
                    }
                }
            }
            if bad {
                acc.violate(&format!("large/Dual2/{}/{}", op, cls), idx, cj(), json!({"size": size, "relation": relation, "want_value": w.v}), json!(format!("{:?}", got.real())));
            }
        }
        let b_same = Dual2::try_new(1.5, names(&lb), lb.iter().map(|n| if la.contains(n) { gv(*n, 0) } else { 0.0 }).collect(), {
            let mut h = vec![];
            for x in lb.iter() {
                for y in lb.iter() {
                    h.push(if la.contains(x) && la.contains(y) { 0.5 * hv(*x, *y, 0) } else { 0.0 });
                }
            }
            h
        })
        .unwrap();
        let covers = la.iter().all(|n| lb.contains(n));
        if covers && !(a == b_same && b_same == a) {
            acc.violate(&format!("large/Dual2/eq-by-name/{}", cls), idx, cj(), json!(true), json!(false));
        }
    }
    // remainder, sums and float operands on large numbers
    if relation == 0 || relation == 2 {
        let hflat = |l: &Vec<usize>, side: usize| -> Vec<f64> {
            let mut h = vec![];
            for a in l {
                for b in l {
                    h.push(0.5 * hv(*a, *b, side));
                }
            }
            h
        };
        // float on either side, remainder and a three-term sum (first and second order)
        {
            acc.evals_add(6);
            let a1 = Dual::try_new(7.5, names(&la), la.iter().map(|n| gv(*n, 0)).collect()).unwrap();
            let b1 = Dual::try_new(-2.0, names(&lb), lb.iter().map(|n| gv(*n, 1)).collect()).unwrap();
            let a2 = Dual2::try_new(7.5, names(&la), la.iter().map(|n| gv(*n, 0)).collect(), hflat(&la, 0)).unwrap();
            let b2 = Dual2::try_new(-2.0, names(&lb), lb.iter().map(|n| gv(*n, 1)).collect(), hflat(&lb, 1)).unwrap();
            let (ra, rb) = (mk_ref(&la, 7.5, 0, true), mk_ref(&lb, -2.0, 1, true));
            // 7.5 % -2.0 : quotient -3 (truncated), remainder 1.5 ; derivatives a' + 3 b'
            let wrem = ra.add(&rb, 3.0);
            let wsum = ra.add(&rb, 1.0).add(&ra, 1.0);
            let wfl = ra.add(&DR::leaf(nv, 0.0, None), 1.0); // a + 0.25 - 0.25 ... used for shape only
            let _ = wfl;
            let judge1 = |got: &Dual, w: &DR| -> bool {
                let g = got.gradient1(uni.clone());
                close(got.real(), w.v, 1e-12) && (0..nv).all(|i| close_scaled(g[i], w.g[i], 1e-12, w.g[i].abs().max(1.0)))
            };
            let judge2 = |got: &Dual2, w: &DR| -> bool {
                let g = got.gradient1(uni.clone());
                let h = got.gradient2(uni.clone());
                let hs = w.h.iter().fold(1.0_f64, |m, x| m.max(x.abs()));
                close(got.real(), w.v, 1e-12)
                    && (0..nv).all(|i| close_scaled(g[i], w.g[i], 1e-12, w.g[i].abs().max(1.0)))
                    && (0..nv).all(|i| (0..nv).all(|j| close_scaled(h[[i, j]], w.h[i * nv + j], 1e-12, hs)))
            };
            if !judge1(&(&a1 % &b1), &wrem) {
                acc.violate("large/Dual/rem", idx, cj(), json!({"size": size, "relation": relation, "want": "a - trunc(a/b) b by name"}), json!(format!("{:?}", &a1 % &b1)));
            }
            if !judge2(&(&a2 % &b2), &wrem) {
                acc.violate("large/Dual2/rem", idx, cj(), json!({"size": size, "relation": relation}), json!((&a2 % &b2).real()));
            }
            let s1: Dual = vec![a1.clone(), b1.clone(), a1.clone()].into_iter().sum();
            if !judge1(&s1, &wsum) {
                acc.violate("large/Dual/sum", idx, cj(), json!({"size": size, "relation": relation}), json!(format!("{:?}", s1)));
            }
            let s2: Dual2 = vec![a2.clone(), b2.clone(), a2.clone()].into_iter().sum();
            if !judge2(&s2, &wsum) {
                acc.violate("large/Dual2/sum", idx, cj(), json!({"size": size, "relation": relation}), json!(s2.real()));
            }
            // float operand on either side: (2.0 * a - 0.5) / 4.0 + 1.0 / a
            let wmix = ra.add(&DR::leaf(nv, 0.0, None), 1.0);
            let mut wm = DR { v: (2.0 * wmix.v - 0.5) / 4.0, g: wmix.g.iter().map(|x| x * 0.5).collect(), h: wmix.h.iter().map(|x| x * 0.5).collect() };
            wm = wm.add(&ra.recip(), 1.0);
            let m1 = (2.0 * &a1 - 0.5) / 4.0 + 1.0 / &a1;
            if !judge1(&m1, &wm) {
                acc.violate("large/Dual/float-operands", idx, cj(), json!({"size": size}), json!(format!("{:?}", m1)));
            }
            let m2 = (2.0 * &a2 - 0.5) / 4.0 + 1.0 / &a2;
            if !judge2(&m2, &wm) {
                acc.violate("large/Dual2/float-operands", idx, cj(), json!({"size": size}), json!(m2.real()));
            }
        }
    }
    acc.sample(cj);
}

fn class_name(c: &VarsRelationship) -> &'static str {
    match c {
        VarsRelationship::ArcEquivalent => "ArcEquivalent",
        VarsRelationship::ValueEquivalent => "ValueEquivalent",
        VarsRelationship::Superset => "Superset",
        VarsRelationship::Subset => "Subset",
        VarsRelationship::Difference => "Difference",
    }
}

fn ref_eq(x: &RefDual, y: &RefDual, second: bool) -> bool {
    if x.val.v != y.val.v {
        return false;
    }
    for i in 0..N {
        if x.val.g[i] != y.val.g[i] {
            return false;
        }
        if second {
            for j in 0..N {
                if x.val.h[i][j] != y.val.h[i][j] {
                    return false;
                }
            }
        }
    }
    true
}

fn names_ok(result_mask: u8, want_mask: u8) -> bool {
    result_mask == want_mask
}

/// history independence: on ONE thread, operands on every ordered list of distinct names over 4 names are combined
/// pair by pair, each built fresh and dropped before the next (65 x 65 ordered pairs of layouts, then the same again
/// backwards) - any remembered alignment, union or look-up meets more distinct layouts than a small cache holds
fn check_sequence(second: bool, case: &Case, idx: u64, acc: &mut Acc) {
    let u = universe(4);
    let cj = || serde_json::to_value(case).unwrap();
    let lists = ordered_sublists(4);
    let spec = |list: &Vec<usize>, v: f64, side: usize| -> NumSpec {
        let n = list.len();
        let g: Vec<f64> = (0..n).map(|k| gval(list[k], side, false)).collect();
        let mut h = vec![0.0; n * n];
        for i in 0..n {
            for j in 0..n {
                h[i * n + j] = hval(list[i], list[j], side, false);
            }
        }
        NumSpec { v, names: list.clone(), g, h: if second { h } else { vec![] } }
    };
    let mut order: Vec<(usize, usize)> = vec![];
    for i in 0..lists.len() {
        for j in 0..lists.len() {
            order.push((i, j));
        }
    }
    let back: Vec<(usize, usize)> = order.iter().rev().cloned().collect();
    order.extend(back);
    acc.nontrivial();
    for (step, (i, j)) in order.iter().enumerate() {
        acc.evals_add(3);
        let (sa, sb) = (spec(&lists[*i], 1.5, 0), spec(&lists[*j], -2.5, 1));
        if !second {
            let (a, b) = (sa.dual(&u), sb.dual(&u));
            let (ra, rb) = (sa.refd1(), sb.refd1());
            for (op, got, want) in [("add", &a + &b, ra.add(&rb)), ("mul", &a * &b, ra.mul(&rb)), ("div", &a / &b, ra.div(&rb))] {
                if let Err(e) = cmp_dual(&got, &want, &u, TOL, TOL) {
                    acc.violate(&format!("after-other-layouts/Dual/{}", op), idx, cj(), json!({"step": step, "left": sa.names, "right": sb.names}), json!(e));
                    return;
                }
            }
            let a2 = spec(&lists[*j], 1.5, 0).dual(&u);
            if (a == a2) != (lists[*i].iter().all(|n| lists[*j].contains(n)) && lists[*j].iter().all(|n| lists[*i].contains(n))) {
                acc.violate("after-other-layouts/Dual/eq", idx, cj(), json!({"step": step, "left": sa.names, "right": lists[*j]}), json!(a == a2));
                return;
            }
        } else {
            let (a, b) = (sa.dual2(&u), sb.dual2(&u));
            let (ra, rb) = (sa.refd2(), sb.refd2());
            for (op, got, want) in [("add", &a + &b, ra.add(&rb)), ("mul", &a * &b, ra.mul(&rb)), ("div", &a / &b, ra.div(&rb))] {
                if let Err(e) = cmp_dual2(&got, &want, &u, TOL, TOL, TOL) {
                    acc.violate(&format!("after-other-layouts/Dual2/{}", op), idx, cj(), json!({"step": step, "left": sa.names, "right": sb.names}), json!(e));
                    return;
                }
            }
            let a2 = spec(&lists[*j], 1.5, 0).dual2(&u);
            if (a == a2) != (lists[*i].iter().all(|n| lists[*j].contains(n)) && lists[*j].iter().all(|n| lists[*i].contains(n))) {
                acc.violate("after-other-layouts/Dual2/eq", idx, cj(), json!({"step": step, "left": sa.names, "right": lists[*j]}), json!(a == a2));
                return;
            }
        }
    }
    acc.sample(cj);
}

/// names whose TEXT runs together alike ("ab"+"c" = "a"+"bc", "k1"+"0" = "k"+"10"): one after the other on one thread,
/// every ordered pair of two-name lists over such names is combined; and a number compared with ITSELF answers as it
/// does against its own clone (also when it holds a NaN)
fn check_name_text(case: &Case, idx: u64, acc: &mut Acc) {
    use rateslib::dual::{Gradient1, Gradient2};
    let cj = || serde_json::to_value(case).unwrap();
    let pool = ["ab", "c", "a", "bc", "k1", "0", "k", "10", "abc", "z"];
    let gof = |name: &str, side: usize| 0.5 + (name.len() as f64) * 0.25 + (name.bytes().map(|b| b as usize).sum::<usize>() % 7) as f64 * 0.125 + side as f64;
    let mut lists: Vec<Vec<&str>> = vec![];
    for a in pool.iter() {
        lists.push(vec![*a]);
        for b in pool.iter() {
            if a != b {
                lists.push(vec![*a, *b]);
            }
        }
    }
    acc.nontrivial();
    for la in lists.iter() {
        for lb in lists.iter() {
            acc.evals_add(2);
            let a = Dual2::try_new(1.5, la.iter().map(|s| s.to_string()).collect(), la.iter().map(|n| gof(n, 0)).collect(), vec![]).unwrap();
            let b = Dual2::try_new(-2.5, lb.iter().map(|s| s.to_string()).collect(), lb.iter().map(|n| gof(n, 1)).collect(), vec![]).unwrap();
            let all: Vec<String> = pool.iter().map(|s| s.to_string()).collect();
            let (sum, prod) = (&a + &b, &a * &b);
            let (gs, gp, hp) = (sum.gradient1(all.clone()), prod.gradient1(all.clone()), prod.gradient2(all.clone()));
            let union: std::collections::BTreeSet<&str> = la.iter().chain(lb.iter()).cloned().collect();
            let mut bad = sum.vars().len() != union.len() || prod.vars().len() != union.len();
            for (i, n) in pool.iter().enumerate() {
                let (ga, gb) = (if la.contains(n) { gof(n, 0) } else { 0.0 }, if lb.contains(n) { gof(n, 1) } else { 0.0 });
                if gs[i] != ga + gb || !close_scaled(gp[i], ga * -2.5 + gb * 1.5, 1e-13, 4.0) {
                    bad = true;
                }
                for (j, m) in pool.iter().enumerate() {
                    let (gaj, gbj) = (if la.contains(m) { gof(m, 0) } else { 0.0 }, if lb.contains(m) { gof(m, 1) } else { 0.0 });
                    if !close_scaled(hp[[i, j]], ga * gbj + gaj * gb, 1e-13, 8.0) {
                        bad = true;
                    }
                }
            }
            if bad {
                acc.violate("name-text/after-other-lists", idx, cj(), json!({"left": la, "right": lb}), json!(format!("{:?} / {:?}", sum.vars(), gs)));
                return;
            }
        }
    }
    // identity does not matter for ==
    for nan_at in 0..4usize {
        acc.eval();
        let mut g = vec![1.5, -0.5];
        let mut h = vec![0.25, 0.125, 0.125, 0.5];
        match nan_at {
            1 => g[1] = f64::NAN,
            2 => h[1] = f64::NAN,
            _ => {}
        }
        let v = if nan_at == 3 { f64::NAN } else { 0.75 };
        let d1 = Dual::try_new(v, vec!["x".into(), "y".into()], g.clone()).unwrap();
        let d2 = Dual2::try_new(v, vec!["x".into(), "y".into()], g.clone(), h.clone()).unwrap();
        let (c1, c2) = (d1.clone(), d2.clone());
        #[allow(clippy::eq_op)]
        let (s1, s2) = (d1 == d1, d2 == d2);
        if s1 != (d1 == c1) || s2 != (d2 == c2) {
            acc.violate("eq/self-versus-clone", idx, cj(), json!({"nan_at": nan_at, "against_clone": [d1 == c1, d2 == c2]}), json!([s1, s2]));
        }
    }
    acc.sample(cj);
}

/// sizes beyond the dense reference: a first-order pair on 66 000 names (positions past 65 535) and a second-order
/// pair on 1 100 names (past 1 024, not a multiple of 64); expected entries are computed name by name on the fly
fn check_huge(second: bool, case: &Case, idx: u64, acc: &mut Acc) {
    use rateslib::dual::{Gradient1, Gradient2};
    let cj = || serde_json::to_value(case).unwrap();
    acc.nontrivial();
    let gv = |name: usize, side: usize| 0.5 + ((name * 7 + side * 3) % 11) as f64 * 0.125 + 1.0 / (3.0 + (name % 97) as f64);
    if !second {
        let size = 66_000usize;
        let uni: Vec<String> = (0..size + 40).map(|i| format!("n{}", i)).collect();
        let la: Vec<usize> = (0..size).collect();
        let a = Dual::try_new(1.5, la.iter().map(|i| uni[*i].clone()).collect(), la.iter().map(|n| gv(*n, 0)).collect()).unwrap();
        // b: a few names near the start, around 65 535 and at the end, in descending order, plus new names
        let lists: Vec<Vec<usize>> = vec![
            vec![65_999, 65_537, 65_536, 65_535, 65_534, 300, 256, 255, 1, 0],
            vec![size + 3, 65_999, 65_536, 7, size + 1],
            (0..size).rev().step_by(997).collect(),
        ];
        for lb in lists.iter() {
            acc.evals_add(3);
            let b = Dual::try_new(-2.5, lb.iter().map(|i| uni[*i].clone()).collect(), lb.iter().map(|n| gv(*n, 1)).collect()).unwrap();
            for (op, got) in [("add", &a + &b), ("mul", &b * &a), ("sub", &a - &b)] {
                let g = got.gradient1(uni.clone());
                let mut bad = None;
                for n in 0..size + 40 {
                    let (ga, gb) = (if n < size { gv(n, 0) } else { 0.0 }, if lb.contains(&n) { gv(n, 1) } else { 0.0 });
                    let want = match op {
                        "add" => ga + gb,
                        "sub" => ga - gb,
                        _ => ga * -2.5 + gb * 1.5,
                    };
                    if !close_scaled(g[n], want, 1e-12, want.abs().max(1.0)) {
                        bad = Some((n, want, g[n]));
                        break;
                    }
                }
                if let Some((n, want, got)) = bad {
                    acc.violate(&format!("huge/Dual/{}", op), idx, cj(), json!({"names": size, "other_operand_names": lb.len(), "name": n, "want": want}), json!(got));
                }
            }
            // read back through a short request that is not the stored list
            let req: Vec<String> = lb.iter().filter(|i| **i < size).map(|i| uni[*i].clone()).collect();
            let g = a.gradient1(req.clone());
            let want: Vec<f64> = lb.iter().filter(|i| **i < size).map(|i| gv(*i, 0)).collect();
            if g.to_vec() != want {
                acc.violate("huge/Dual/gradient1", idx, cj(), json!({"request": req, "want": want}), json!(g.to_vec()));
            }
        }
    } else {
        let size = 1_100usize;
        let nv = size + 4;
        let uni: Vec<String> = (0..nv).map(|i| format!("n{}", i)).collect();
        let hv = |i: usize, j: usize, side: usize| if i == j || i + 1 == j || j + 1 == i || (i.min(j) == 0 && i.max(j) % 64 == 1) { 0.25 + ((i + j + side) % 5) as f64 * 0.0625 } else { 0.0 };
        let mk = |l: &Vec<usize>, v: f64, side: usize| -> Dual2 {
            let mut h = Vec::with_capacity(l.len() * l.len());
            for p in l {
                for q in l {
                    h.push(0.5 * hv(*p, *q, side));
                }
            }
            Dual2::try_new(v, l.iter().map(|i| uni[*i].clone()).collect(), l.iter().map(|n| gv(*n, side)).collect(), h).unwrap()
        };
        let la: Vec<usize> = (0..size).collect();
        let a = mk(&la, 1.5, 0);
        let lists: Vec<Vec<usize>> = vec![(0..size).filter(|i| i % 2 == 1).collect(), { let mut v: Vec<usize> = (0..size).collect(); v[1] = size; v[size / 2] = size + 1; v }, (0..size).rev().collect()];
        for lb in lists.iter() {
            acc.evals_add(2);
            let b = mk(lb, -2.5, 1);
            for (op, got) in [("mul", &a * &b), ("add", &b + &a)] {
                let g = got.gradient1(uni.clone());
                let h = got.gradient2(uni.clone());
                let inb: Vec<bool> = (0..nv).map(|n| lb.contains(&n)).collect();
                let mut bad = None;
                'outer: for i in 0..nv {
                    let (gai, gbi) = (if i < size { gv(i, 0) } else { 0.0 }, if inb[i] { gv(i, 1) } else { 0.0 });
                    let wg = if op == "mul" { gai * -2.5 + gbi * 1.5 } else { gai + gbi };
                    if !close_scaled(g[i], wg, 1e-12, wg.abs().max(1.0)) {
                        bad = Some((i, i, wg, g[i]));
                        break;
                    }
                    for j in 0..nv {
                        let (gaj, gbj) = (if j < size { gv(j, 0) } else { 0.0 }, if inb[j] { gv(j, 1) } else { 0.0 });
                        let (ha, hb) = (if i < size && j < size { hv(i, j, 0) } else { 0.0 }, if inb[i] && inb[j] { hv(i, j, 1) } else { 0.0 });
                        let wh = if op == "mul" { ha * -2.5 + hb * 1.5 + gai * gbj + gaj * gbi } else { ha + hb };
                        if !close_scaled(h[[i, j]], wh, 1e-12, wh.abs().max(1.0)) {
                            bad = Some((i, j, wh, h[[i, j]]));
                            break 'outer;
                        }
                    }
                }
                if let Some((i, j, want, got)) = bad {
                    acc.violate(&format!("huge/Dual2/{}", op), idx, cj(), json!({"names": size, "pair": [i, j], "want": want}), json!(got));
                }
            }
        }
    }
    acc.sample(cj);
}

/// layout differential at awkward magnitudes: the same two numbers (by name) combined with shared lists, with
/// separate same-order lists, with the second list re-ordered and with an extra zero-derivative name must give the
/// SAME result by name, bit for bit, also where a product of derivatives is close to the largest double or subnormal
fn check_differential(case: &Case, idx: u64, acc: &mut Acc) {
    use rateslib::dual::{Gradient1, Gradient2};
    let cj = || serde_json::to_value(case).unwrap();
    let names = |l: &[usize]| -> Vec<String> { l.iter().map(|i| format!("n{}", i)).collect() };
    let tables: [([f64; 2], [f64; 2]); 5] = [
        ([1.0e154, 3.0e-162], [1.2e154, 1.0e-162]),
        ([9.0e153, -2.0e-160], [-1.9e154, 2.5e-163]),
        ([1.5, -0.75], [2.25, 0.3]),
        ([1.0e300, 1.0e-300], [1.7e8, 4.0e-20]),
        ([-0.0, 1.0e-200], [1.0e-200, 0.0]),
    ];
    acc.nontrivial();
    for (ti, (ga, gb)) in tables.iter().enumerate() {
        let hflat = |g: &[f64; 2], l: &[usize], scale: f64| -> Vec<f64> {
            let mut h = vec![];
            for a in l {
                for b in l {
                    h.push(if *a < 2 && *b < 2 { scale * (g[*a].abs().sqrt() * g[*b].abs().sqrt()).min(1e150) } else { 0.0 });
                }
            }
            h
        };
        let gof = |g: &[f64; 2], l: &[usize]| -> Vec<f64> { l.iter().map(|i| if *i < 2 { g[*i] } else { 0.0 }).collect() };
        // (list of a, list of b, share the list?)
        let variants: [(&[usize], &[usize], bool); 5] = [(&[0, 1], &[0, 1], true), (&[0, 1], &[0, 1], false), (&[0, 1], &[1, 0], false), (&[0, 1], &[0, 2, 1], false), (&[1, 0], &[0, 1, 2], false)];
        let mut first1: Option<Vec<Vec<u64>>> = None;
        let mut first2: Option<Vec<Vec<u64>>> = None;
        let all = names(&[0, 1, 2]);
        for (vi, (la, lb, share)) in variants.iter().enumerate() {
            acc.evals_add(2);
            let a1 = Dual::try_new(1.5, names(la), gof(ga, la)).unwrap();
            let b1 = if *share { Dual::try_new_from(&a1, -2.5, names(lb), gof(gb, lb)).unwrap() } else { Dual::try_new(-2.5, names(lb), gof(gb, lb)).unwrap() };
            let a2 = Dual2::try_new(1.5, names(la), gof(ga, la), hflat(ga, la, 0.25)).unwrap();
            let b2 = if *share { Dual2::try_new_from(&a2, -2.5, names(lb), gof(gb, lb), hflat(gb, lb, 0.125)).unwrap() } else { Dual2::try_new(-2.5, names(lb), gof(gb, lb), hflat(gb, lb, 0.125)).unwrap() };
            let r1: Vec<Vec<u64>> = [&a1 + &b1, &a1 - &b1, &a1 * &b1, &a1 / &b1].iter().map(|r| { let mut v = vec![r.real().to_bits()]; v.extend(r.gradient1(all.clone()).iter().map(|x| if x.is_nan() { 1 } else if *x == 0.0 { 0 } else { x.to_bits() })); v }).collect();
            let r2: Vec<Vec<u64>> = [&a2 + &b2, &a2 - &b2, &a2 * &b2, &a2 / &b2]
                .iter()
                .map(|r| {
                    let mut v = vec![r.real().to_bits()];
                    v.extend(r.gradient1(all.clone()).iter().map(|x| if x.is_nan() { 1 } else if *x == 0.0 { 0 } else { x.to_bits() }));
                    // the stored half-Hessian by name (reading it back doubled would hide a difference behind an overflow)
                    let pos: Vec<Option<usize>> = all.iter().map(|nm| r.vars().iter().position(|q| q == nm)).collect();
                    for i in 0..3 {
                        for j in 0..3 {
                            let x = match (pos[i], pos[j]) {
                                (Some(p), Some(q)) => r.dual2()[[p, q]],
                                _ => 0.0,
                            };
                            v.push(if x.is_nan() { 1 } else if x == 0.0 { 0 } else { x.to_bits() });
                        }
                    }
                    v
                })
                .collect();
            match &first1 {
                None => first1 = Some(r1),
                Some(f) => {
                    if *f != r1 {
                        let op = (0..4).find(|k| f[*k] != r1[*k]).unwrap();
                        acc.violate(&format!("layout-differential/Dual/{}", (["add", "sub", "mul", "div"])[op]), idx, cj(), json!({"table": ti, "variant": vi, "want_bits": f[op]}), json!(r1[op]));
                    }
                }
            }
            match &first2 {
                None => first2 = Some(r2),
                Some(f) => {
                    if *f != r2 {
                        let op = (0..4).find(|k| f[*k] != r2[*k]).unwrap();
                        acc.violate(&format!("layout-differential/Dual2/{}", (["add", "sub", "mul", "div"])[op]), idx, cj(), json!({"table": ti, "variant": vi, "want_bits": f[op]}), json!(r2[op]));
                    }
                }
            }
        }
    }
    acc.sample(cj);
}

pub fn check(case: &Case, idx: u64, acc: &mut Acc) {
    if let Some((_, 102)) = case.large {
        check_differential(case, idx, acc);
        return;
    }
    if let Some((_, 105)) = case.large {
        check_name_text(case, idx, acc);
        return;
    }
    if let Some((_, rel @ (103 | 104))) = case.large {
        check_huge(rel == 104, case, idx, acc);
        return;
    }
    if let Some((_, relation)) = case.large {
        if relation >= 100 {
            check_sequence(relation == 101, case, idx, acc);
            return;
        }
    }
    if let Some((size, relation)) = case.large {
        check_large(size, relation, case, idx, acc);
        return;
    }
    let u = universe(case.nuni);
    let cj = || serde_json::to_value(case).unwrap();
    let (sa, sb) = (&case.a, &case.b);

    // ---------------- first order
    {
        let mut a: Dual = sa.dual(&u);
        let mut b: Dual = sb.dual(&u);
        match case.storage {
            1 => b = Dual::try_new_from(&a, sb.v, sb.name_strings(&u), if sb.names.is_empty() { vec![] } else { sb.g.clone() }).unwrap(),
            2 => a = Dual::try_new_from(&b, sa.v, sa.name_strings(&u), if sa.names.is_empty() { vec![] } else { sa.g.clone() }).unwrap(),
            _ => {}
        }
        let cls = class_name(&a.vars_cmp(b.vars()));
        acc.bump(&format!("Dual/{}", cls));
        if cls != "ArcEquivalent" {
            acc.nontrivial();
        }
        let (ra, rb) = (sa.refd1(), sb.refd1());
        // the operands as actually built must carry what the spec says, by name
        let (fa, fb) = (RefDual::from_dual(&a, &u), RefDual::from_dual(&b, &u));
        let (fa, fb) = match (fa, fb) {
            (Ok(x), Ok(y)) => (x, y),
            (x, y) => {
                acc.violate(&format!("build/Dual/{}", cls), idx, cj(), json!("well-formed operands"), json!(format!("{:?} {:?}", x.err(), y.err())));
                return;
            }
        };
        if !ref_eq(&fa, &ra, false) || !ref_eq(&fb, &rb, false) {
            acc.violate(&format!("build/Dual/{}", cls), idx, cj(), json!("operand content by name as specified"), json!(format!("{:?} / {:?}", a, b)));
        }
        let want_mask = fa.mask | fb.mask;
        let ops: [(&str, RefDual); 5] = [
            ("add", ra.add(&rb)),
            ("sub", ra.sub(&rb)),
            ("mul", ra.mul(&rb)),
            ("div", ra.div(&rb)),
            ("rem", ra.rem(&rb)),
        ];
        for (op, want) in ops.iter() {
            let got_ref: Dual = match *op {
                "add" => &a + &b,
                "sub" => &a - &b,
                "mul" => &a * &b,
                "div" => &a / &b,
                _ => &a % &b,
            };
            let got_own: Dual = match *op {
                "add" => a.clone() + b.clone(),
                "sub" => a.clone() - b.clone(),
                "mul" => a.clone() * b.clone(),
                "div" => a.clone() / b.clone(),
                _ => a.clone() % b.clone(),
            };
            for (form, got) in [("ref", &got_ref), ("own", &got_own)] {
                acc.eval();
                if let Err(e) = cmp_dual(got, want, &u, TOL, TOL) {
                    acc.violate(&format!("Dual/{}/{}", op, cls), idx, cj(), json!(format!("{} form: by-name reference", form)), json!(e));
                    continue;
                }
                match RefDual::from_dual(got, &u) {
                    Ok(r) => {
                        if !names_ok(r.mask, want_mask) {
                            acc.violate(
                                &format!("names/Dual/{}/{}", op, cls),
                                idx,
                                cj(),
                                json!(format!("union of operand names mask {:b}", want_mask)),
                                json!(format!("{:?}", got.vars())),
                            );
                        }
                    }
                    Err(e) => acc.violate(&format!("shape/Dual/{}/{}", op, cls), idx, cj(), json!("names once, matching shapes"), json!(e)),
                }
            }
            acc.outcome(&(op, got_ref.real().to_bits(), hash_f64s(got_ref.gradient1_all(&u).as_slice())));
        }
        // equality: missing == zero, symmetric
        acc.evals_add(2);
        let want_eq = ref_eq(&ra, &rb, false);
        let (e1, e2) = (a == b, b == a);
        if want_eq {
            acc.bump("Dual/equal-pairs");
        }
        if e1 != want_eq || e2 != want_eq {
            acc.violate(&format!("eq/Dual/{}", cls), idx, cj(), json!(want_eq), json!([e1, e2]));
        }
    }

    // ---------------- second order
    {
        let mut a: Dual2 = sa.dual2(&u);
        let mut b: Dual2 = sb.dual2(&u);
        let half = |s: &NumSpec| -> Vec<f64> {
            if s.h.is_empty() {
                vec![]
            } else {
                s.h.iter().map(|x| 0.5 * x).collect()
            }
        };
        match case.storage {
            1 => b = Dual2::try_new_from(&a, sb.v, sb.name_strings(&u), if sb.names.is_empty() { vec![] } else { sb.g.clone() }, half(sb)).unwrap(),
            2 => a = Dual2::try_new_from(&b, sa.v, sa.name_strings(&u), if sa.names.is_empty() { vec![] } else { sa.g.clone() }, half(sa)).unwrap(),
            _ => {}
        }
        let cls = class_name(&a.vars_cmp(b.vars()));
        acc.bump(&format!("Dual2/{}", cls));
        let (ra, rb) = (sa.refd2(), sb.refd2());
        let (fa, fb) = (RefDual::from_dual2(&a, &u), RefDual::from_dual2(&b, &u));
        let (fa, fb) = match (fa, fb) {
            (Ok(x), Ok(y)) => (x, y),
            (x, y) => {
                acc.violate(&format!("build/Dual2/{}", cls), idx, cj(), json!("well-formed operands"), json!(format!("{:?} {:?}", x.err(), y.err())));
                return;
            }
        };
        if !ref_eq(&fa, &ra, true) || !ref_eq(&fb, &rb, true) {
            acc.violate(&format!("build/Dual2/{}", cls), idx, cj(), json!("operand content by name as specified"), json!(format!("{:?} / {:?}", a, b)));
        }
        let want_mask = fa.mask | fb.mask;
        let ops: [(&str, RefDual); 5] = [
            ("add", ra.add(&rb)),
            ("sub", ra.sub(&rb)),
            ("mul", ra.mul(&rb)),
            ("div", ra.div(&rb)),
            ("rem", ra.rem(&rb)),
        ];
        for (op, want) in ops.iter() {
            let got_ref: Dual2 = match *op {
                "add" => &a + &b,
                "sub" => &a - &b,
                "mul" => &a * &b,
                "div" => &a / &b,
                _ => &a % &b,
            };
            let got_own: Dual2 = match *op {
                "add" => a.clone() + b.clone(),
                "sub" => a.clone() - b.clone(),
                "mul" => a.clone() * b.clone(),
                "div" => a.clone() / b.clone(),
                _ => a.clone() % b.clone(),
            };
            for (form, got) in [("ref", &got_ref), ("own", &got_own)] {
                acc.eval();
                if let Err(e) = cmp_dual2(got, want, &u, TOL, TOL, TOL) {
                    acc.violate(&format!("Dual2/{}/{}", op, cls), idx, cj(), json!(format!("{} form: by-name reference", form)), json!(e));
                    continue;
                }
                match RefDual::from_dual2(got, &u) {
                    Ok(r) => {
                        if !names_ok(r.mask, want_mask) {
                            acc.violate(
                                &format!("names/Dual2/{}/{}", op, cls),
                                idx,
                                cj(),
                                json!(format!("union of operand names mask {:b}", want_mask)),
                                json!(format!("{:?}", got.vars())),
                            );
                        }
                    }
                    Err(e) => acc.violate(&format!("shape/Dual2/{}/{}", op, cls), idx, cj(), json!("names once, matching shapes"), json!(e)),
                }
            }
        }
        acc.evals_add(2);
        let want_eq = ref_eq(&ra, &rb, true);
        let (e1, e2) = (a == b, b == a);
        if want_eq {
            acc.bump("Dual2/equal-pairs");
        }
        if e1 != want_eq || e2 != want_eq {
            acc.violate(&format!("eq/Dual2/{}", cls), idx, cj(), json!(want_eq), json!([e1, e2]));
        }
    }
    // ---------------- the public re-alignment entry points: a number moved onto another variable list is the same
    // number by name; the two results of a union share their list and carry exactly the union of the names
    {
        use rateslib::dual::Vars as _;
        let (a1, b1) = (sa.dual(&u), sb.dual(&u));
        let (a2, b2) = (sa.dual2(&u), sb.dual2(&u));
        let (ra1, rb1, ra2, rb2) = (sa.refd1(), sb.refd1(), sa.refd2(), sb.refd2());
        let want_mask = ra1.mask | rb1.mask;
        acc.evals_add(6);
        for (how, (x, y)) in [("to_union_vars", a1.to_union_vars(&b1, None)), ("to_combined_vars", a1.to_combined_vars(&b1))] {
            let ok = match (RefDual::from_dual(&x, &u), RefDual::from_dual(&y, &u)) {
                (Ok(rx), Ok(ry)) => ref_eq(&rx, &ra1, false) && ref_eq(&ry, &rb1, false) && x.ptr_eq(&y) && names_ok(rx.mask, want_mask) && names_ok(ry.mask, want_mask),
                _ => false,
            };
            if !ok {
                acc.violate(&format!("realign/Dual/{}", how), idx, cj(), json!("both numbers unchanged by name, one shared list holding exactly the union"), json!(format!("{:?} / {:?}", x, y)));
            }
        }
        for (how, (x, y)) in [("to_union_vars", a2.to_union_vars(&b2, None)), ("to_combined_vars", a2.to_combined_vars(&b2))] {
            let ok = match (RefDual::from_dual2(&x, &u), RefDual::from_dual2(&y, &u)) {
                (Ok(rx), Ok(ry)) => ref_eq(&rx, &ra2, true) && ref_eq(&ry, &rb2, true) && x.ptr_eq(&y) && names_ok(rx.mask, want_mask) && names_ok(ry.mask, want_mask),
                _ => false,
            };
            if !ok {
                acc.violate(&format!("realign/Dual2/{}", how), idx, cj(), json!("both numbers unchanged by name, one shared list holding exactly the union"), json!(format!("{:?} / {:?}", x.real(), y.real())));
            }
        }
        // onto the other operand's list when that list holds every name of this one
        if sa.names.iter().all(|n| sb.names.contains(n)) {
            let x = a1.to_new_vars(b1.vars(), None);
            let ok = RefDual::from_dual(&x, &u).map(|rx| ref_eq(&rx, &ra1, false) && x.ptr_eq(&b1)).unwrap_or(false);
            if !ok {
                acc.violate("realign/Dual/to_new_vars", idx, cj(), json!("unchanged by name, on the target list"), json!(format!("{:?}", x)));
            }
            let x = a2.to_new_vars(b2.vars(), None);
            let ok = RefDual::from_dual2(&x, &u).map(|rx| ref_eq(&rx, &ra2, true) && x.ptr_eq(&b2)).unwrap_or(false);
            if !ok {
                acc.violate("realign/Dual2/to_new_vars", idx, cj(), json!("unchanged by name, on the target list"), json!(format!("{:?}", x.real())));
            }
            let nf = Dual::new_from(&b1, sa.v, sa.name_strings(&u));
            let okn = nf.ptr_eq(&b1) && nf.real() == sa.v && RefDual::from_dual(&nf, &u).map(|r| (0..N).all(|i| r.val.g[i] == if sa.names.contains(&i) { 1.0 } else { 0.0 })).unwrap_or(false);
            if !okn {
                acc.violate("realign/Dual/new_from", idx, cj(), json!("unit sensitivities to exactly the given names, on the other's list"), json!(format!("{:?}", nf)));
            }
        }
    }
    // ---------------- one operand created on another thread
    if idx % 16 == 0 {
        let (sat, ut) = (sa.clone(), u.clone());
        let (at1, at2) = std::thread::spawn(move || (sat.dual(&ut), sat.dual2(&ut))).join().expect("builder thread");
        let (b1, b2) = (sb.dual(&u), sb.dual2(&u));
        acc.evals_add(2);
        if let Err(e) = cmp_dual(&(&at1 * &b1), &sa.refd1().mul(&sb.refd1()), &u, TOL, TOL) {
            acc.violate("other-thread/Dual/mul", idx, cj(), json!("by-name reference"), json!(e));
        }
        if let Err(e) = cmp_dual2(&(&b2 + &at2), &sb.refd2().add(&sa.refd2()), &u, TOL, TOL, TOL) {
            acc.violate("other-thread/Dual2/add", idx, cj(), json!("by-name reference"), json!(e));
        }
        if (at1 == b1) != ref_eq(&sa.refd1(), &sb.refd1(), false) {
            acc.violate("other-thread/Dual/eq", idx, cj(), json!(ref_eq(&sa.refd1(), &sb.refd1(), false)), json!(at1 == b1));
        }
    }
    // ---------------- non-standard memory layouts: the same numbers built through `clone_from` with a reversed-memory
    // gradient (and a column-major second-derivative array) are the same numbers
    {
        acc.evals_add(6);
        let (a1, b1, an1) = (sa.dual(&u), sb.dual(&u), sa.dual_nonstd(&u));
        let want1 = ref_eq(&sa.refd1(), &sb.refd1(), false);
        if !(an1 == a1) || !(a1 == an1) || (an1 == b1) != want1 || (b1 == an1) != want1 {
            acc.violate("layout/Dual/eq", idx, cj(), json!({"want_vs_own_standard_form": true, "want_vs_other": want1}), json!([an1 == a1, a1 == an1, an1 == b1, b1 == an1]));
        }
        for (op, got, want) in [("add", &an1 + &b1, sa.refd1().add(&sb.refd1())), ("mul", &b1 * &an1, sb.refd1().mul(&sa.refd1()))] {
            if let Err(e) = cmp_dual(&got, &want, &u, TOL, TOL) {
                acc.violate(&format!("layout/Dual/{}", op), idx, cj(), json!("by-name reference"), json!(e));
            }
        }
        let (a2, b2, an2) = (sa.dual2(&u), sb.dual2(&u), sa.dual2_nonstd(&u));
        let want2 = ref_eq(&sa.refd2(), &sb.refd2(), true);
        if !(an2 == a2) || !(a2 == an2) || (an2 == b2) != want2 || (b2 == an2) != want2 {
            acc.violate("layout/Dual2/eq", idx, cj(), json!({"want_vs_own_standard_form": true, "want_vs_other": want2}), json!([an2 == a2, a2 == an2, an2 == b2, b2 == an2]));
        }
        // two non-standard operands on one shared list that differ must not compare equal
        if sa.names == sb.names && !sa.names.is_empty() {
            let bn2 = sb.dual2_nonstd(&u);
            let bn2s = Dual2::clone_from(&an2, bn2.real(), { use rateslib::dual::Gradient1; bn2.dual().clone() }, { use rateslib::dual::Gradient2; bn2.dual2().clone() });
            if (an2 == bn2s) != want2 {
                acc.violate("layout/Dual2/eq-shared-list", idx, cj(), json!(want2), json!(an2 == bn2s));
            }
            let bn1 = sb.dual_nonstd(&u);
            let bn1s = Dual::clone_from(&an1, bn1.real(), { use rateslib::dual::Gradient1; bn1.dual().clone() });
            if (an1 == bn1s) != want1 {
                acc.violate("layout/Dual/eq-shared-list", idx, cj(), json!(want1), json!(an1 == bn1s));
            }
        }
        for (op, got, want) in [("add", &an2 + &b2, sa.refd2().add(&sb.refd2())), ("mul", &b2 * &an2, sb.refd2().mul(&sa.refd2()))] {
            if let Err(e) = cmp_dual2(&got, &want, &u, TOL, TOL, TOL) {
                acc.violate(&format!("layout/Dual2/{}", op), idx, cj(), json!("by-name reference"), json!(e));
            }
        }
    }
    // ---------------- negative-zero twins: a derivative of -0.0 is a zero derivative. Each operand with a zero
    // entry is re-built with -0.0 in its place; equality with the other operand (either order) must not change,
    // and the twin equals the original.
    {
        let nz = |s: &NumSpec| -> Option<NumSpec> {
            if s.g.iter().chain(s.h.iter()).any(|x| *x == 0.0 && x.is_sign_positive()) {
                let mut t = s.clone();
                for x in t.g.iter_mut().chain(t.h.iter_mut()) {
                    if *x == 0.0 {
                        *x = -0.0;
                    }
                }
                Some(t)
            } else {
                None
            }
        };
        for (which, twin, orig, other) in [("left", nz(sa), sa, sb), ("right", nz(sb), sb, sa)] {
            if let Some(t) = twin {
                acc.evals_add(4);
                acc.bump("negative-zero twins");
                let want1 = ref_eq(&orig.refd1(), &other.refd1(), false);
                let (t1, o1, x1) = (t.dual(&u), orig.dual(&u), other.dual(&u));
                if (t1 == x1) != want1 || (x1 == t1) != want1 || !(t1 == o1) || !(o1 == t1) {
                    acc.violate("eq/Dual/negative-zero-derivative", idx, cj(), json!({"twin_of": which, "want": want1}), json!([t1 == x1, x1 == t1, t1 == o1, o1 == t1]));
                }
                let want2 = ref_eq(&orig.refd2(), &other.refd2(), true);
                let (t2, o2, x2) = (t.dual2(&u), orig.dual2(&u), other.dual2(&u));
                if (t2 == x2) != want2 || (x2 == t2) != want2 || !(t2 == o2) || !(o2 == t2) {
                    acc.violate("eq/Dual2/negative-zero-derivative", idx, cj(), json!({"twin_of": which, "want": want2}), json!([t2 == x2, x2 == t2, t2 == o2, o2 == t2]));
                }
            }
        }
    }
    if idx % 9973 == 0 {
        acc.sample(cj);
    }
}

trait GradAll {
    fn gradient1_all(&self, u: &[String]) -> Vec<f64>;
}
impl GradAll for Dual {
    fn gradient1_all(&self, u: &[String]) -> Vec<f64> {
        use rateslib::dual::Gradient1;
        self.gradient1(u.to_vec()).to_vec()
    }
}

pub fn run(ctx: &Ctx, replay_file: Option<String>) -> ! {
    if let Some(f) = replay_file {
        replay::<Case, _>(ctx, &f, check);
    }
    let cs = cases(ctx.tier);
    let acc = explore(&cs, check);
    for ty in ["Dual", "Dual2"] {
        for cls in ["ArcEquivalent", "ValueEquivalent", "Superset", "Subset", "Difference"] {
            if acc.breakdown.get(&format!("{}/{}", ty, cls)).copied().unwrap_or(0) == 0 {
                machinery_fail(&format!("vacuous: no operand pair of class {}/{} was generated", ty, cls));
            }
        }
        if acc.breakdown.get(&format!("{}/equal-pairs", ty)).copied().unwrap_or(0) == 0 {
            machinery_fail("vacuous: no equal pair was generated for ==");
        }
    }
    let meta = Meta::exploration(
        "operand = (value, every ordered list of distinct names over the universe incl. the empty list, every \
         zero/non-zero derivative pattern per listed name, Hessian absent or full); every ordered pair of operands x \
         storage relation (independent lists; one operand re-built on the other's list so the Arc is shared) x \
         {+,-,*,/,%} in borrowed and owned forms and == in both argument orders, on Dual and Dual2. Derivative values \
         are a function of the NAME (never of the position), so all list permutations of the same number are covered. \
         Non-trivial: pairs whose vars_cmp class (observed through the public vars_cmp) is not ArcEquivalent; the run \
         refuses to report if any of the five classes or the 'equal pair' class is empty. Oracle: by-name RefDual \
         result, union of names each once, matching shapes, == iff equal by name with missing == 0, also when a zero derivative is written -0.0 (negative-zero twin of every operand that has a zero entry). Non-standard memory layouts: every operand is also built through clone_from with a reversed-memory gradient and a column-major second-derivative array and must equal its standard form, compare with the other operand as that does, and add / multiply to the by-name reference. The re-alignment entry points (to_union_vars, to_combined_vars, to_new_vars onto a covering list, new_from) leave every number unchanged by name on one shared list. Names whose text runs together alike (ab + c and a + bc): every ordered pair of one- and two-name lists over ten such names combined one after the other; a number compared with itself answers as against its clone, NaN entries included. Layout differential: five derivative tables (products near the largest double, subnormal products, ordinary, mixed, signed zeros) combined under five layouts (shared list, separate, re-ordered, extra zero-derivative name, both) must give bit-identical results by name for + - * /, the stored half-Hessian included. History independence: on one thread the 65 x 65 ordered pairs of layouts over 4 names are combined (+, *, /, ==) one after the other, forwards and backwards, each operand built fresh. In addition a \
         menu of LARGE layouts (7 .. 17, 33, 63, 64, 65, 70, 130, 257 names, non-dyadic derivative values) x 10 relations of the \
         second list to the first (same, rotated, reversed, every other name, superset, disjoint, overlapping, ends fixed \
         with the middle reversed, thinned and pairwise swapped, interior names replaced by new ones); one first-order pair on 66 000 names and one second-order pair on 1 100 names checked name by name against a dense by-name reference.",
        json!({"names": ctx.tier.pick(3, 4), "cases": cs.len(), "value_pairs": [[1.5, -2.5], [1.5, 1.5]]}),
    )
    .assume("RefDual reference model (harness/src/refdual.rs)")
    .assume("derivative VALUES are from a fixed generic table; layouts are exhaustive");
    finish(ctx, acc, meta)
}
