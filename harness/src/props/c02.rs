//! C02 Second-order automatic differentiation is exact and consistent with first order.
use crate::common::*;
use crate::progs::*;
use serde_json::json;

pub fn run(ctx: &Ctx, replay_file: Option<String>) -> ! {
    if let Some(f) = replay_file {
        replay::<Case, _>(ctx, &f, |c, i, acc| replay_case::<Pair>("C02", c, i, acc));
    }
    let (kfull, kmax) = ctx.tier.pick((2, 3), (3, 4));
    let (acc0, mut bound) = explore_programs::<Pair>("C02", kfull, kmax, 2);
    let (acc1, bound1) = explore_magnitudes::<Pair>("C02", ctx.tier.pick(2, 3));
    let (acc2, bound2) = crate::largeops::explore_large("C02", true);
    let (acc3, bound3) = explore_deep::<Pair>("C02");
    let acc = acc0.merge(acc1).merge(acc2).merge(acc3);
    bound["deep_formulas"] = bound3;
    bound["second_value_table_magnitudes"] = bound1;
    bound["many_names"] = bound2;
    let _ = json!(null);
    let meta = Meta::exploration(
        "same program space as C01, executed on Dual2 and, in lock step, on Dual: value vs plain f64; gradient and \
         FULL Hessian read back for every ordered pair of requested names (shuffled order, one absent name) vs the \
         RefDual reference (true second partials); Hessian symmetric; value and gradient equal to the first-order \
         run of the same program; Dual::from(result) (owned and borrowed) keeps value, names and gradient exactly. \
         Reference rules validated by first and second central differences of the plain program for <= 2 operators. \
         Deep formulas: nine chains of 10 .. 60 operators (Horner scheme, continued fraction, exp/log tower, cdf / inverse-cdf ping-pong, power chain, 24-term sum of products, Black-Scholes price, balanced tree of 32 leaves, sign chain), every intermediate stage judged as a program of its own, on both leaf tables. Awkward magnitudes: the unary functions at arguments 1.2e154, 1e154, 2.5e153, 1e-120, 1e-107, 7e-155, 3e-162, 1e300, 1e-300, 4e-320 - every component whose true value is representable must be right (an intermediate product leaving the range is a defect). Unusual powers: x^p for 12 (x, p) pairs incl. whole exponents of 2^31 .. 6e9 at bases next to +-1 and large odd exponents at -1. Many-names pass: each of the 10 unary functions on a Dual2 carrying 7 .. 257 names (17 sizes, three stored orders, banded Hessian with \
         a dense first row): Hessian = f'(x) H + f''(x) g g^T by name, bitwise symmetric. \
         Non-trivial: >= 2 operators and a non-zero CROSS second partial between two different names.",
        bound,
    )
    .assume("derivative rules are exercised at two leaf-value tables only (ordinary magnitudes to full depth, widely different magnitudes to 2 (3) operators)")
    .assume("RefDual reference model, cross-checked by finite differences on all <=2-operator programs");
    finish(ctx, acc, meta)
}
