//! C02 Second-order automatic differentiation is exact and consistent with first order.
use crate::common::*;
use crate::progs::*;
use serde_json::json;

pub fn run(ctx: &Ctx, replay_file: Option<String>) -> ! {
    if let Some(f) = replay_file {
        replay::<Case, _>(ctx, &f, |c, i, acc| replay_case::<Pair>("C02", c, i, acc));
    }
    let (kfull, kmax) = ctx.tier.pick((2, 3), (3, 4));
    let (acc0, mut bound) = explore_programs::<Pair>("C02", kfull, kmax, 2);
    let (acc1, bound1) = explore_magnitudes::<Pair>("C02", ctx.tier.pick(2, 3));
    let acc = acc0.merge(acc1);
    bound["second_value_table_magnitudes"] = bound1;
    let _ = json!(null);
    let meta = Meta::exploration(
        "same program space as C01, executed on Dual2 and, in lock step, on Dual: value vs plain f64; gradient and \
         FULL Hessian read back for every ordered pair of requested names (shuffled order, one absent name) vs the \
         RefDual reference (true second partials); Hessian symmetric; value and gradient equal to the first-order \
         run of the same program; Dual::from(result) (owned and borrowed) keeps value, names and gradient exactly. \
         Reference rules validated by first and second central differences of the plain program for <= 2 operators. \
         Non-trivial: >= 2 operators and a non-zero CROSS second partial between two different names.",
        bound,
    )
    .assume("derivative rules are exercised at two leaf-value tables only (ordinary magnitudes to full depth, widely different magnitudes to 2 (3) operators)")
    .assume("RefDual reference model, cross-checked by finite differences on all <=2-operator programs");
    finish(ctx, acc, meta)
}
