//! C08 Month arithmetic and roll-day rules follow calendar arithmetic.
use crate::calmodel::*;
use crate::common::*;
use chrono::Datelike;
use rateslib::calendars::{get_eom, get_imm, get_roll, is_eom, is_imm, is_leap_year, DateRoll, Modifier, NamedCal, RollDay};
use serde::{Deserialize, Serialize};
use serde_json::json;

#[derive(Clone, Debug, Serialize, Deserialize)]
pub enum Case {
    /// add_months from every start date in [from, to] x every offset x every roll kind, Modifier::Act
    Months { from: i64, to: i64, wide: bool },
    /// per-month functions for every month of [y0, y1]
    MonthFns { y0: i64, y1: i64 },
    /// history independence of the per-month functions: for the month (y, m) FIRST and then every other month of
    /// 1970-2200 second (a remembered answer of the previous call must not leak into the next)
    MonthPairs { y: i64, m: i64 },
    /// other modifiers on a calendar with holidays
    Modified { name: String, from: i64, to: i64 },
}

fn offsets(wide: bool) -> Vec<i32> {
    let r = if wide { 130 } else { 40 };
    let mut v: Vec<i32> = (-r..=r).collect();
    v.extend([48, 60, 120, 1200, 144, 240, -48, -60, -120, -1200, -144, -240]);
    // beyond 127 and 128 whole years, not multiples of 12
    v.extend([1523, 1535, 1537, 1543, 1549, 2003, 2771, -1523, -1535, -1537, -1543, -1549, -2003, -2771]);
    v
}

fn rolls() -> Vec<RollDay> {
    let mut v = vec![RollDay::Unspecified {}, RollDay::EoM {}, RollDay::SoM {}, RollDay::IMM {}];
    for d in 1..=31 {
        v.push(RollDay::Int { day: d });
    }
    v
}

fn roll_name(r: &RollDay) -> &'static str {
    match r {
        RollDay::Unspecified {} => "Unspecified",
        RollDay::Int { .. } => "Int",
        RollDay::EoM {} => "EoM",
        RollDay::SoM {} => "SoM",
        RollDay::IMM {} => "IMM",
    }
}

/// third Wednesday by scanning the month
fn imm_day(y: i64, m: i64) -> i64 {
    let mut c = 0;
    for d in 1..=month_len(y, m) {
        if weekday(days_from_civil(y, m, d)) == 2 {
            c += 1;
            if c == 3 {
                return d;
            }
        }
    }
    unreachable!()
}

/// specification: date exactly `off` months away with the requested roll day capped at month length
fn spec_add_months(z: i64, off: i64, roll: &RollDay) -> i64 {
    let (y, m, d) = civil_from_days(z);
    let t = 12 * y + (m - 1) + off;
    let (ty, tm) = (t.div_euclid(12), t.rem_euclid(12) + 1);
    let day = match roll {
        RollDay::Unspecified {} => d.min(month_len(ty, tm)),
        RollDay::Int { day } => (*day as i64).min(month_len(ty, tm)),
        RollDay::EoM {} => month_len(ty, tm),
        RollDay::SoM {} => 1,
        RollDay::IMM {} => imm_day(ty, tm),
    };
    days_from_civil(ty, tm, day)
}

/// the roll date of a month (None for Unspecified, which needs a start day)
fn spec_roll(y: i64, m: i64, roll: &RollDay) -> Option<i64> {
    let day = match roll {
        RollDay::Unspecified {} => return None,
        RollDay::Int { day } => (*day as i64).min(month_len(y, m)),
        RollDay::EoM {} => month_len(y, m),
        RollDay::SoM {} => 1,
        RollDay::IMM {} => imm_day(y, m),
    };
    Some(days_from_civil(y, m, day))
}

pub fn check(case: &Case, idx: u64, acc: &mut Acc) {
    let cj = || serde_json::to_value(case).unwrap();
    match case {
        Case::Months { from, to, wide } => {
            let cal = NamedCal::try_new("all").unwrap();
            let offs = offsets(*wide);
            let rs = rolls();
            for z in *from..=*to {
                let d = to_ndt(z);
                let (y, m, dd) = civil_from_days(z);
                for &off in offs.iter() {
                    let t = 12 * y + (m - 1) + off as i64;
                    let ty = t.div_euclid(12);
                    if ty < 1900 || ty > 2300 {
                        acc.skip();
                        continue;
                    }
                    let crosses_year = ty != y;
                    for r in rs.iter() {
                        acc.eval();
                        let want = spec_add_months(z, off as i64, r);
                        let got = from_ndt(&cal.add_months(&d, off, &Modifier::Act, r, false));
                        let req = match r {
                            RollDay::Unspecified {} => dd,
                            RollDay::Int { day } => *day as i64,
                            RollDay::EoM {} => 31,
                            _ => 0,
                        };
                        let capped = req > civil_from_days(want).2 && req != 0 && !matches!(r, RollDay::EoM {});
                        if crosses_year || capped {
                            acc.nontrivial();
                        }
                        if capped {
                            acc.bump("day capped at month length");
                        }
                        if got != want {
                            acc.violate(
                                &format!("add_months/{}{}", roll_name(r), if off % 12 == 0 { "/multiple-of-12" } else if off < 0 { "/negative" } else { "/positive" }),
                                idx,
                                cj(),
                                json!({"date": fmt_day(z), "months": off, "roll": format!("{:?}", r), "want": fmt_day(want)}),
                                json!(fmt_day(got)),
                            );
                        }
                    }
                }
                if z % 97 == 0 {
                    acc.outcome(&(z, from_ndt(&cal.add_months(&d, 13, &Modifier::Act, &RollDay::EoM {}, false))));
                }
            }
            if idx % 40 == 0 {
                acc.sample(cj);
            }
        }
        Case::MonthFns { y0, y1 } => {
            for y in *y0..=*y1 {
                acc.eval();
                if is_leap_year(y as i32) != is_leap(y) {
                    acc.violate("is_leap_year", idx, cj(), json!({"year": y, "want": is_leap(y)}), json!(is_leap_year(y as i32)));
                }
                for m in 1..=12i64 {
                    acc.evals_add(4);
                    acc.nontrivial();
                    let imm = days_from_civil(y, m, imm_day(y, m));
                    let eom = days_from_civil(y, m, month_len(y, m));
                    let gi = from_ndt(&get_imm(y as i32, m as u32));
                    let ge = from_ndt(&get_eom(y as i32, m as u32));
                    acc.outcome(&(imm_day(y, m), month_len(y, m)));
                    if gi != imm {
                        acc.violate("get_imm", idx, cj(), json!({"year": y, "month": m, "want": fmt_day(imm)}), json!(fmt_day(gi)));
                    }
                    if ge != eom {
                        acc.violate("get_eom", idx, cj(), json!({"year": y, "month": m, "want": fmt_day(eom)}), json!(fmt_day(ge)));
                    }
                    for d in 1..=month_len(y, m) {
                        let z = days_from_civil(y, m, d);
                        let dt = to_ndt(z);
                        if is_imm(&dt) != (z == imm) {
                            acc.violate("is_imm", idx, cj(), json!({"date": fmt_day(z), "want": z == imm}), json!(is_imm(&dt)));
                        }
                        if is_eom(&dt) != (z == eom) {
                            acc.violate("is_eom", idx, cj(), json!({"date": fmt_day(z), "want": z == eom}), json!(is_eom(&dt)));
                        }
                    }
                    for r in rolls() {
                        acc.eval();
                        let got = get_roll(y as i32, m as u32, &r);
                        match (&r, got) {
                            (RollDay::Unspecified {}, Err(_)) => {}
                            (RollDay::Unspecified {}, Ok(v)) => acc.violate("get_roll/Unspecified", idx, cj(), json!("Err"), json!(format!("{:?}", v))),
                            (_, Ok(v)) => {
                                let want = spec_add_months(days_from_civil(y, m, 1), 0, &r);
                                if from_ndt(&v) != want || v.year() as i64 != y {
                                    acc.violate(&format!("get_roll/{}", roll_name(&r)), idx, cj(), json!({"year": y, "month": m, "roll": format!("{:?}", r), "want": fmt_day(want)}), json!(fmt_day(from_ndt(&v))));
                                }
                            }
                            (_, Err(_)) => acc.violate(&format!("get_roll/{}/error", roll_name(&r)), idx, cj(), json!("Ok"), json!("Err")),
                        }
                    }
                }
            }
        }
        Case::MonthPairs { y, m } => {
            let (y1, m1) = (*y as i32, *m as u32);
            let kinds: [RollDay; 4] = [RollDay::IMM {}, RollDay::EoM {}, RollDay::Int { day: 30 }, RollDay::Int { day: 29 }];
            for y2 in 1970..=2200i64 {
                for m2 in 1..=12i64 {
                    acc.evals_add(2);
                    // IMM pair
                    let _ = get_imm(y1, m1);
                    let got = get_imm(y2 as i32, m2 as u32);
                    let want = days_from_civil(y2, m2, imm_day(y2, m2));
                    if from_ndt(&got) != want {
                        acc.violate("pairs/get_imm-after-another-month", idx, cj(), json!({"second": [y2, m2], "want": fmt_day(want)}), json!(fmt_day(from_ndt(&got))));
                        return;
                    }
                    // roll pair: each kind first, each kind second (by rotation)
                    let k1 = &kinds[((y2 + m2) % 4) as usize];
                    let k2 = &kinds[((y2 * 5 + m2 * 3) % 4) as usize];
                    let _ = get_roll(y1, m1, k1);
                    if let (Ok(g), Some(w)) = (get_roll(y2 as i32, m2 as u32, k2), spec_roll(y2, m2, k2)) {
                        if from_ndt(&g) != w {
                            acc.violate(&format!("pairs/get_roll-after-another-month/{}", roll_name(k2)), idx, cj(), json!({"first_kind": roll_name(k1), "second": [y2, m2], "want": fmt_day(w)}), json!(fmt_day(from_ndt(&g))));
                            return;
                        }
                    }
                }
            }
            acc.nontrivial();
            acc.outcome(&(*y, *m));
        }
        Case::Modified { name, from, to } => {
            let cal = NamedCal::try_new(name).unwrap();
            let offs = [-13, -12, -1, 0, 1, 3, 6, 11, 12, 25];
            let rs = [RollDay::Unspecified {}, RollDay::EoM {}, RollDay::SoM {}, RollDay::IMM {}, RollDay::Int { day: 15 }, RollDay::Int { day: 30 }];
            for z in *from..=*to {
                let d = to_ndt(z);
                for off in offs {
                    for r in rs.iter() {
                        let unadj = cal.add_months(&d, off, &Modifier::Act, r, false);
                        for m in MODS.iter() {
                            for flag in [false, true] {
                                acc.eval();
                                let got = cal.add_months(&d, off, m, r, flag);
                                let want = cal.roll(&unadj, m, flag);
                                if got != unadj {
                                    acc.nontrivial();
                                }
                                if got != want {
                                    acc.violate(
                                        &format!("add_months/modifier/{}", mod_name(m)),
                                        idx,
                                        cj(),
                                        json!({"date": fmt_day(z), "months": off, "roll": format!("{:?}", r), "modifier": mod_name(m), "settlement": flag, "want": fmt_day(from_ndt(&want))}),
                                        json!(fmt_day(from_ndt(&got))),
                                    );
                                }
                            }
                        }
                    }
                }
            }
        }
    }
}

pub fn cases(tier: Tier) -> Vec<Case> {
    let mut out = vec![];
    for y in 1970..=2200i64 {
        for m in 1..=12i64 {
            // quick: every month of the leap / century neighbourhoods and every 7th other month as the FIRST call
            if tier == Tier::Thorough || (y * 12 + m) % 7 == 0 || [1972, 1999, 2000, 2024, 2096, 2099, 2100, 2101, 2104, 2199, 2200].contains(&y) {
                out.push(Case::MonthPairs { y, m });
            }
        }
    }
    let wide = tier == Tier::Thorough;
    let mut y = 1970;
    while y <= 2200 {
        out.push(Case::Months { from: days_from_civil(y, 1, 1), to: days_from_civil(y, 12, 31), wide });
        y += 1;
    }
    let mut y0 = 1600;
    while y0 <= 2400 {
        out.push(Case::MonthFns { y0, y1: y0 + 9 });
        y0 += 10;
    }
    let (a, b) = tier.pick((2020, 2027), (1970, 2200));
    for name in ["ldn,tgt|fed", "tgt", "nyc|ldn"] {
        for y in a..=b {
            out.push(Case::Modified { name: name.to_string(), from: days_from_civil(y, 1, 1), to: days_from_civil(y, 12, 31) });
        }
    }
    out
}

pub fn run(ctx: &Ctx, replay_file: Option<String>) -> ! {
    if let Err(e) = crosscheck_chrono() {
        machinery_fail(&format!("chrono vs civil-date model: {}", e));
    }
    if let Some(f) = replay_file {
        replay::<Case, _>(ctx, &f, check);
    }
    let cs = cases(ctx.tier);
    let acc = explore(&cs, check);
    if acc.breakdown.get("day capped at month length").copied().unwrap_or(0) == 0 {
        machinery_fail("vacuous: no capped day");
    }
    let meta = Meta::exploration(
        "EVERY start date 1970-01-01..2200-12-31 x every month offset in -40..40 (thorough -130..130) and \
         +-{48,60,120,144,240,1200,1523,1535,1537,1543,1549,2003,2771} x every roll kind (Unspecified, Int 1..31, EoM, SoM, IMM) with Modifier::Act on the \
         'all' calendar; get_imm / get_eom / is_imm / is_eom / get_roll for every day and month of 1600-2409, \
         is_leap_year for every such year; get_imm and get_roll (IMM, EoM, Int 29, Int 30) for a month called FIRST (every 7th month and all months of 11 leap / century years; thorough: every month) followed by every month of 1970-2200 called second; add_months under the other four modifiers and both settlement flags on \
         three calendars with holidays = roll(unadjusted date). Oracle: civil-date arithmetic (floor division on \
         12*y+m-1+offset, min(requested day, month length), third Wednesday by scanning, Gregorian leap rule). \
         Non-trivial: offsets that change the year, days that were capped.",
        json!({"dates": 84371, "offsets": offsets(ctx.tier == Tier::Thorough).len(), "roll_kinds": 35, "cases": cs.len()}),
    )
    .assume("civil-date model (harness/src/calmodel.rs), cross-checked against chrono on every day 1969-2201");
    finish(ctx, acc, meta)
}
