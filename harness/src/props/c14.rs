//! C14 B-spline basis: non-negative local partition of unity, correct derivatives.
use crate::bspline::*;
use crate::common::*;
use rateslib::dual::{Dual, Dual2, Gradient1, Gradient2};
use rateslib::splines::{bspldnev_single_dual, bspldnev_single_dual2, bspldnev_single_f64, bsplev_single_dual, bsplev_single_dual2, bsplev_single_f64};
use serde::{Deserialize, Serialize};
use serde_json::json;

#[derive(Clone, Debug, Serialize, Deserialize)]
pub struct Case {
    pub k: usize,
    /// (grid position 1..=3 of {0,1,1.5,3,4}, multiplicity)
    pub interior: Vec<(usize, usize)>,
    /// Some(m): instead, m interior knots at j/2 (j = 1..=m), the middle one doubled when k >= 3, domain [0, (m+1)/2]
    #[serde(default)]
    pub long: Option<usize>,
    /// Some(v): instead, a knot vector whose spans differ by sixty binary orders of magnitude: 0, 2^-40, 2^-30, ..,
    /// 2^20 (v = 0), its mirror image -2^20 .. -2^-40, 0 (v = 1), or both joined at zero (v = 2); k-fold end knots
    #[serde(default)]
    pub dyadic: Option<u8>,
}

/// plain Cox-de Boor recursion in doubles (exact `0/0 := 0` rule), returning the value of the m-th derivative and the
/// sum of the absolute values of the terms it was formed from (the scale against which a difference is judged)
fn ref_basis(x: f64, i: usize, k: usize, t: &[f64], m: usize) -> (f64, f64) {
    let last = t[t.len() - 1];
    if k == 1 {
        if m > 0 {
            return (0.0, 0.0);
        }
        let inside = (t[i] <= x && x < t[i + 1]) || (x == last && t[i + 1] == last && t[i] < last);
        return (if inside { 1.0 } else { 0.0 }, if inside { 1.0 } else { 0.0 });
    }
    let (d1, d2) = (t[i + k - 1] - t[i], t[i + k] - t[i + 1]);
    let (mut v, mut s) = (0.0, 0.0);
    if m == 0 {
        if d1 != 0.0 {
            let (a, sa) = ref_basis(x, i, k - 1, t, 0);
            v += (x - t[i]) / d1 * a;
            s += ((x - t[i]) / d1).abs() * sa;
        }
        if d2 != 0.0 {
            let (b, sb) = ref_basis(x, i + 1, k - 1, t, 0);
            v += (t[i + k] - x) / d2 * b;
            s += ((t[i + k] - x) / d2).abs() * sb;
        }
    } else {
        let c = (k - 1) as f64;
        if d1 != 0.0 {
            let (a, sa) = ref_basis(x, i, k - 1, t, m - 1);
            v += c * a / d1;
            s += c * sa / d1;
        }
        if d2 != 0.0 {
            let (b, sb) = ref_basis(x, i + 1, k - 1, t, m - 1);
            v -= c * b / d2;
            s += c * sb / d2;
        }
    }
    (v, s)
}

fn dyadic_knots(k: usize, v: u8) -> Vec<f64> {
    let pos: Vec<f64> = (-4..=2).map(|e| 2.0_f64.powi(10 * e)).collect();
    let mut inner: Vec<f64> = vec![];
    if v >= 1 {
        inner.extend(pos.iter().rev().map(|p| -p));
    }
    inner.push(0.0);
    if v != 1 {
        inner.extend(pos.iter().cloned());
    }
    let mut t = vec![inner[0]; k - 1];
    t.extend(inner.iter().cloned());
    t.extend(std::iter::repeat(*inner.last().unwrap()).take(k - 1));
    t
}

/// knot vectors with spans of very different widths: every value and every derivative against the plain recursion,
/// partition of unity, derivatives summing to zero, and the vector route
fn check_dyadic(case: &Case, v: u8, idx: u64, acc: &mut Acc) {
    let cj = || serde_json::to_value(case).unwrap();
    let k = case.k;
    let t = dyadic_knots(k, v);
    let n = t.len() - k;
    let mut u = t.clone();
    u.dedup();
    let mut pts: Vec<f64> = vec![];
    for w in u.windows(2) {
        pts.push(w[0]);
        for q in [0.25, 0.5, 0.75] {
            pts.push(w[0] + (w[1] - w[0]) * q);
        }
    }
    pts.push(*u.last().unwrap());
    neighbour_checks(&t, k, n, "dyadic", case, idx, acc);
    let sp = rateslib::splines::PPSpline::<f64>::new(k, t.clone(), None);
    for x in pts.iter() {
        for m in 0..k {
            let mut sum = 0.0;
            let mut big = 0.0_f64;
            for i in 0..n {
                acc.evals_add(2);
                let got = if m == 0 { bsplev_single_f64(x, i, &k, &t, None) } else { bspldnev_single_f64(x, i, &k, &t, m, None) };
                let (want, scale) = ref_basis(*x, i, k, &t, m);
                if want != 0.0 {
                    acc.nontrivial();
                }
                acc.outcome(&(k, got.to_bits()));
                sum += got;
                big = big.max(scale);
                if !close_scaled(got, want, 1e-10, scale.max(f64::MIN_POSITIVE)) {
                    acc.violate(&format!("wide-range-knots/{}", if m == 0 { "value" } else { "derivative" }), idx, cj(), json!({"x": format!("{:e}", x), "i": i, "m": m, "want": want}), json!(got));
                }
                let vr = sp.bspldnev(&vec![*x], &i, &m);
                if vr.len() != 1 || (vr[0] != got && vr[0].to_bits() != got.to_bits()) {
                    acc.violate("wide-range-knots/vector-route", idx, cj(), json!({"x": format!("{:e}", x), "i": i, "m": m, "want": got}), json!(vr));
                }
            }
            let want_sum = if m == 0 { 1.0 } else { 0.0 };
            if !close_scaled(sum, want_sum, 1e-10, big.max(1.0)) {
                acc.violate(&format!("wide-range-knots/{}", if m == 0 { "partition-of-unity" } else { "derivatives-sum-to-zero" }), idx, cj(), json!({"x": format!("{:e}", x), "m": m, "want": want_sum}), json!(sum));
            }
        }
    }
    acc.sample(|| json!({"k": k, "t": t}));
}

fn long_knots(k: usize, m: usize) -> Vec<Rat> {
    let mut t = vec![Rat::zero(); k];
    for j in 1..=m {
        t.push(Rat::new(j as i128, 2));
        if k >= 3 && j == (m + 1) / 2 {
            t.push(Rat::new(j as i128, 2));
        }
    }
    for _ in 0..k {
        t.push(Rat::new(m as i128 + 1, 2));
    }
    t
}

/// at the doubles next to every knot (one ulp below and above) the functions still sum to one, are non-negative and
/// vanish outside their support - whichever side of zero the span lies on
fn neighbour_checks(t: &Vec<f64>, k: usize, n: usize, what: &str, case: &Case, idx: u64, acc: &mut Acc) {
    let (lo, hi) = (t[0], t[t.len() - 1]);
    let mut knots: Vec<f64> = t.clone();
    knots.dedup();
    for u in knots {
        for x in [f64::from_bits(if u > 0.0 { u.to_bits() - 1 } else if u < 0.0 { u.to_bits() + 1 } else { (-f64::from_bits(1)).to_bits() }), f64::from_bits(if u > 0.0 { u.to_bits() + 1 } else if u < 0.0 { u.to_bits() - 1 } else { 1 })] {
            if !(x >= lo && x <= hi) {
                continue;
            }
            acc.eval();
            let vals: Vec<f64> = (0..n).map(|i| bsplev_single_f64(&x, i, &k, t, None)).collect();
            let sum: f64 = vals.iter().sum();
            let outside = (0..n).any(|i| (x < t[i] || x > t[i + k]) && vals[i] != 0.0);
            if (sum - 1.0).abs() > 1e-12 || vals.iter().any(|v| *v < 0.0 || *v > 1.0 + 1e-12) || outside {
                acc.violate(&format!("next-to-a-knot/{}", what), idx, serde_json::to_value(case).unwrap(), json!({"knot": u, "x": format!("{:e}", x), "want_sum": 1.0}), json!({"sum": sum, "values": vals}));
                return;
            }
        }
    }
}

pub fn check(case: &Case, idx: u64, acc: &mut Acc) {
    if let Some(v) = case.dyadic {
        return check_dyadic(case, v, idx, acc);
    }
    let cj = || serde_json::to_value(case).unwrap();
    let k = case.k;
    let tr = match case.long {
        Some(m) => long_knots(k, m),
        None => knots(k, &case.interior),
    };
    let t: Vec<f64> = tr.iter().map(|r| r.f()).collect();
    let basis = Basis::new(k, &tr);
    let n = basis.n();
    let pts = eval_points(&basis.u);
    // a call with an index beyond the last function (it aborts; the abort is caught) must leave nothing behind for the
    // calls that follow on this thread
    if k >= 2 {
        let _ = guarded(|| bspldnev_single_f64(&t[k - 1], n + 1, &k, &t, 1, None));
        let _ = guarded(|| bsplev_single_f64(&t[k - 1], n + 2, &k, &t, None));
    }
    neighbour_checks(&t, k, n, "as-given", case, idx, acc);
    let hmin = basis.u.windows(2).map(|w| w[1].sub(w[0]).f()).fold(f64::INFINITY, f64::min);
    let last = *basis.u.last().unwrap();
    let repeated = case.interior.iter().any(|(_, m)| *m > 1) || (case.long.is_some() && k >= 3);
    for x in pts.iter() {
        let xf = x.f();
        let at_knot = basis.u.contains(x);
        let at_right_end = *x == last;
        let place = if at_right_end { "right-end-point" } else if at_knot { "at-knot" } else { "inside-span" };
        // model sanity (the oracle itself must be a partition of unity)
        let msum = (0..n).fold(Rat::zero(), |a, i| a.add(basis.eval(i, 0, *x)));
        if msum != Rat::int(1) {
            machinery_fail(&format!("rational model is not a partition of unity at {:?} for {:?}", x, case));
        }
        let mut sum = 0.0;
        for i in 0..n {
            acc.eval();
            let v = bsplev_single_f64(&xf, i, &k, &t, None);
            sum += v;
            let want = basis.eval(i, 0, *x);
            if !want.is_zero() && at_knot {
                acc.nontrivial();
            }
            acc.outcome(&(k, v.to_bits()));
            if v < 0.0 {
                acc.violate(&format!("negative/{}", place), idx, cj(), json!({"x": xf, "i": i}), json!(v));
            }
            let outside = x.lt(tr[i]) || tr[i + k].lt(*x);
            if outside && v != 0.0 {
                acc.violate(&format!("support/{}", place), idx, cj(), json!({"x": xf, "i": i, "want": 0.0}), json!(v));
            }
            if !close_scaled(v, want.f(), 1e-12, 1.0) {
                acc.violate(&format!("value/{}", place), idx, cj(), json!({"x": xf, "i": i, "want": want.f()}), json!(v));
            }
            for m in 0..=(k + 1) {
                acc.eval();
                let d = bspldnev_single_f64(&xf, i, &k, &t, m, None);
                let w = basis.eval(i, m, *x).f();
                if m >= k {
                    if d != 0.0 {
                        acc.violate(&format!("derivative/order>=k/{}", place), idx, cj(), json!({"x": xf, "i": i, "m": m, "want": 0.0}), json!(d));
                    }
                    continue;
                }
                let scale = (2.0 * (k as f64 - 1.0).max(1.0) / hmin).powi(m as i32);
                // the same basis function at a dual-number abscissa: value, and the next one / two derivatives as
                // first / second order sensitivities (chain rule with gradient 1.5 and second derivative 0.5 on x)
                {
                    acc.evals_add(2);
                    let (w1, w2) = (basis.eval(i, m + 1, *x).f(), basis.eval(i, m + 2, *x).f());
                    let xd = Dual::try_new(xf, vec!["x".to_string()], vec![1.5]).unwrap();
                    let xd2 = Dual2::try_new(xf, vec!["x".to_string()], vec![1.5], vec![0.25]).unwrap();
                    let (s1, s2) = (scale * 2.0 * (k as f64) / hmin, scale * (2.0 * (k as f64) / hmin).powi(2));
                    let names = vec!["x".to_string()];
                    let r1 = if m == 0 { bsplev_single_dual(&xd, i, &k, &t, None) } else { bspldnev_single_dual(&xd, i, &k, &t, m, None) };
                    if !close_scaled(r1.real(), w, 1e-10, scale) || !close_scaled(r1.gradient1(names.clone())[0], 1.5 * w1, 1e-10, 1.5 * s1) {
                        acc.violate(&format!("dual-abscissa/first-order/{}", place), idx, cj(), json!({"x": xf, "i": i, "m": m, "want": [w, 1.5 * w1]}), json!(format!("{:?}", r1)));
                    }
                    let r2 = if m == 0 { bsplev_single_dual2(&xd2, i, &k, &t, None) } else { bspldnev_single_dual2(&xd2, i, &k, &t, m, None) };
                    let want_h = 0.5 * w1 + 2.25 * w2;
                    if !close_scaled(r2.real(), w, 1e-10, scale)
                        || !close_scaled(r2.gradient1(names.clone())[0], 1.5 * w1, 1e-10, 1.5 * s1)
                        || !close_scaled(r2.gradient2(names.clone())[[0, 0]], want_h, 1e-10, 0.5 * s1 + 2.25 * s2)
                    {
                        acc.violate(&format!("dual-abscissa/second-order/{}", place), idx, cj(), json!({"x": xf, "i": i, "m": m, "want": [w, 1.5 * w1, want_h]}), json!(format!("{:?}", r2)));
                    }
                }
                if !close_scaled(d, w, 1e-10, scale) {
                    acc.violate(
                        &format!("derivative/m{}/{}{}", if m + 1 == k { "=k-1".to_string() } else if m >= 3 { ">=3".to_string() } else { format!("={}", m) }, place, if repeated { "/repeated-knots" } else { "" }),
                        idx,
                        cj(),
                        json!({"x": xf, "i": i, "m": m, "want": w}),
                        json!(d),
                    );
                }
            }
        }
        if (sum - 1.0).abs() > 1e-12 {
            acc.violate(&format!("partition-of-unity/{}", place), idx, cj(), json!({"x": xf, "want": 1.0}), json!(sum));
        }
    }
    // scale invariance: knots and abscissa multiplied by a power of two (exact in binary floating point) give
    // bit-identical values, and derivatives scaled by the exact inverse power
    let very_long = n > 100; // the extra passes are quadratic in the number of functions: reduced for the longest vectors
    for e in if very_long { vec![-1054i32, 40] } else { vec![-1060i32, -1054, -1022, -80, -60, -54, -53, -30, 40, 900] } {
        let f = 2.0_f64.powi(e / 2) * 2.0_f64.powi(e - e / 2); // (powi alone overflows its intermediate beyond 2^-1023)
        if !(f > 0.0 && f.is_finite()) {
            machinery_fail("scale factor left the double range");
        }
        let ts: Vec<f64> = t.iter().map(|v| v * f).collect();
        for x in pts.iter() {
            let (xf, xs) = (x.f(), x.f() * f);
            for i in 0..n {
                acc.evals_add(2);
                let (v, vs) = (bsplev_single_f64(&xf, i, &k, &t, None), bsplev_single_f64(&xs, i, &k, &ts, None));
                if v.to_bits() != vs.to_bits() && v != vs {
                    acc.violate("scale-invariance/value", idx, cj(), json!({"x": xf, "i": i, "scale": format!("2^{}", e), "want": v}), json!(vs));
                    return;
                }
                if k >= 2 {
                    let raw = bspldnev_single_f64(&xs, i, &k, &ts, 1, None);
                    let (d, ds) = (bspldnev_single_f64(&xf, i, &k, &t, 1, None), raw * f);
                    // (at the ends of the double range the rescaled derivative itself leaves the range: not judged)
                    if raw.is_finite() && (raw == 0.0 || raw.abs() > 1e-290) && d != ds {
                        acc.violate("scale-invariance/derivative", idx, cj(), json!({"x": xf, "i": i, "scale": format!("2^{}", e), "want": d}), json!(ds));
                        return;
                    }
                }
            }
        }
    }
    // the vector route PPSpline::bspldnev agrees bit for bit with the single-point route whatever the order of the points
    {
        let sp = rateslib::splines::PPSpline::<f64>::new(k, t.clone(), None);
        let xs_sorted: Vec<f64> = pts.iter().map(|p| p.f()).collect();
        let np = xs_sorted.len();
        let mut orders: Vec<Vec<f64>> = vec![xs_sorted.clone(), xs_sorted.iter().rev().cloned().collect()];
        let mut scr: Vec<f64> = (0..np).map(|j| xs_sorted[(j * 7 + 3) % np]).collect();
        scr.extend(xs_sorted.iter().take(3).cloned()); // repeats
        orders.push(scr);
        for (oi, xs) in orders.iter().enumerate() {
            for i in 0..n {
                for m in 0..k.min(3) {
                    acc.eval();
                    let v = sp.bspldnev(xs, &i, &m);
                    let bad = v.len() != xs.len() || xs.iter().zip(v.iter()).any(|(x, g)| {
                        let w = bspldnev_single_f64(x, i, &k, &t, m, None);
                        g.to_bits() != w.to_bits() && *g != w
                    });
                    if bad {
                        acc.violate("vector-route/differs-from-single-point", idx, cj(), json!({"i": i, "m": m, "point_order": (["ascending", "descending", "scrambled with repeats"])[oi]}), json!(v));
                        break;
                    }
                }
            }
        }
    }
    // far translation: knots x 4 + 2^53 (all even, hence exactly representable where doubles are 2 apart); only the
    // evaluation points that stay representable are used. Values are unchanged, first derivatives are a quarter.
    {
        let big = 9007199254740992.0_f64; // 2^53
        let ts: Vec<f64> = t.iter().map(|v| v * 4.0 + big).collect();
        if ts.iter().zip(t.iter()).all(|(a, b)| a - big == b * 4.0) {
            for x in pts.iter() {
                let xf = x.f();
                let xs = xf * 4.0 + big;
                if xs - big != xf * 4.0 {
                    continue;
                }
                for i in 0..n {
                    acc.evals_add(2);
                    let (v, vs) = (bsplev_single_f64(&xf, i, &k, &t, None), bsplev_single_f64(&xs, i, &k, &ts, None));
                    if v != vs {
                        acc.violate("far-translation/value", idx, cj(), json!({"x": xf, "i": i, "want": v}), json!(vs));
                        return;
                    }
                    for m in 1..k.min(4) {
                        let (d, ds) = (bspldnev_single_f64(&xf, i, &k, &t, m, None), bspldnev_single_f64(&xs, i, &k, &ts, m, None) * 4.0_f64.powi(m as i32));
                        if d != ds {
                            acc.violate("far-translation/derivative", idx, cj(), json!({"x": xf, "i": i, "m": m, "want": d}), json!(ds));
                            return;
                        }
                    }
                }
            }
        }
    }
    // translation: knots and abscissa shifted by an exactly representable amount give bit-identical values and
    // derivatives; shifts that put a knot (the right end point, an interior knot, the left end point) exactly at zero
    // are evaluated with both signs of zero for the abscissa and for the stored knot
    for shift in if very_long { vec![0.0 - t[t.len() - 1]] } else { vec![-4.0_f64, -1.5, -3.0, 0.0 - t[0], 1024.0] } {
        for neg_zero_knots in [false, true] {
            let ts: Vec<f64> = t.iter().map(|v| { let y = v + shift; if y == 0.0 { if neg_zero_knots { -0.0 } else { 0.0 } } else { y } }).collect();
            if !neg_zero_knots && !ts.iter().any(|v| *v == 0.0) && shift != 1024.0 {
                continue;
            }
            if neg_zero_knots && !ts.iter().any(|v| *v == 0.0) {
                continue;
            }
            neighbour_checks(&ts, k, n, "translated", case, idx, acc);
            for x in pts.iter() {
                let xf = x.f();
                let xs0 = xf + shift;
                let variants: Vec<f64> = if xs0 == 0.0 { vec![0.0, -0.0] } else { vec![xs0] };
                for xs in variants {
                    for i in 0..n {
                        acc.evals_add(2);
                        let (v, vs) = (bsplev_single_f64(&xf, i, &k, &t, None), bsplev_single_f64(&xs, i, &k, &ts, None));
                        if v != vs {
                            acc.violate("translation/value", idx, cj(), json!({"x": xf, "i": i, "shift": shift, "abscissa": format!("{:?}", xs), "negative_zero_knots": neg_zero_knots, "want": v}), json!(vs));
                            return;
                        }
                        if k >= 2 {
                            let (d, ds) = (bspldnev_single_f64(&xf, i, &k, &t, 1, None), bspldnev_single_f64(&xs, i, &k, &ts, 1, None));
                            if d != ds {
                                acc.violate("translation/derivative", idx, cj(), json!({"x": xf, "i": i, "shift": shift, "abscissa": format!("{:?}", xs), "negative_zero_knots": neg_zero_knots, "want": d}), json!(ds));
                                return;
                            }
                        }
                    }
                }
            }
        }
    }
    // just outside the domain every function is zero
    for xf in [t[0] - 0.25, t[t.len() - 1] + 0.25] {
        for i in 0..n {
            acc.eval();
            if bsplev_single_f64(&xf, i, &k, &t, None) != 0.0 {
                acc.violate("support/outside-domain", idx, cj(), json!({"x": xf, "i": i, "want": 0.0}), json!(bsplev_single_f64(&xf, i, &k, &t, None)));
            }
        }
    }
    if idx % 37 == 0 {
        acc.sample(|| json!({"k": k, "t": t}));
    }
}

pub fn cases(tier: Tier) -> Vec<Case> {
    let kmax = tier.pick(6, 7);
    let mut out = vec![];
    for k in 1..=kmax {
        for interior in interior_configs(k) {
            out.push(Case { k, interior, long: None, dyadic: None });
        }
    }
    for k in 1..=5usize {
        for m in [7usize, 8, 15, 16, 17, 31, 32, 33, 64, 255, 256, 257] {
            if m >= 255 && (tier != Tier::Thorough || !((m == 256 && k == 2) || (m == 257 && k == 4) || (m == 255 && k == 3))) {
                continue;
            }
            out.push(Case { k, interior: vec![], long: Some(m), dyadic: None });
        }
    }
    for k in 1..=6usize {
        for v in 0..3u8 {
            out.push(Case { k, interior: vec![], long: None, dyadic: Some(v) });
        }
    }
    out
}

pub fn run(ctx: &Ctx, replay_file: Option<String>) -> ! {
    if let Some(f) = replay_file {
        replay::<Case, _>(ctx, &f, check);
    }
    let cs = cases(ctx.tier);
    let acc = explore(&cs, check);
    let meta = Meta::exploration(
        "order k = 1..6 (7); knot vector = k-fold end knots at 0 and 4 plus EVERY subset of the interior positions \
         {1, 1.5, 3} with EVERY multiplicity vector in 1..k-1 per interior knot; every basis index; every derivative \
         order m = 0..k+1; evaluation at every break point (both end points included) and at the 1/4, 1/2, 3/4 points \
         of every span (all exactly representable). Oracle: exact rational Cox-de Boor model (polynomial pieces with \
         i128 rational coefficients, symbolic derivatives, right limit, left limit at the right end point): value >= 0 \
         with no tolerance, exactly 0 outside [t_i, t_{i+k}], sum = 1 to 1e-12, m-th derivative equal to the model's, \
         exactly 0 for m >= k; the dual-abscissa variants (bsplev/bspldnev_single_dual, _dual2) return the same \
         value with the next one / two derivatives as first / second order sensitivities. Scale invariance: every knot vector and abscissa multiplied by 2^e, e in {-1060,-1054,-1022,-80,-60,-54,-53,-30,40,900} (subnormal knots included), gives bit-identical values and exactly rescaled first derivatives. Translation: every knot vector and abscissa shifted by -4, -3, -1.5, -t0 and 1024 (exact) gives identical values and first derivatives, with both signs of zero tried for an abscissa and for a stored knot that lands on zero. Far translation: knots x 4 + 2^53 (spans of one or two ulps of the knot values) at the representable points, values and derivatives up to order 3. At the doubles one ulp below and above every knot (as given and translated, so also for spans that straddle zero) the functions sum to one, are non-negative and respect their support; every case starts with two calls whose index is out of range (caught), which must leave nothing behind. Vector route: PPSpline::bspldnev on ascending, descending and scrambled-with-repeats point vectors equals the single-point route. Long knot vectors: orders 1..5 with 7, 8, 15, 16, 17, 31, 32, 33, 64 interior knots (thorough tier: also 255 / 256 / 257 at order 3 / 2 / 4) at half-integer positions (middle knot doubled). Wide-range knot vectors (0, 2^-40, 2^-30, .., 2^20, the mirror image, and both joined; orders 1..6): every value and derivative against a plain double-precision Cox-de Boor recursion judged relative to the size of its terms, partition of unity, derivatives summing to zero, vector route. The model itself is checked to be a partition of unity at every point. Non-trivial: \
         evaluations exactly at a knot where the function is non-zero.",
        json!({"max_order": ctx.tier.pick(6, 7), "knot_vectors": cs.len()}),
    )
    .assume("knots on the grid {0,1,1.5,3,4} (uneven spacing) or on the half-integer grid (long vectors); other values are not enumerated");
    finish(ctx, acc, meta)
}
