//! C01 First-order automatic differentiation is exact.
use crate::common::*;
use crate::progs::*;
use rateslib::dual::Dual;
use serde_json::json;

pub fn run(ctx: &Ctx, replay_file: Option<String>) -> ! {
    if let Some(f) = replay_file {
        replay::<Case, _>(ctx, &f, |c, i, acc| replay_case::<Dual>("C01", c, i, acc));
    }
    let (kfull, kmax) = ctx.tier.pick((3, 3), (3, 4));
    let (acc0, mut bound) = explore_programs::<Dual>("C01", kfull, kmax, 2);
    let (acc1, bound1) = explore_magnitudes::<Dual>("C01", ctx.tier.pick(2, 3));
    let (acc2, bound2) = crate::largeops::explore_large("C01", false);
    let (acc3, bound3) = explore_deep::<Dual>("C01");
    let acc = acc0.merge(acc1).merge(acc2).merge(acc3);
    bound["deep_formulas"] = bound3;
    bound["second_value_table_magnitudes"] = bound1;
    bound["many_names"] = bound2;
    let meta = Meta::exploration(
        "programs = breadth-first closure of {8 leaves incl. a zero-valued and a one-valued one} under 10 unary operators (neg, pow 2/3/-1/0.5, exp, log, \
         norm_cdf, inv_norm_cdf, abs) and + - * / in the kind mixes dual-dual, dual-float, float-dual; EVERY program \
         with <= k operators is executed on the real Dual (all owned/borrowed operand forms at the root up to \
         max_operators_all_forms) and compared in lock step with (i) plain f64 evaluation, (ii) the true gradient \
         from the RefDual reference read back by name in a shuffled order with an absent name, (iii) the same \
         program with the float literal promoted to a variable-free Dual. Programs leaving the differentiable or \
         well-conditioned domain are skipped and counted. The reference rules themselves are validated against \
         central finite differences of the plain program for all programs of <= 2 operators. Deep formulas: nine chains of 10 .. 60 operators (Horner scheme, continued fraction, exp/log tower, cdf / inverse-cdf ping-pong, power chain, 24-term sum of products, Black-Scholes price, balanced tree of 32 leaves, sign chain), every intermediate stage judged as a program of its own, on both leaf tables. Awkward magnitudes: the unary functions at arguments 1.2e154, 1e154, 2.5e153, 1e-120, 1e-107, 7e-155, 3e-162, 1e300, 1e-300, 4e-320 - every component whose true value is representable must be right (an intermediate product leaving the range is a defect). Unusual powers: x^p for 12 (x, p) pairs incl. whole exponents of 2^31 .. 6e9 at bases next to +-1 and large odd exponents at -1. Many-names pass: each of the 10 unary \
         functions (borrowed and owned) on a number carrying 7, 8, 9, 15, 16, 17, 31, 32, 33, 63, 64, 65, 100, 130, 255, 256, 257 names stored in three orders \
         (gradient = f'(x) g by name; binary operators on such numbers are C03's). Non-trivial: >= 2 \
         operators and >= 2 distinct variable names in the result.",
        bound,
    )
    .assume("derivative rules are exercised at two leaf-value tables only: (0.7, 1.3, -0.6, 2.1, 0.9, 0, 1) to full depth and (1.5e6, 2.5e-6, -4e3, 7e-3, 3e5, 0, 1) to 2 (3) operators")
    .assume("RefDual reference model, itself cross-checked by finite differences on all <=2-operator programs")
    .assume("statrs normal cdf / inverse cdf are the 'plain' evaluation of those two functions");
    finish(ctx, acc, meta)
}
