//! C05 Business-day arithmetic counts exactly the business days it says it does.
use crate::calmodel::*;
use crate::common::*;
use rateslib::calendars::{Cal, DateRoll, NamedCal, UnionCal};
use serde::{Deserialize, Serialize};
use serde_json::json;

#[derive(Clone, Debug, Serialize, Deserialize)]
pub enum Case {
    /// window word (N: holiday of the business calendar, B: holiday of the settlement calendar, S: neither)
    /// on top of periodic week masks for the business and the settlement calendar
    Word { w: String, bmask: u8, smask: Option<u8> },
    /// a run of `r` consecutive business-calendar holidays starting `start` days after 2024-02-26 (Sat-Sun mask),
    /// settlement calendar closed on the first `b` weekdays after the run
    Run { r: i64, start: i64, b: i64 },
    /// a closure of more than 65 535 consecutive days from 1975-01-02: counts from the days around its two ends
    HugeRun { r: i64 },
    /// a union with a settlement calendar created on one fresh thread and used on another fresh thread, on which a
    /// different union (other settlement closures) was created at the same point of that thread's life and used first
    CrossThread { warmup: usize },
    /// a mask-only calendar used around the start of the proleptic calendar (years -1, 0 and 1), where the day number
    /// counted from the common era changes sign
    Ancient { bmask: u8 },
    /// a mask-only calendar and start instants that lie inside a leap second (23:59:60.5 and 11:30:60.25, which chrono
    /// represents with a nanosecond field above 10^9): the count is by calendar day and the time of day is kept
    LeapSecond { bmask: u8 },
    /// named calendar; start dates from..=to (day numbers), day counts: all i8 or the reduced menu
    Named { name: String, from: i64, to: i64, all_counts: bool },
}

const BMASKS: [u8; 4] = [0, 0b1100000, 0b0110000, 0b0011111];
const SMASKS: [Option<u8>; 4] = [None, Some(0b1100000), Some(0b1000001), Some(0)];

fn mask_vec(m: u8) -> Vec<u8> {
    (0..7u8).filter(|i| m & (1 << i) != 0).collect()
}

struct Index {
    lo: i64,
    bd: Vec<i64>,
    /// number of business days strictly before lo+i
    before: Vec<usize>,
}

impl Index {
    fn new(bm: &Bitmap) -> Index {
        let mut bd = vec![];
        let mut before = Vec::with_capacity(bm.bus.len());
        for (i, b) in bm.bus.iter().enumerate() {
            before.push(bd.len());
            if *b {
                bd.push(bm.lo + i as i64);
            }
        }
        Index { lo: bm.lo, bd, before }
    }
    /// the |n|-th business day strictly after/before z (z itself when n == 0 and z is a business day)
    fn nth(&self, bm: &Bitmap, z: i64, n: i64) -> Option<i64> {
        let b = self.before[(z - self.lo) as usize] as i64;
        let k = if bm.is_bus(z) {
            b + n
        } else if n > 0 {
            b + n - 1
        } else if n < 0 {
            b + n
        } else {
            return None;
        };
        if k < 0 || k as usize >= self.bd.len() {
            None
        } else {
            Some(self.bd[k as usize])
        }
    }
}

fn counts(all: bool) -> Vec<i8> {
    if all {
        (i8::MIN..=i8::MAX).collect()
    } else {
        let mut v: Vec<i8> = (-10..=10).collect();
        v.extend([20, 63, 64, 100, 126, 127, -20, -63, -64, -100, -126, -127, -128]);
        v
    }
}

fn check_cal<C: DateRoll>(cal: &C, bm: &Bitmap, d_lo: i64, d_hi: i64, ns: &[i8], with_ranges: bool, tag: &str, case: &Case, idx: u64, acc: &mut Acc) {
    let ix = Index::new(bm);
    let cj = || serde_json::to_value(case).unwrap();
    for z in d_lo..=d_hi {
        let d = to_ndt(z);
        let is_bus = bm.is_bus(z);
        for &n in ns {
            for flag in [false, true] {
                // ---- add_bus_days
                acc.eval();
                let got = cal.add_bus_days(&d, n, flag);
                if !is_bus {
                    if got.is_ok() {
                        acc.violate(&format!("add_bus_days/{}/non-business-start-accepted", tag), idx, cj(), json!({"date": fmt_day(z), "n": n, "want": "Err"}), json!("Ok"));
                    }
                } else {
                    let raw = ix.nth(bm, z, n as i64);
                    let want = raw.and_then(|e| {
                        if !flag {
                            Some(e)
                        } else if n < 0 {
                            bm.previous(e, true)
                        } else {
                            bm.following(e, true)
                        }
                    });
                    match (want, got) {
                        (None, _) => acc.skip(),
                        (Some(w), Ok(g)) => {
                            let g = from_ndt(&g);
                            if (g - z).abs() > n.unsigned_abs() as i64 {
                                acc.nontrivial();
                                acc.bump("crossed a non-business day");
                            }
                            if flag && Some(g) != raw {
                                acc.bump("settlement moved the result");
                            }
                            if g != w {
                                acc.violate(
                                    &format!("add_bus_days/{}/{}{}", tag, if n < 0 { "backward" } else if n > 0 { "forward" } else { "zero" }, if flag { "/settle" } else { "" }),
                                    idx,
                                    cj(),
                                    json!({"date": fmt_day(z), "n": n, "settlement": flag, "want": fmt_day(w)}),
                                    json!(fmt_day(g)),
                                );
                            } else if !flag && n != i8::MIN {
                                // inverse law
                                match cal.add_bus_days(&to_ndt(g), -n, false) {
                                    Ok(b) if from_ndt(&b) == z => {}
                                    other => acc.violate(
                                        &format!("add_bus_days/{}/inverse", tag),
                                        idx,
                                        cj(),
                                        json!({"date": fmt_day(z), "n": n, "want": "back to start"}),
                                        json!(format!("{:?}", other.map(|x| fmt_day(from_ndt(&x))).ok())),
                                    ),
                                }
                            }
                        }
                        (Some(w), Err(_)) => acc.violate(&format!("add_bus_days/{}/unexpected-error", tag), idx, cj(), json!({"date": fmt_day(z), "n": n, "want": fmt_day(w)}), json!("Err")),
                    }
                }
                // ---- lag
                acc.eval();
                let lg = from_ndt(&cal.lag(&d, n, flag));
                let raw = if is_bus || n != 0 { ix.nth(bm, z, n as i64) } else { bm.following(z, false) };
                match raw {
                    None => acc.skip(),
                    Some(e) => {
                        let adj = if !flag {
                            Some(e)
                        } else if n < 0 {
                            bm.previous(e, true)
                        } else {
                            bm.following(e, true)
                        };
                        // n == 0 on a non-business day: the statement does not say whether settlement is
                        // applied; either reading is accepted
                        let ok = match adj {
                            None => true,
                            Some(w) => lg == w || (!is_bus && n == 0 && lg == e),
                        };
                        if !ok {
                            acc.violate(
                                &format!("lag/{}/{}{}", tag, if is_bus { "business-start" } else { "non-business-start" }, if flag { "/settle" } else { "" }),
                                idx,
                                cj(),
                                json!({"date": fmt_day(z), "n": n, "settlement": flag, "want": adj.map(fmt_day)}),
                                json!(fmt_day(lg)),
                            );
                        }
                    }
                }
            }
            // ---- add_days = calendar shift then roll
            for m in MODS.iter() {
                for flag in [false, true] {
                    let shifted = z + n as i64;
                    if shifted < bm.lo + 40 || shifted > bm.hi() - 40 {
                        acc.skip();
                        continue;
                    }
                    if let Some(w) = bm.roll(shifted, m, flag) {
                        acc.eval();
                        let g = from_ndt(&cal.add_days(&d, n, m, flag));
                        if g != w {
                            acc.violate(
                                &format!("add_days/{}/{}", tag, mod_name(m)),
                                idx,
                                cj(),
                                json!({"date": fmt_day(z), "n": n, "modifier": mod_name(m), "settlement": flag, "want": fmt_day(w)}),
                                json!(fmt_day(g)),
                            );
                        }
                    }
                }
            }
        }
        acc.outcome(&(tag.len(), z - d_lo, is_bus, cal.lag(&d, 3, true), cal.lag(&d, -2, false)));
        // ---- business date ranges starting here
        if with_ranges {
            for e in z - 1..=(z + 12).min(d_hi + 6) {
                acc.eval();
                // the calendar-date range is every date from start to end inclusive (empty when end < start)
                match cal.cal_date_range(&d, &to_ndt(e)) {
                    Ok(v) => {
                        let want: Vec<i64> = (z..=e).collect();
                        if v.iter().map(from_ndt).collect::<Vec<i64>>() != want {
                            acc.violate(&format!("cal_date_range/{}", tag), idx, cj(), json!({"start": fmt_day(z), "end": fmt_day(e), "want_len": want.len()}), json!(v.len()));
                        }
                    }
                    Err(_) => acc.violate(&format!("cal_date_range/{}/unexpected-error", tag), idx, cj(), json!({"start": fmt_day(z), "end": fmt_day(e)}), json!("Err")),
                }
                // start and end carrying a time of day (06:00 / 18:00 in both assignments): the business-date range is
                // still exactly the business days of the calendar-date range - empty when the end precedes the start,
                // by however little
                if e <= z + 2 {
                    for (hs, he) in [(18u64, 6u64), (6, 18)] {
                        let (ds, de) = (d + chrono::Duration::hours(hs as i64), to_ndt(e) + chrono::Duration::hours(he as i64));
                        acc.eval();
                        if let (Ok(b), Ok(c)) = (cal.bus_date_range(&ds, &de), cal.cal_date_range(&ds, &de)) {
                            let want: Vec<_> = c.into_iter().filter(|x| cal.is_bus_day(x)).collect();
                            if b != want {
                                acc.violate(
                                    &format!("bus_date_range/time-of-day/{}", tag),
                                    idx,
                                    cj(),
                                    json!({"start": format!("{}", ds), "end": format!("{}", de), "want": want.iter().map(|x| format!("{}", x)).collect::<Vec<_>>()}),
                                    json!(b.iter().map(|x| format!("{}", x)).collect::<Vec<_>>()),
                                );
                            }
                        }
                    }
                }
                let got = cal.bus_date_range(&d, &to_ndt(e));
                let ends_ok = is_bus && bm.is_bus(e);
                match (ends_ok, got) {
                    (false, Ok(v)) => acc.violate(&format!("bus_date_range/{}/non-business-end-accepted", tag), idx, cj(), json!({"start": fmt_day(z), "end": fmt_day(e), "want": "Err"}), json!(v.len())),
                    (false, Err(_)) => {}
                    (true, Err(_)) => acc.violate(&format!("bus_date_range/{}/unexpected-error", tag), idx, cj(), json!({"start": fmt_day(z), "end": fmt_day(e)}), json!("Err")),
                    (true, Ok(v)) => {
                        let want: Vec<i64> = (z..=e).filter(|x| bm.is_bus(*x)).collect();
                        let gotd: Vec<i64> = v.iter().map(from_ndt).collect();
                        if want.len() >= 2 && (e - z) as usize + 1 > want.len() {
                            acc.nontrivial();
                        }
                        if want != gotd {
                            acc.violate(
                                &format!("bus_date_range/{}", tag),
                                idx,
                                cj(),
                                json!({"start": fmt_day(z), "end": fmt_day(e), "want": want.iter().map(|x| fmt_day(*x)).collect::<Vec<_>>()}),
                                json!(gotd.iter().map(|x| fmt_day(*x)).collect::<Vec<_>>()),
                            );
                        }
                    }
                }
            }
        }
    }
}

pub fn check(case: &Case, idx: u64, acc: &mut Acc) {
    match case {
        Case::Word { w, bmask, smask } => {
            let z0 = days_from_civil(2024, 2, 26); // Monday
            let (n, b) = super::c04::word_days(w, z0);
            // holidays are handed over in date order, reversed, interleaved, or each twice (the supply must not matter)
            let mut nn = n.clone();
            match idx % 4 {
                1 => nn.reverse(),
                2 => {
                    let (ev, od): (Vec<i64>, Vec<i64>) = (nn.iter().step_by(2).cloned().collect(), nn.iter().skip(1).step_by(2).cloned().collect());
                    nn = od.into_iter().chain(ev).collect();
                }
                3 => {
                    // every holiday listed twice (once in order, once reversed behind it)
                    let rev: Vec<i64> = nn.iter().rev().cloned().collect();
                    nn.extend(rev);
                }
                _ => {}
            }
            let bus = Cal::new(nn.iter().map(|z| to_ndt(*z)).collect(), mask_vec(*bmask));
            let (lo, hi) = (z0 - 1000, z0 + 1000);
            let ns = counts(true);
            let wl = w.len() as i64;
            // the oracle's calendar is built from the DEFINITION (week masks + word), not from the real predicates
            let wb = w.as_bytes();
            let model = |z: i64| {
                let wd = weekday(z) as u8;
                let off = z - z0;
                let letter = if off >= 0 && off < wl { wb[off as usize] } else { b'S' };
                let bus_day = bmask & (1 << wd) == 0 && letter != b'N';
                let settle_day = smask.map_or(true, |sm| sm & (1 << wd) == 0) && letter != b'B';
                (bus_day, settle_day)
            };
            let bm = Bitmap::from_fn(lo, hi, model);
            match smask {
                None => {
                    if b.is_empty() {
                        check_cal(&bus, &bm, z0 - 1, z0 + wl, &ns, true, "Cal", case, idx, acc);
                    }
                    let u = UnionCal::new(vec![bus], if b.is_empty() { None } else { Some(vec![Cal::new(b.iter().map(|z| to_ndt(*z)).collect(), vec![])]) });
                    check_cal(&u, &bm, z0 - 1, z0 + wl, &ns, true, "UnionCal", case, idx, acc);
                }
                Some(sm) => {
                    if (bmask | sm) & 0x7f == 0x7f {
                        acc.skip();
                        return;
                    }
                    let u = UnionCal::new(vec![bus], Some(vec![Cal::new(b.iter().map(|z| to_ndt(*z)).collect(), mask_vec(*sm))]));
                    check_cal(&u, &bm, z0 - 1, z0 + wl, &ns, true, "UnionCal", case, idx, acc);
                    // the same calendar with its working weeks SPLIT over two members and two settlement calendars
                    // (each closes some of the weekdays; holidays sit in the one listed first or second by case
                    // index) - every member's and every settlement calendar's own week must be honoured
                    if idx % 5 == 0 {
                        let split = |m: u8| -> (u8, u8) {
                            let lo_bit = m & m.wrapping_neg(); // lowest closed weekday
                            if m == lo_bit { (0, m) } else { (m & !lo_bit, lo_bit) } // (listed first, listed second)
                        };
                        let (b1, b2) = split(*bmask);
                        let (s1, s2) = split(*sm);
                        let hol: Vec<_> = nn.iter().map(|z| to_ndt(*z)).collect();
                        let sh: Vec<_> = b.iter().map(|z| to_ndt(*z)).collect();
                        let (m1, m2) = if idx % 2 == 0 { (Cal::new(hol.clone(), mask_vec(b1)), Cal::new(vec![], mask_vec(b2))) } else { (Cal::new(vec![], mask_vec(b1)), Cal::new(hol.clone(), mask_vec(b2))) };
                        let (t1, t2) = if idx % 2 == 0 { (Cal::new(vec![], mask_vec(s1)), Cal::new(sh.clone(), mask_vec(s2))) } else { (Cal::new(sh.clone(), mask_vec(s1)), Cal::new(vec![], mask_vec(s2))) };
                        let us = UnionCal::new(vec![m1, m2], Some(vec![t1, t2]));
                        check_cal(&us, &bm, z0 - 1, z0 + wl, &ns, false, "UnionCal/split-weeks", case, idx, acc);
                    }
                }
            }
            if idx % 211 == 0 {
                acc.sample(|| serde_json::to_value(case).unwrap());
            }
        }
        Case::CrossThread { warmup } => {
            let z0 = days_from_civil(2023, 6, 12); // a Monday
            let wu = *warmup;
            let mk = move |settle_closed: Vec<i64>| -> UnionCal {
                for _ in 0..wu {
                    let _ = UnionCal::new(vec![Cal::new(vec![], vec![5, 6])], Some(vec![Cal::new(vec![], vec![5, 6])]));
                }
                UnionCal::new(vec![Cal::new(vec![], vec![5, 6])], Some(vec![Cal::new(settle_closed.iter().map(|z| to_ndt(*z)).collect(), vec![5, 6])]))
            };
            let a_closed = vec![z0 + 7, z0 + 8]; // next Monday, Tuesday
            let b_closed = vec![z0 + 2, z0 + 9]; // this Wednesday, next Wednesday
            let ac = a_closed.clone();
            let a = std::thread::spawn(move || mk(ac)).join().expect("thread 1");
            let mk2 = move |settle_closed: Vec<i64>| -> UnionCal {
                for _ in 0..wu {
                    let _ = UnionCal::new(vec![Cal::new(vec![], vec![5, 6])], Some(vec![Cal::new(vec![], vec![5, 6])]));
                }
                UnionCal::new(vec![Cal::new(vec![], vec![5, 6])], Some(vec![Cal::new(settle_closed.iter().map(|z| to_ndt(*z)).collect(), vec![5, 6])]))
            };
            let bc = b_closed.clone();
            // thread 2 builds its own union, uses it from every date, then uses the union that came from thread 1
            let results: Vec<(i64, i8, bool, Option<i64>)> = std::thread::spawn(move || {
                let b = mk2(bc);
                let mut out = vec![];
                for z in z0 - 1..=z0 + 12 {
                    for n in [-3i8, -1, 0, 1, 2, 3, 5] {
                        let _ = b.add_bus_days(&to_ndt(z), n, true);
                        let _ = b.lag(&to_ndt(z), n, true);
                    }
                }
                for z in z0 - 1..=z0 + 12 {
                    for n in [-3i8, -1, 0, 1, 2, 3, 5] {
                        out.push((z, n, true, a.add_bus_days(&to_ndt(z), n, true).ok().map(|d| from_ndt(&d))));
                        out.push((z, n, false, Some(from_ndt(&a.lag(&to_ndt(z), n, true)))));
                    }
                }
                out
            })
            .join()
            .expect("thread 2");
            // expected: the same union built and used on this thread only (its arithmetic is judged by the other cases)
            let fresh = UnionCal::new(vec![Cal::new(vec![], vec![5, 6])], Some(vec![Cal::new(a_closed.iter().map(|z| to_ndt(*z)).collect(), vec![5, 6])]));
            acc.nontrivial();
            for (z, n, is_add, got) in results {
                acc.eval();
                let want = if is_add { fresh.add_bus_days(&to_ndt(z), n, true).ok().map(|d| from_ndt(&d)) } else { Some(from_ndt(&fresh.lag(&to_ndt(z), n, true))) };
                if got != want {
                    acc.violate(if is_add { "cross-thread/add_bus_days" } else { "cross-thread/lag" }, idx, serde_json::to_value(case).unwrap(), json!({"date": fmt_day(z), "n": n, "want": want.map(fmt_day)}), json!(got.map(fmt_day)));
                }
            }
            acc.sample(|| serde_json::to_value(case).unwrap());
        }
        Case::LeapSecond { bmask } => {
            let z0 = days_from_civil(2016, 12, 20);
            let c = Cal::new(vec![], mask_vec(*bmask));
            let bm = Bitmap::from_fn(z0 - 400, z0 + 400, |z| (*bmask & (1 << weekday(z)) == 0, true));
            let ix = Index::new(&bm);
            acc.nontrivial();
            for (h, mi, ns) in [(23u32, 59u32, 1_500_000_000u32), (11, 30, 1_250_000_000), (23, 59, 999_999_999)] {
                for z in z0..z0 + 24 {
                    if !bm.is_bus(z) {
                        continue;
                    }
                    let d = to_ndt(z).date().and_hms_nano_opt(h, mi, 59, ns).unwrap();
                    for n in -12i8..=12 {
                        acc.eval();
                        let want = match ix.nth(&bm, z, n as i64) {
                            Some(w) => to_ndt(w).date().and_hms_nano_opt(h, mi, 59, ns).unwrap(),
                            None => continue,
                        };
                        match c.add_bus_days(&d, n, false) {
                            Ok(g) if g == want => {
                                if let Ok(b) = c.add_bus_days(&g, -n, false) {
                                    if b != d {
                                        acc.violate("add_bus_days/leap-second/inverse", idx, serde_json::to_value(case).unwrap(), json!({"date": format!("{}", d), "n": n, "want": "back to start"}), json!(format!("{}", b)));
                                    }
                                }
                            }
                            other => acc.violate("add_bus_days/leap-second", idx, serde_json::to_value(case).unwrap(), json!({"date": format!("{}", d), "n": n, "want": format!("{}", want)}), json!(format!("{:?}", other.ok().map(|x| format!("{}", x))))),
                        }
                    }
                    // the lag rule and the business-date range from the same instant
                    for n in [-2i8, -1, 0, 1, 2] {
                        acc.eval();
                        let want = ix.nth(&bm, z, n as i64).map(|w| to_ndt(w).date().and_hms_nano_opt(h, mi, 59, ns).unwrap());
                        let got = c.lag(&d, n, false);
                        if Some(got) != want {
                            acc.violate("lag/leap-second", idx, serde_json::to_value(case).unwrap(), json!({"date": format!("{}", d), "n": n, "want": want.map(|x| format!("{}", x))}), json!(format!("{}", got)));
                        }
                    }
                    if let Some(e) = ix.nth(&bm, z, 3) {
                        acc.eval();
                        let de = to_ndt(e).date().and_hms_nano_opt(h, mi, 59, ns).unwrap();
                        let want: Vec<String> = (z..=e).filter(|x| bm.is_bus(*x)).map(|x| format!("{}", to_ndt(x).date().and_hms_nano_opt(h, mi, 59, ns).unwrap())).collect();
                        match c.bus_date_range(&d, &de) {
                            Ok(v) if v.iter().map(|x| format!("{}", x)).collect::<Vec<_>>() == want => {}
                            other => acc.violate("bus_date_range/leap-second", idx, serde_json::to_value(case).unwrap(), json!({"start": format!("{}", d), "end": format!("{}", de), "want": want}), json!(format!("{:?}", other.ok().map(|v| v.iter().map(|x| format!("{}", x)).collect::<Vec<_>>())))),
                        }
                    }
                }
            }
            acc.sample(|| serde_json::to_value(case).unwrap());
        }
        Case::Ancient { bmask } => {
            let z1 = days_from_civil(1, 1, 1);
            let c = Cal::new(vec![], mask_vec(*bmask));
            let bm = Bitmap::from_fn(z1 - 1500, z1 + 1500, |z| (*bmask & (1 << weekday(z)) == 0, true));
            let ns = counts(false);
            acc.nontrivial();
            check_cal(&c, &bm, z1 - 380, z1 - 355, &ns, false, "Cal/ancient", case, idx, acc);
            check_cal(&c, &bm, z1 - 20, z1 + 20, &ns, true, "Cal/ancient", case, idx, acc);
            acc.sample(|| serde_json::to_value(case).unwrap());
        }
        Case::HugeRun { r } => {
            let z0 = days_from_civil(1975, 1, 2);
            let c = Cal::new((0..*r).map(|i| to_ndt(z0 + i)).collect(), vec![5, 6]);
            let bm = Bitmap::from_fn(z0 - 700, z0 + r + 700, |z| (weekday(z) < 5 && !(z >= z0 && z < z0 + r), true));
            let ns = counts(false);
            acc.nontrivial();
            check_cal(&c, &bm, z0 - 2, z0, &ns, false, "Cal/huge-run", case, idx, acc);
            check_cal(&c, &bm, z0 + r - 1, z0 + r + 1, &ns, false, "Cal/huge-run", case, idx, acc);
            acc.sample(|| serde_json::to_value(case).unwrap());
        }
        Case::Run { r, start, b } => {
            let z0 = days_from_civil(2024, 2, 26) + start;
            let order: Vec<i64> = match start % 3 {
                0 => (0..*r).collect(),
                1 => (0..*r).rev().collect(),
                _ => (0..*r).map(|i| (i * 11 + 3) % *r).collect(),
            };
            let member = Cal::new(order.iter().map(|i| to_ndt(z0 + i)).collect(), vec![5, 6]);
            if *b == 0 {
                // the plain Cal on its own as well
                let bmc = Bitmap::from_fn(z0 - 700, z0 + r + 700, |z| (weekday(z) < 5 && !(z >= z0 && z < z0 + r), true));
                let ns = counts(true);
                check_cal(&member, &bmc, z0 - 3, z0 + 1, &ns, false, "Cal/long-run", case, idx, acc);
            }
            let mut sh = vec![];
            let mut z = z0 + r;
            while (sh.len() as i64) < *b {
                if weekday(z) < 5 {
                    sh.push(z);
                }
                z += 1;
            }
            let u = UnionCal::new(vec![member], Some(vec![Cal::new(sh.iter().map(|z| to_ndt(*z)).collect(), vec![5, 6])]));
            let (lo, hi) = (z0 - 700, z0 + r + 700);
            let bm = Bitmap::from_fn(lo, hi, |z| {
                let wk = weekday(z) < 5;
                (wk && !(z >= z0 && z < z0 + r), wk && !sh.contains(&z))
            });
            let ns = counts(true);
            check_cal(&u, &bm, z0 - 3, z0 + 2, &ns, true, "UnionCal/long-run", case, idx, acc);
            check_cal(&u, &bm, z0 + r - 2, z0 + r + 3, &ns, false, "UnionCal/long-run", case, idx, acc);
            if idx % 13 == 0 {
                acc.sample(|| serde_json::to_value(case).unwrap());
            }
        }
        Case::Named { name, from, to, all_counts } => {
            let cal = NamedCal::try_new(name).expect("name");
            let lo = (*from - 400).max(days_from_civil(1969, 1, 1));
            let hi = *to + 400;
            let bm = Bitmap::of(&cal, lo, hi);
            let ns = counts(*all_counts);
            check_cal(&cal, &bm, *from, *to, &ns, *all_counts, "NamedCal", case, idx, acc);
            if name.contains('|') && *all_counts {
                // the same calendar inside the CalType container, judged against the named calendar's predicates
                let ct = rateslib::calendars::CalType::NamedCal(cal.clone());
                check_cal(&ct, &bm, *from, *to, &ns, *all_counts, "CalType/NamedCal", case, idx, acc);
            }
            acc.sample(|| serde_json::to_value(case).unwrap());
        }
    }
}

fn words(wlen: usize) -> Vec<String> {
    let total = 3usize.pow(wlen as u32);
    (0..total)
        .map(|mut k| {
            let mut s = String::with_capacity(wlen);
            for _ in 0..wlen {
                s.push(['S', 'N', 'B'][k % 3]);
                k /= 3;
            }
            s
        })
        .collect()
}

pub fn cases(tier: Tier) -> Vec<Case> {
    let wlen = tier.pick(5, 7);
    let mut out = vec![];
    for w in words(wlen) {
        for bm in BMASKS.iter() {
            for sm in SMASKS.iter() {
                if sm.is_none() && *bm != 0 && *bm != 0b1100000 {
                    continue;
                }
                out.push(Case::Word { w: w.clone(), bmask: *bm, smask: *sm });
            }
        }
    }
    out.push(Case::HugeRun { r: 65_600 });
    for bmask in [0b1100000u8, 0b0110000, 0b0011111, 0b1000001] {
        out.push(Case::Ancient { bmask });
        out.push(Case::LeapSecond { bmask });
    }
    for warmup in 0..4usize {
        out.push(Case::CrossThread { warmup });
    }
    for r in [12i64, 35, 64, 367, 430] {
        for start in 0..7 {
            for b in [0i64, 3] {
                out.push(Case::Run { r, start, b });
            }
        }
    }
    // named calendars: split the date range into chunks so that the work parallelises
    let named_all: Vec<&str> = tier.pick(vec!["tgt", "nyc", "ldn,tgt|fed"], vec!["tgt", "nyc", "ldn", "fed", "tyo", "mum", "ldn,tgt|fed", "tgt|fed", "nyc,ldn|tgt", "stk,osl|zur"]);
    let (y0, y1) = tier.pick((2022, 2025), (2016, 2031));
    for n in named_all {
        let mut y = y0;
        while y <= y1 {
            for half in 0..2 {
                let (from, to) = if half == 0 { (days_from_civil(y, 1, 1), days_from_civil(y, 6, 30)) } else { (days_from_civil(y, 7, 1), days_from_civil(y, 12, 31)) };
                out.push(Case::Named { name: n.to_string(), from, to, all_counts: true });
            }
            y += 1;
        }
    }
    // every built-in calendar over every date 1970-2200 with the reduced count menu
    let names: Vec<&str> = tier.pick(vec!["bus", "tgt", "nyc", "tyo"], BUILTIN.to_vec());
    for n in names {
        let mut y = 1970;
        while y <= 2200 {
            let y2 = (y + 10).min(2200);
            out.push(Case::Named { name: n.to_string(), from: days_from_civil(y, 1, 1) + if y == 1970 { 200 } else { 0 }, to: days_from_civil(y2, 12, 31) - if y2 == 2200 { 200 } else { 0 }, all_counts: false });
            y = y2 + 1;
        }
    }
    out
}

pub fn run(ctx: &Ctx, replay_file: Option<String>) -> ! {
    if let Err(e) = crosscheck_chrono() {
        machinery_fail(&format!("chrono vs civil-date model: {}", e));
    }
    if let Some(f) = replay_file {
        replay::<Case, _>(ctx, &f, check);
    }
    let cs = cases(ctx.tier);
    let acc = explore(&cs, check);
    for k in ["crossed a non-business day", "settlement moved the result"] {
        if acc.breakdown.get(k).copied().unwrap_or(0) == 0 {
            machinery_fail(&format!("vacuous: '{}' never happened", k));
        }
    }
    let meta = Meta::exploration(
        "(1) every word over {N business-calendar holiday, B settlement-calendar holiday, S neither}^W on a one-week \
         window, on top of periodic week masks for the business calendar (none, Sat-Sun, Fri-Sat, Mon-Fri closed) and \
         the settlement calendar (absent, Sat-Sun, Sun+Mon, none); EVERY i8 day count, both settlement flags, every \
         start date of the window +-1: add_bus_days (value, error on a non-business start, inverse law), lag, \
         add_days under all 5 modifiers, bus_date_range and cal_date_range for every (start, end) pair (near pairs also with times of day on both ends, in both assignments); every fifth case also as a union whose members (and settlement calendars) each close only some of the weekdays; the holiday vector is handed over in date order, reversed, interleaved or with every date twice (by case index). (1b) long runs of 12, 35, 64, 367 and 430 (and one of 65 600) consecutive closures; four mask-only calendars around 0001-01-01 (years -1 .. 1), and from start instants inside a leap second at every weekday alignment, every i8 count from the days \
         around both ends of the run. (1c) a union built on one fresh thread and used on another on which a different union was built and used first. (2) named calendars (those with settlement calendars also wrapped in the CalType container): every date \
         of several years x every i8; every built-in calendar over every date 1970-2200 x a reduced count menu \
         (|n|<=10 and +-20,63,64,100,126,127,-128). Oracle: index arithmetic on the sorted list of the calendar's own \
         business days, then linear search for the first settleable day in the direction of n. Non-trivial: calls \
         that crossed at least one non-business day; ranges that drop a day.",
        json!({"window": ctx.tier.pick(5, 7), "cases": cs.len(), "day_counts": "all 256 i8 values"}),
    )
    .assume("named calendars: is_bus_day / is_settlement taken as given (C06/C07); word calendars use an independent model of the predicates")
    .assume("lag(non-business day, 0, settlement=true): the statement is silent on whether settlement applies; both readings accepted");
    finish(ctx, acc, meta)
}
