//! C04 Date adjustment lands on the nearest eligible business day in its direction.
use crate::calmodel::*;
use crate::common::*;
use rateslib::calendars::{Cal, CalType, DateRoll, Modifier, NamedCal, UnionCal};
use serde::{Deserialize, Serialize};
use serde_json::json;

#[derive(Clone, Debug, Serialize, Deserialize)]
pub enum Case {
    /// calendar = word over {N,B,S} on a window (everything outside is S); month boundary after position p
    Word { w: String, anchor: u8, p: u8 },
    /// a built-in calendar or named union over every date 1970..2200
    Named { name: String },
    /// week mask (bit i = weekday i closed) with a settlement calendar of another mask; all holiday subsets of one week
    Mask { mask: u8, smask_idx: u8 },
    /// a long run of `r` consecutive closures starting `start` days after 2024-01-10 (Sat-Sun mask on top), with the
    /// first `b` business days after the run closed for settlement
    Run { r: i64, start: i64, b: i64 },
    /// a closure of `r` consecutive days from 1975-01-02 (r > 65 535: longer than a 16-bit day counter), adjusted
    /// from the days around its two ends and from its middle
    HugeRun { r: i64 },
    /// a SETTLEMENT calendar closed on `r` consecutive days from 1799-01-02 under a business calendar without holidays
    /// (seven-day week, or Monday-Friday): more than 100 000 business days without a settlement day
    HugeSettle { r: i64, seven: bool },
    /// a working week of Mondays only with `mondays` consecutive Mondays listed as holidays from 2000-01-03: one closure
    /// of more than 2^20 days, adjusted from its two ends
    SparseWeek { mondays: i64 },
}

pub const SMASKS: [Option<u8>; 5] = [None, Some(0b1100000), Some(0b0110000), Some(0b1000000), Some(0b0111111)];

fn anchor_boundary(a: u8) -> i64 {
    // first day of the month that follows the boundary
    match a {
        0 => days_from_civil(2024, 3, 1), // leap February
        1 => days_from_civil(2023, 3, 1), // common February
        _ => days_from_civil(2024, 1, 1), // year change
    }
}

pub fn word_days(w: &str, z0: i64) -> (Vec<i64>, Vec<i64>) {
    let mut n = vec![];
    let mut b = vec![];
    for (i, c) in w.chars().enumerate() {
        match c {
            'N' => n.push(z0 + i as i64),
            'B' => b.push(z0 + i as i64),
            _ => {}
        }
    }
    (n, b)
}

/// UnionCal realisation: N days split over two members, B days split over one or two settlement calendars
pub fn word_union(w: &str, z0: i64, variant: usize) -> UnionCal {
    let (n, b) = word_days(w, z0);
    let cals = if variant % 8 >= 2 {
        // three members, closures dealt round-robin (consecutive closed days belong to different members), the
        // members listed in each of the six possible orders
        let part = |k: usize| -> Vec<_> { n.iter().skip(k).step_by(3).map(|z| to_ndt(*z)).collect() };
        let perm = crate::common::permutations(3)[variant % 8 - 2].clone();
        perm.iter().map(|k| Cal::new(part(*k), vec![])).collect()
    } else {
        let h1: Vec<_> = n.iter().step_by(2).map(|z| to_ndt(*z)).collect();
        let h2: Vec<_> = n.iter().skip(1).step_by(2).map(|z| to_ndt(*z)).collect();
        vec![Cal::new(h1, vec![]), Cal::new(h2, vec![])]
    };
    let settle = if b.is_empty() {
        if variant % 2 == 0 {
            None
        } else {
            Some(vec![])
        }
    } else if b.len() == 1 || variant % 2 == 0 {
        Some(vec![Cal::new(b.iter().map(|z| to_ndt(*z)).collect(), vec![])])
    } else {
        let s1: Vec<_> = b.iter().step_by(2).map(|z| to_ndt(*z)).collect();
        let s2: Vec<_> = b.iter().skip(1).step_by(2).map(|z| to_ndt(*z)).collect();
        Some(vec![Cal::new(s1, vec![]), Cal::new(s2, vec![])])
    };
    UnionCal::new(cals, settle)
}

fn words(wlen: usize) -> Vec<String> {
    let total = 3usize.pow(wlen as u32);
    (0..total)
        .map(|mut k| {
            let mut s = String::with_capacity(wlen);
            for _ in 0..wlen {
                s.push(['S', 'N', 'B'][k % 3]);
                k /= 3;
            }
            s
        })
        .collect()
}

/// check every (date, modifier, flag) of [d_lo, d_hi] for one real calendar against the spec
fn check_rolls<C: DateRoll>(cal: &C, bm: &Bitmap, d_lo: i64, d_hi: i64, tag: &str, case: &Case, idx: u64, acc: &mut Acc) {
    for z in d_lo..=d_hi {
        let d = to_ndt(z);
        for m in MODS.iter() {
            for flag in [false, true] {
                let want = match bm.roll(z, m, flag) {
                    Some(w) => w,
                    None => {
                        acc.skip();
                        continue;
                    }
                };
                acc.eval();
                let got = from_ndt(&cal.roll(&d, m, flag));
                if got != z {
                    acc.nontrivial();
                    if matches!(m, Modifier::ModF) && got < z || matches!(m, Modifier::ModP) && got > z {
                        acc.bump("reversed by the month rule");
                    }
                    if flag && bm.roll(z, m, false) != Some(want) {
                        acc.bump("settlement moved the result");
                    }
                }
                // the named method behind (modifier, settlement) is a public entry point of its own
                let direct = match (m, flag) {
                    (Modifier::F, false) => Some(cal.roll_forward_bus_day(&d)),
                    (Modifier::P, false) => Some(cal.roll_backward_bus_day(&d)),
                    (Modifier::ModF, false) => Some(cal.roll_mod_forward_bus_day(&d)),
                    (Modifier::ModP, false) => Some(cal.roll_mod_backward_bus_day(&d)),
                    (Modifier::F, true) => Some(cal.roll_forward_settled_bus_day(&d)),
                    (Modifier::P, true) => Some(cal.roll_backward_settled_bus_day(&d)),
                    (Modifier::ModF, true) => Some(cal.roll_forward_mod_settled_bus_day(&d)),
                    (Modifier::ModP, true) => Some(cal.roll_backward_mod_settled_bus_day(&d)),
                    _ => None,
                };
                if let Some(dd) = direct {
                    if from_ndt(&dd) != want {
                        acc.violate(
                            &format!("roll-method/{}/{}{}", tag, mod_name(m), if flag { "/settle" } else { "" }),
                            idx,
                            serde_json::to_value(case).unwrap(),
                            json!({"date": fmt_day(z), "method_for": mod_name(m), "settlement": flag, "want": fmt_day(want)}),
                            json!(fmt_day(from_ndt(&dd))),
                        );
                    }
                }
                if got != want {
                    acc.violate(
                        &format!("roll/{}/{}{}", tag, mod_name(m), if flag { "/settle" } else { "" }),
                        idx,
                        serde_json::to_value(case).unwrap(),
                        json!({"date": fmt_day(z), "modifier": mod_name(m), "settlement": flag, "want": fmt_day(want)}),
                        json!(fmt_day(got)),
                    );
                    continue;
                }
                if !matches!(m, Modifier::Act) {
                    // eligible result, already-eligible dates never move, adjusting twice == once
                    let again = from_ndt(&cal.roll(&to_ndt(got), m, flag));
                    if !bm.elig(got, flag) || (bm.elig(z, flag) && got != z) || again != got {
                        acc.violate(
                            &format!("laws/{}/{}{}", tag, mod_name(m), if flag { "/settle" } else { "" }),
                            idx,
                            serde_json::to_value(case).unwrap(),
                            json!({"date": fmt_day(z), "law": "result eligible; eligible input unmoved; idempotent"}),
                            json!({"got": fmt_day(got), "again": fmt_day(again)}),
                        );
                    }
                }
            }
        }
        // the predicates are consistent with one another and with the model
        let (bd, wk, hol, nb, st) = (cal.is_bus_day(&d), cal.is_weekday(&d), cal.is_holiday(&d), cal.is_non_bus_day(&d), cal.is_settlement(&d));
        if bd != (wk && !hol) || nb == bd || bd != bm.elig(z, false) || (bd && st) != bm.elig(z, true) {
            acc.violate(&format!("predicates/{}", tag), idx, serde_json::to_value(case).unwrap(), json!({"date": fmt_day(z), "law": "business = weekday and not holiday; non-business = not business; both as the calendar is defined"}), json!({"is_bus_day": bd, "is_weekday": wk, "is_holiday": hol, "is_non_bus_day": nb, "is_settlement": st}));
        }
        acc.outcome(&(tag.len(), z - d_lo, from_ndt(&cal.roll(&d, &Modifier::ModF, true)) - z));
    }
}

pub fn check(case: &Case, idx: u64, acc: &mut Acc) {
    match case {
        Case::Word { w, anchor, p } => {
            let wl = w.len() as i64;
            let z0 = anchor_boundary(*anchor) - *p as i64;
            let has_b = w.contains('B');
            let variant = idx as usize;
            let u = word_union(w, z0, variant);
            let (lo, hi) = (z0 - 45, z0 + wl + 45);
            // the oracle's calendar is the WORD itself (not the real predicates): N non-business,
            // B business but not settleable, S (and everything outside the window) settleable
            let wb = w.as_bytes();
            let bm = Bitmap::from_fn(lo, hi, |z| {
                let off = z - z0;
                if off >= 0 && off < wl {
                    (wb[off as usize] != b'N', wb[off as usize] != b'B')
                } else {
                    (true, true)
                }
            });
            check_rolls(&u, &bm, z0 - 2, z0 + wl + 1, "UnionCal", case, idx, acc);
            let ct = CalType::UnionCal(u);
            check_rolls(&ct, &bm, z0 - 2, z0 + wl + 1, "CalType", case, idx, acc);
            if !has_b {
                let (n, _) = word_days(w, z0);
                let c = Cal::new(n.iter().map(|z| to_ndt(*z)).collect(), vec![]);
                check_rolls(&c, &bm, z0 - 2, z0 + wl + 1, "Cal", case, idx, acc);
            }
            if idx % 50021 == 0 {
                acc.sample(|| serde_json::to_value(case).unwrap());
            }
        }
        Case::Named { name } => {
            let cal = NamedCal::try_new(name).expect("built-in name");
            let lo = days_from_civil(1969, 11, 1);
            let hi = days_from_civil(2201, 2, 28);
            let bm = Bitmap::of(&cal, lo, hi);
            check_rolls(&cal, &bm, DAY_MIN, day_max(), "NamedCal", case, idx, acc);
            if name.contains('|') {
                // the same calendar inside the CalType container (its own dispatch of the predicates), judged
                // against the NAMED calendar's predicates, over 2015-2035
                let ct = CalType::NamedCal(cal.clone());
                check_rolls(&ct, &bm, days_from_civil(2015, 1, 1), days_from_civil(2035, 12, 31), "CalType/NamedCal", case, idx, acc);
            }
            acc.sample(|| serde_json::to_value(case).unwrap());
        }
        Case::Run { r, start, b } => {
            let z0 = days_from_civil(2024, 1, 10) + start;
            let hols: Vec<_> = (0..*r).map(|i| to_ndt(z0 + i)).collect();
            let member = Cal::new(hols, vec![5, 6]);
            // settlement closures: the first b weekdays after the run
            let mut sh = vec![];
            let mut z = z0 + r;
            while (sh.len() as i64) < *b {
                if weekday(z) < 5 {
                    sh.push(z);
                }
                z += 1;
            }
            let u = UnionCal::new(vec![member], Some(vec![Cal::new(sh.iter().map(|z| to_ndt(*z)).collect(), vec![5, 6])]));
            let (lo, hi) = (z0 - 60, z0 + r + 60);
            let bm = Bitmap::from_fn(lo, hi, |z| {
                let wk = weekday(z) < 5;
                (wk && !(z >= z0 && z < z0 + r), wk && !sh.contains(&z))
            });
            check_rolls(&u, &bm, z0 - 3, z0 + r + 3, "UnionCal/long-run", case, idx, acc);
            if idx % 37 == 0 {
                acc.sample(|| serde_json::to_value(case).unwrap());
            }
        }
        Case::HugeRun { r } => {
            let z0 = days_from_civil(1975, 1, 2);
            let hols: Vec<_> = (0..*r).map(|i| to_ndt(z0 + i)).collect();
            let c = Cal::new(hols, vec![5, 6]);
            let bm = Bitmap::from_fn(z0 - 40, z0 + r + 40, |z| (weekday(z) < 5 && !(z >= z0 && z < z0 + r), true));
            acc.nontrivial();
            check_rolls(&c, &bm, z0 - 3, z0 + 2, "Cal/huge-run", case, idx, acc);
            check_rolls(&c, &bm, z0 + r / 2, z0 + r / 2 + 1, "Cal/huge-run", case, idx, acc);
            check_rolls(&c, &bm, z0 + r - 2, z0 + r + 3, "Cal/huge-run", case, idx, acc);
            acc.sample(|| serde_json::to_value(case).unwrap());
        }
        Case::SparseWeek { mondays } => {
            let z0 = days_from_civil(2000, 1, 3); // a Monday
            let c = Cal::new((0..*mondays).map(|i| to_ndt(z0 + 7 * i)).collect(), vec![1, 2, 3, 4, 5, 6]);
            let end = z0 + 7 * mondays; // first open Monday
            let bm = Bitmap::from_fn(z0 - 40, end + 40, |z| (weekday(z) == 0 && !(z >= z0 && z < end), true));
            acc.nontrivial();
            check_rolls(&c, &bm, z0 - 1, z0 + 1, "Cal/closure-beyond-2^20-days", case, idx, acc);
            check_rolls(&c, &bm, end - 2, end, "Cal/closure-beyond-2^20-days", case, idx, acc);
            acc.sample(|| serde_json::to_value(case).unwrap());
        }
        Case::HugeSettle { r, seven } => {
            let z0 = days_from_civil(1799, 1, 2);
            let biz = Cal::new(vec![], if *seven { vec![] } else { vec![5, 6] });
            let settle = Cal::new((0..*r).map(|i| to_ndt(z0 + i)).collect(), vec![]);
            let u = UnionCal::new(vec![biz], Some(vec![settle]));
            let bm = Bitmap::from_fn(z0 - 40, z0 + r + 40, |z| (*seven || weekday(z) < 5, !(z >= z0 && z < z0 + r)));
            acc.nontrivial();
            check_rolls(&u, &bm, z0 - 3, z0 + 2, "UnionCal/huge-settlement-closure", case, idx, acc);
            check_rolls(&u, &bm, z0 + r - 2, z0 + r + 3, "UnionCal/huge-settlement-closure", case, idx, acc);
            acc.sample(|| serde_json::to_value(case).unwrap());
        }
        Case::Mask { mask, smask_idx } => {
            let z0 = days_from_civil(2024, 2, 26); // a Monday; the week crosses into March
            let wm: Vec<u8> = (0..7u8).filter(|i| mask & (1 << i) != 0).collect();
            let smask = SMASKS[*smask_idx as usize];
            if let Some(sm) = smask {
                if (mask | sm) & 0x7f == 0x7f {
                    acc.skip(); // no weekday open in both: nothing is ever eligible with settlement
                    return;
                }
            }
            for hs in 0u32..128 {
                let hols: Vec<_> = (0..7).filter(|i| hs & (1 << i) != 0).map(|i| to_ndt(z0 + i)).collect();
                let c = Cal::new(hols, wm.clone());
                let (lo, hi) = (z0 - 40, z0 + 47);
                // model of the calendar from its definition (week masks and holidays), not from the real predicates
                let model = |z: i64| {
                    let wd = weekday(z) as u8;
                    let off = z - z0;
                    let hol = (0..7).contains(&off) && hs & (1 << off) != 0;
                    (mask & (1 << wd) == 0 && !hol, smask.map_or(true, |sm| sm & (1 << wd) == 0))
                };
                let bm = Bitmap::from_fn(lo, hi, model);
                if hs == 0 {
                    // dates that carry a time of day (no holidays here: those are matched as whole datetimes): the
                    // adjustment moves the DAY and keeps the time
                    let tod = chrono::Duration::seconds(15 * 3600 + 30 * 60);
                    let uu = smask.map(|sm| UnionCal::new(vec![c.clone()], Some(vec![Cal::new(vec![], (0..7u8).filter(|i| sm & (1 << i) != 0).collect())])));
                    for z in (z0 - 2)..=(z0 + 8) {
                        for md in MODS.iter() {
                            for flag in [false, true] {
                                if let Some(w) = bm.roll(z, md, flag) {
                                    acc.eval();
                                    let d = to_ndt(z) + tod;
                                    let got = match &uu {
                                        Some(u) => u.roll(&d, md, flag),
                                        None => c.roll(&d, md, flag),
                                    };
                                    if got != to_ndt(w) + tod {
                                        acc.violate(&format!("roll/time-of-day/{}{}", mod_name(md), if flag { "/settle" } else { "" }), idx, serde_json::to_value(case).unwrap(), json!({"date": format!("{} 15:30", fmt_day(z)), "want": format!("{} 15:30", fmt_day(w))}), json!(format!("{}", got)));
                                    }
                                }
                            }
                        }
                    }
                }
                match smask {
                    None => {
                        check_rolls(&c, &bm, z0 - 2, z0 + 8, "Cal/mask", case, idx, acc);
                    }
                    Some(sm) => {
                        let swm: Vec<u8> = (0..7u8).filter(|i| sm & (1 << i) != 0).collect();
                        let u = UnionCal::new(vec![c], Some(vec![Cal::new(vec![], swm)]));
                        check_rolls(&u, &bm, z0 - 2, z0 + 8, "UnionCal/mask", case, idx, acc);
                        // the working weeks split over two members and two settlement calendars, in both orders
                        if hs % 8 == 5 {
                            let split = |m: u8| -> (u8, u8) {
                                let lo_bit = m & m.wrapping_neg();
                                if m == lo_bit { (0, m) } else { (m & !lo_bit, lo_bit) }
                            };
                            let mv = |m: u8| -> Vec<u8> { (0..7u8).filter(|i| m & (1 << i) != 0).collect() };
                            let (b1, b2) = split(*mask);
                            let (s1, s2) = split(sm);
                            let hol: Vec<_> = (0..7).filter(|i| hs & (1 << i) != 0).map(|i| to_ndt(z0 + i)).collect();
                            for flip in [false, true] {
                                let members = if flip { vec![Cal::new(vec![], mv(b2)), Cal::new(hol.clone(), mv(b1))] } else { vec![Cal::new(hol.clone(), mv(b1)), Cal::new(vec![], mv(b2))] };
                                let settles = if flip { vec![Cal::new(vec![], mv(s2)), Cal::new(vec![], mv(s1))] } else { vec![Cal::new(vec![], mv(s1)), Cal::new(vec![], mv(s2))] };
                                let us = UnionCal::new(members, Some(settles));
                                check_rolls(&us, &bm, z0 - 2, z0 + 8, "UnionCal/split-weeks", case, idx, acc);
                            }
                        }
                    }
                }
            }
            if idx % 101 == 0 {
                acc.sample(|| serde_json::to_value(case).unwrap());
            }
        }
    }
}

pub fn cases(tier: Tier) -> Vec<Case> {
    let wlen = tier.pick(8, 11);
    let mut out = vec![];
    for w in words(wlen) {
        for anchor in 0..3u8 {
            for p in 0..=(wlen as u8) {
                out.push(Case::Word { w: w.clone(), anchor, p });
            }
        }
    }
    for n in BUILTIN.iter() {
        out.push(Case::Named { name: n.to_string() });
    }
    for n in ["tgt|fed", "ldn,tgt|fed", "tgt,nyc", "nyc,ldn|tgt", "tyo,syd|wlg,mum"] {
        out.push(Case::Named { name: n.to_string() });
    }
    for mask in 0u8..127 {
        for s in 0..SMASKS.len() as u8 {
            out.push(Case::Mask { mask, smask_idx: s });
        }
    }
    // long closures (longer than the word window, up to more than two months), every alignment against the month ends
    for r in [12i64, 20, 31, 35, 62, 70] {
        for start in 0..45 {
            for b in [0i64, 2] {
                out.push(Case::Run { r, start, b });
            }
        }
    }
    out.push(Case::SparseWeek { mondays: 150_000 });
    out.push(Case::HugeSettle { r: 100_100, seven: true });
    out.push(Case::HugeSettle { r: 146_500, seven: false });
    for r in [65_535i64, 65_536, 65_600] {
        out.push(Case::HugeRun { r });
    }
    // closures of more than a year (any scan limit of a year's length would show)
    for r in [365i64, 366, 367, 400, 430, 800] {
        for start in [0i64, 9, 20, 22, 31] {
            for b in [0i64, 2] {
                out.push(Case::Run { r, start, b });
            }
        }
    }
    out
}

pub fn run(ctx: &Ctx, replay_file: Option<String>) -> ! {
    match crosscheck_chrono() {
        Ok(_) => {}
        Err(e) => machinery_fail(&format!("chrono vs civil-date model: {}", e)),
    }
    if let Some(f) = replay_file {
        replay::<Case, _>(ctx, &f, check);
    }
    let cs = cases(ctx.tier);
    let acc = explore(&cs, check);
    for k in ["reversed by the month rule", "settlement moved the result"] {
        if acc.breakdown.get(k).copied().unwrap_or(0) == 0 {
            machinery_fail(&format!("vacuous: '{}' never happened", k));
        }
    }
    let meta = Meta::exploration(
        "(1) every calendar that roll can distinguish on a W-day window = every word over {N non-business, B business \
         but not settleable, S settleable}^W (all S outside), realised as UnionCal (two or three members and one or two settlement calendars \
         split the N / B days), CalType and, for B-free words, Cal; month boundary after every position 0..W on three \
         anchors (leap Feb->Mar, common Feb->Mar, Dec->Jan); every date of the window +-2, 5 modifiers, both \
         settlement flags. (2) all 14 built-in calendars and 5 named unions over EVERY date 1970-2200 (the piped ones also wrapped in the CalType container over 2015-2035, judged against the named calendar's own predicates). (3) all 127 \
         week masks x 5 settlement masks x every holiday subset of one week (the holiday-free ones also with dates that carry a time of day) (for an eighth of the subsets also as a union whose two members and two settlement calendars each close only some of the weekdays, in both listing orders). (4) long runs of 12..70 and of 365, 366, 367, 400, 430, 800 consecutive closures (and, from the days around the ends and the middle only, of 65 535, 65 536 and 65 600; and settlement calendars closed for 100 100 / 146 500 days under a seven-day / five-day business week, i.e. beyond 100 000 business days; and a Mondays-only week with 150 000 consecutive Mondays closed, a closure of 1 050 000 days) \
         at every alignment against two month ends, with and without settlement closures right after the run. Every adjustment is made through roll(modifier, settlement) and through the named method behind it; the five predicates are checked for mutual consistency on every date. Oracle: linear searches on a bitmap of \
         the calendar's definition (the word / the week masks and holidays) - for the named calendars, of their own \
         is_bus_day / is_settlement: following = first eligible >= d, previous = last eligible \
         <= d, modified = opposite search when (year, month) differs, actual = d; laws: eligible dates do not move, \
         rolling twice = once, result eligible. Non-trivial: rolls that moved the date.",
        json!({"window": ctx.tier.pick(8, 11), "cases": cs.len(), "named_date_range": "1970-01-01..2200-12-31"}),
    )
    .assume("for the built-in named calendars is_bus_day / is_settlement are taken as given (checked by C06 / C07); word and mask calendars use an independent model")
    .assume("holiday runs longer than the window (and rolls travelling >= 11 months, where month numbers could coincide) are outside the bound")
    .assume("chrono date arithmetic, cross-checked against the civil-date model on every day 1969-2201 at start-up");
    finish(ctx, acc, meta)
}
