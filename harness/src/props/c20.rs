//! C20 Fallible entry points return errors, never abort; date arithmetic is total.
//!
//! The sweep runs in a CHILD process of the same binary (hostile inputs may abort rather than unwind);
//! the child logs the case it is about to run, so an abnormal exit is attributed, re-run twice in fresh
//! children to confirm, and only then reported.
use crate::calmodel::*;
use crate::common::*;
use crate::props::c09::CCYS;
use indexmap::IndexMap;
use rateslib::calendars::{Cal, CalType, Convention, DateRoll, Modifier, NamedCal, RollDay, UnionCal};
use rateslib::dual::{ADOrder, Dual, Dual2, Gradient1, Gradient2, Number, NumberArray2, Vars};
#[allow(unused_imports)]
use serde_json::Map as _JsonMap;
use rateslib::fx::rates::{Ccy, FXPair, FXRate, FXRates};
use rateslib::json::JSON;
use rateslib::splines::PPSpline;
use rateslib::verif_hooks as hooks;
use rateslib::verif_hooks::{VerifCurve, VerifInterp, VerifObj};
use serde::{Deserialize, Serialize};
use serde_json::{json, Value};
use std::io::Write;
use std::sync::{Mutex, OnceLock};

#[derive(Clone, Debug, Serialize, Deserialize)]
pub enum Case {
    DualCtor { names: Vec<u8>, ng: usize, nh: usize },
    /// `n` names v0.. (the last one repeating the first when `dup`), gradient / Hessian lengths given outright
    DualCtorLarge { n: usize, dup: bool, ng: usize, nh: usize },
    CcyCtor { s: String },
    FxCtor { id: u32 },
    NamedCtor { s: String },
    Dates { bmask: u8, smask: Option<u8>, hols: u8 },
    Months { start: i64, roll: u8 },
    Csolve { k: usize, sites: u8, ny: i8, left_n: usize, right_n: usize, lsq: bool },
    /// the smallest splines: order k, n basis functions (knots 0, 1, 2, ..), `ntau` sites, `ntau + ny` values
    CsolveTiny { k: usize, n: usize, ntau: usize, ny: i8, left_n: usize, right_n: usize, lsq: bool },
    /// document id, tagged entry point?, index of the first mutation; `pairs`: also apply every second mutation
    Json { doc: String, tagged: bool, m1: usize, pairs: bool },
}

// ---------------------------------------------------------------------------------------------
// progress log for crash attribution

static PROGRESS: OnceLock<Option<Mutex<std::fs::File>>> = OnceLock::new();
fn progress(idx: u64) {
    if let Some(Some(m)) = PROGRESS.get() {
        if let Ok(mut f) = m.lock() {
            let _ = writeln!(f, "{:?} {}", std::thread::current().id(), idx);
            let _ = f.flush();
        }
    }
}

// ---------------------------------------------------------------------------------------------
// JSON mutation engine

#[derive(Clone, Debug, PartialEq)]
enum Seg {
    Key(String),
    Idx(usize),
}
type Path = Vec<Seg>;

#[derive(Clone, Debug)]
enum Mutn {
    Delete(Path),
    DupElem(Path),
    DupField(Path),
    Replace(Path, u8),
    Swap(Path, usize, usize),
    /// an n-dimensional array document {"dim": [..], "data": [..]} given another shape with the same / a
    /// compatible element count
    Reshape(Path, Vec<usize>),
}

fn replacement(k: u8) -> Value {
    match k {
        0 => json!(0),
        1 => json!(-1),
        2 => json!(1e308),
        3 => json!(""),
        4 => json!("zzz"),
        5 => Value::Null,
        6 => json!([]),
        7 => json!({}),
        _ => json!(true),
    }
}

fn walk(v: &Value, path: &mut Path, out: &mut Vec<(Path, bool)>) {
    // every node below the root with `is_leaf`
    match v {
        Value::Object(m) => {
            for (k, c) in m.iter() {
                path.push(Seg::Key(k.clone()));
                out.push((path.clone(), !matches!(c, Value::Object(_) | Value::Array(_))));
                walk(c, path, out);
                path.pop();
            }
        }
        Value::Array(a) => {
            for (i, c) in a.iter().enumerate() {
                path.push(Seg::Idx(i));
                out.push((path.clone(), !matches!(c, Value::Object(_) | Value::Array(_))));
                walk(c, path, out);
                path.pop();
            }
        }
        _ => {}
    }
}

fn get_mut<'a>(v: &'a mut Value, path: &[Seg]) -> Option<&'a mut Value> {
    let mut cur = v;
    for s in path {
        cur = match (s, cur) {
            (Seg::Key(k), Value::Object(m)) => m.get_mut(k)?,
            (Seg::Idx(i), Value::Array(a)) => a.get_mut(*i)?,
            _ => return None,
        };
    }
    Some(cur)
}

fn mutations(v: &Value) -> Vec<Mutn> {
    let mut nodes = vec![];
    walk(v, &mut vec![], &mut nodes);
    let mut out = vec![];
    for (p, leaf) in nodes.iter() {
        out.push(Mutn::Delete(p.clone()));
        match p.last().unwrap() {
            Seg::Idx(_) => out.push(Mutn::DupElem(p.clone())),
            Seg::Key(_) => out.push(Mutn::DupField(p.clone())),
        }
        if *leaf {
            for k in 0..9u8 {
                out.push(Mutn::Replace(p.clone(), k));
            }
        } else {
            // a container may also be replaced wholesale by a scalar / null / empty containers
            for k in [0u8, 5, 6, 7] {
                out.push(Mutn::Replace(p.clone(), k));
            }
        }
    }
    // every other shape of each array document: same element count factorised differently, rank changed,
    // zero-size shapes
    {
        let mut objs: Vec<Path> = vec![];
        fn find(v: &Value, path: &mut Path, out: &mut Vec<Path>) {
            match v {
                Value::Object(m) => {
                    if m.get("dim").map(|d| d.is_array()).unwrap_or(false) && m.get("data").map(|d| d.is_array()).unwrap_or(false) {
                        out.push(path.clone());
                    }
                    for (k, c) in m.iter() {
                        path.push(Seg::Key(k.clone()));
                        find(c, path, out);
                        path.pop();
                    }
                }
                Value::Array(a) => {
                    for (i, c) in a.iter().enumerate() {
                        path.push(Seg::Idx(i));
                        find(c, path, out);
                        path.pop();
                    }
                }
                _ => {}
            }
        }
        find(v, &mut vec![], &mut objs);
        for p in objs {
            let mut vv = v.clone();
            let o = get_mut(&mut vv, &p).unwrap();
            let dim: Vec<usize> = o["dim"].as_array().unwrap().iter().filter_map(|x| x.as_u64().map(|u| u as usize)).collect();
            let count = o["data"].as_array().unwrap().len();
            let mut shapes: Vec<Vec<usize>> = vec![vec![count], vec![1, count], vec![count, 1], vec![1, 1, count], vec![0, count.max(1)], vec![count.max(1), 0]];
            for a in 1..=count {
                if count % a == 0 {
                    shapes.push(vec![a, count / a]);
                }
            }
            shapes.sort();
            shapes.dedup();
            for sh in shapes {
                if sh != dim {
                    out.push(Mutn::Reshape(p.clone(), sh));
                }
            }
        }
    }
    // swaps of sibling values
    fn containers(v: &Value, path: &mut Path, out: &mut Vec<Mutn>) {
        match v {
            Value::Object(m) => {
                let n = m.len();
                for i in 0..n {
                    for j in (i + 1)..n {
                        out.push(Mutn::Swap(path.clone(), i, j));
                    }
                }
                for (k, c) in m.iter() {
                    path.push(Seg::Key(k.clone()));
                    containers(c, path, out);
                    path.pop();
                }
            }
            Value::Array(a) => {
                let n = a.len();
                for i in 0..n {
                    for j in (i + 1)..n {
                        out.push(Mutn::Swap(path.clone(), i, j));
                    }
                }
                for (i, c) in a.iter().enumerate() {
                    path.push(Seg::Idx(i));
                    containers(c, path, out);
                    path.pop();
                }
            }
            _ => {}
        }
    }
    containers(v, &mut vec![], &mut out);
    out
}

/// apply one mutation; `dupfield` collects paths whose field must be written twice by the printer
fn apply_mut(v: &mut Value, m: &Mutn, dupfield: &mut Vec<Path>) -> bool {
    match m {
        Mutn::Delete(p) => {
            let (last, parent) = p.split_last().unwrap();
            match (get_mut(v, parent), last) {
                (Some(Value::Object(o)), Seg::Key(k)) => o.remove(k).is_some(),
                (Some(Value::Array(a)), Seg::Idx(i)) if *i < a.len() => {
                    a.remove(*i);
                    true
                }
                _ => false,
            }
        }
        Mutn::DupElem(p) => {
            let (last, parent) = p.split_last().unwrap();
            match (get_mut(v, parent), last) {
                (Some(Value::Array(a)), Seg::Idx(i)) if *i < a.len() => {
                    let c = a[*i].clone();
                    a.insert(*i, c);
                    true
                }
                _ => false,
            }
        }
        Mutn::DupField(p) => {
            if get_mut(v, p).is_some() {
                dupfield.push(p.clone());
                true
            } else {
                false
            }
        }
        Mutn::Replace(p, k) => match get_mut(v, p) {
            Some(x) => {
                *x = replacement(*k);
                true
            }
            None => false,
        },
        Mutn::Reshape(p, shape) => match get_mut(v, p) {
            Some(Value::Object(o)) if o.contains_key("dim") => {
                o["dim"] = json!(shape);
                true
            }
            _ => false,
        },
        Mutn::Swap(p, i, j) => match get_mut(v, p) {
            Some(Value::Array(a)) if *j < a.len() => {
                a.swap(*i, *j);
                true
            }
            Some(Value::Object(o)) if *j < o.len() => {
                let ki = o.keys().nth(*i).unwrap().clone();
                let kj = o.keys().nth(*j).unwrap().clone();
                let (vi, vj) = (o[&ki].clone(), o[&kj].clone());
                o[&ki] = vj;
                o[&kj] = vi;
                true
            }
            _ => false,
        },
    }
}

/// JSON printer that can write chosen fields twice (Value cannot hold duplicate keys)
fn print(v: &Value, path: &mut Path, dup: &[Path], out: &mut String) {
    match v {
        Value::Object(m) => {
            out.push('{');
            let mut first = true;
            for (k, c) in m.iter() {
                path.push(Seg::Key(k.clone()));
                let times = if dup.contains(path) { 2 } else { 1 };
                for _ in 0..times {
                    if !first {
                        out.push(',');
                    }
                    first = false;
                    out.push_str(&serde_json::to_string(k).unwrap());
                    out.push(':');
                    print(c, path, dup, out);
                }
                path.pop();
            }
            out.push('}');
        }
        Value::Array(a) => {
            out.push('[');
            for (i, c) in a.iter().enumerate() {
                if i > 0 {
                    out.push(',');
                }
                path.push(Seg::Idx(i));
                print(c, path, dup, out);
                path.pop();
            }
            out.push(']');
        }
        other => out.push_str(&serde_json::to_string(other).unwrap()),
    }
}

// ---- documents ------------------------------------------------------------------------------------

pub const DOCS: [&str; 17] = ["Dual", "Dual2", "Cal", "UnionCal", "NamedCal", "FXRates", "FXRates1", "Curve", "PPSplineF64", "PPSplineDual", "PPSplineDual2", "Dual0", "Dual2_1", "CalEmpty", "UnionNone", "CurveFlat0", "Curve2"];

fn valid_obj(doc: &str) -> VerifObj {
    match doc {
        "Dual" => VerifObj::Dual(Dual::try_new(1.5, vec!["x".into(), "y".into()], vec![1.0, 2.0]).unwrap()),
        "Dual0" => VerifObj::Dual(Dual::new(-2.5, vec![])),
        "Dual2_1" => VerifObj::Dual2(Dual2::try_new(0.5, vec!["x".into()], vec![3.0], vec![0.125]).unwrap()),
        "CalEmpty" => VerifObj::Cal(Cal::new(vec![], vec![])),
        "UnionNone" => VerifObj::UnionCal(UnionCal::new(vec![Cal::new(vec![to_ndt(19800)], vec![5, 6]), Cal::new(vec![], vec![4, 5])], None)),
        "CurveFlat0" => {
            let mut m: IndexMap<chrono::NaiveDateTime, Number> = IndexMap::new();
            m.insert(to_ndt(19365), Number::F64(0.97));
            m.insert(to_ndt(19000), Number::F64(1.0));
            VerifObj::Curve(
                VerifCurve::new(m, VerifInterp::FlatForward, ADOrder::Zero, "f", Convention::Bus252, Modifier::P, CalType::UnionCal(UnionCal::new(vec![Cal::new(vec![], vec![5, 6])], Some(vec![]))), None).unwrap(),
            )
        }
        "Curve2" => {
            let mut m: IndexMap<chrono::NaiveDateTime, Number> = IndexMap::new();
            m.insert(to_ndt(19000), Number::Dual(Dual::new(1.0, vec!["n0".into()])));
            m.insert(to_ndt(19365), Number::F64(0.97));
            VerifObj::Curve(VerifCurve::new(m, VerifInterp::LinearZeroRate, ADOrder::Two, "g", Convention::ActActISDA, Modifier::Act, CalType::Cal(Cal::new(vec![to_ndt(19100)], vec![5, 6])), Some(1.0)).unwrap())
        }
        "Dual2" => VerifObj::Dual2(Dual2::try_new(1.5, vec!["x".into(), "y".into()], vec![1.0, 2.0], vec![0.5, 0.25, 0.25, 1.0]).unwrap()),
        "Cal" => VerifObj::Cal(Cal::new(vec![to_ndt(19800), to_ndt(19801)], vec![5, 6])),
        "UnionCal" => VerifObj::UnionCal(UnionCal::new(vec![Cal::new(vec![to_ndt(19800)], vec![5, 6])], Some(vec![Cal::new(vec![], vec![6])]))),
        "NamedCal" => VerifObj::NamedCal(NamedCal::try_new("tgt,ldn|fed").unwrap()),
        "FXRates" => VerifObj::FXRates(
            FXRates::try_new(
                vec![FXRate::try_new("eur", "usd", Number::F64(1.08), Some(to_ndt(19800))).unwrap(), FXRate::try_new("usd", "jpy", Number::F64(110.5), Some(to_ndt(19800))).unwrap()],
                Some(Ccy::try_new("usd").unwrap()),
            )
            .unwrap(),
        ),
        "FXRates1" => VerifObj::FXRates(FXRates::try_new(vec![FXRate::try_new("eur", "usd", Number::Dual(Dual::new(1.08, vec!["q".into()])), None).unwrap()], None).unwrap()),
        "Curve" => {
            let mut m: IndexMap<chrono::NaiveDateTime, Number> = IndexMap::new();
            m.insert(to_ndt(19000), Number::F64(1.0));
            m.insert(to_ndt(19365), Number::F64(0.97));
            m.insert(to_ndt(19730), Number::F64(0.94));
            VerifObj::Curve(VerifCurve::new(m, VerifInterp::LogLinear, ADOrder::One, "v", Convention::Act360, Modifier::ModF, CalType::NamedCal(NamedCal::try_new("tgt").unwrap()), Some(100.0)).unwrap())
        }
        "PPSplineF64" => VerifObj::PPSplineF64(hooks::ppspline_f64_wrap(PPSpline::<f64>::new(2, vec![0.0, 0.0, 1.0, 2.0, 2.0], Some(vec![1.0, 2.0, 0.5])))),
        "PPSplineDual" => VerifObj::PPSplineDual(hooks::ppspline_dual_wrap(PPSpline::<Dual>::new(2, vec![0.0, 0.0, 2.0, 2.0], Some(vec![Dual::new(1.0, vec!["a".into()]), Dual::new(2.0, vec![])])))),
        _ => VerifObj::PPSplineDual2(hooks::ppspline_dual2_wrap(PPSpline::<Dual2>::new(2, vec![0.0, 0.0, 2.0, 2.0], None))),
    }
}

fn valid_json(doc: &str, tagged: bool) -> String {
    let o = valid_obj(doc);
    if tagged {
        hooks::tagged_to_json(&o).unwrap()
    } else {
        match &o {
            VerifObj::Dual(x) => serde_json::to_string(x).unwrap(),
            VerifObj::Dual2(x) => serde_json::to_string(x).unwrap(),
            VerifObj::Cal(x) => x.to_json().unwrap(),
            VerifObj::UnionCal(x) => x.to_json().unwrap(),
            VerifObj::NamedCal(x) => x.to_json().unwrap(),
            VerifObj::FXRates(x) => x.to_json().unwrap(),
            VerifObj::Curve(x) => x.to_json().unwrap(),
            VerifObj::PPSplineF64(x) => serde_json::to_string(x).unwrap(),
            VerifObj::PPSplineDual(x) => serde_json::to_string(x).unwrap(),
            VerifObj::PPSplineDual2(x) => serde_json::to_string(x).unwrap(),
        }
    }
}

fn load(doc: &str, tagged: bool, text: &str) -> Result<VerifObj, String> {
    if tagged {
        return hooks::tagged_from_json(text);
    }
    let e = |e: serde_json::Error| e.to_string();
    Ok(match doc {
        "Dual" | "Dual0" => VerifObj::Dual(serde_json::from_str(text).map_err(e)?),
        "Dual2" | "Dual2_1" => VerifObj::Dual2(serde_json::from_str(text).map_err(e)?),
        "Cal" | "CalEmpty" => VerifObj::Cal(Cal::from_json(text).map_err(e)?),
        "UnionCal" | "UnionNone" => VerifObj::UnionCal(UnionCal::from_json(text).map_err(e)?),
        "NamedCal" => VerifObj::NamedCal(NamedCal::from_json(text).map_err(e)?),
        "FXRates" | "FXRates1" => VerifObj::FXRates(FXRates::from_json(text).map_err(e)?),
        "Curve" | "CurveFlat0" | "Curve2" => VerifObj::Curve(VerifCurve::from_json(text)?),
        "PPSplineF64" => VerifObj::PPSplineF64(serde_json::from_str(text).map_err(e)?),
        "PPSplineDual" => VerifObj::PPSplineDual(serde_json::from_str(text).map_err(e)?),
        _ => VerifObj::PPSplineDual2(serde_json::from_str(text).map_err(e)?),
    })
}

fn dual_shape(d: &Dual) -> Result<(), String> {
    if d.dual().len() != d.vars().len() {
        return Err(format!("vars-vs-dual-length: vars {} dual {}", d.vars().len(), d.dual().len()));
    }
    Ok(())
}
fn dual2_shape(d: &Dual2) -> Result<(), String> {
    let n = d.vars().len();
    if d.dual().len() != n {
        return Err(format!("vars-vs-dual-length: vars {} dual {}", n, d.dual().len()));
    }
    if d.dual2().shape() != [n, n] {
        return Err(format!("vars-vs-dual2-shape: vars {} dual2 {:?}", n, d.dual2().shape()));
    }
    Ok(())
}
fn number_shape(x: &Number) -> Result<(), String> {
    match x {
        Number::F64(_) => Ok(()),
        Number::Dual(d) => dual_shape(d),
        Number::Dual2(d) => dual2_shape(d),
    }
}
fn spline_shape<T>(s: &PPSpline<T>, each: &dyn Fn(&T) -> Result<(), String>) -> Result<(), String> {
    if s.t().len() < *s.k() || *s.n() != s.t().len() - *s.k() {
        return Err(format!("n-vs-knots: n {} t.len() {} k {}", s.n(), s.t().len(), s.k()));
    }
    if let Some(c) = s.c() {
        if c.len() != *s.n() {
            return Err(format!("coefficients-vs-n: c.len() {} n {}", c.len(), s.n()));
        }
        for x in c.iter() {
            each(x).map_err(|e| format!("coefficient/{}", e))?;
        }
    }
    Ok(())
}
fn fx_shape(f: &FXRates) -> Result<(), String> {
    let cs = hooks::fxrates_currencies(f);
    let q = hooks::fxrates_fx_rates(f);
    if cs.len() != q.len() + 1 {
        return Err(format!("currencies-vs-quotes: {} currencies, {} quotes", cs.len(), q.len()));
    }
    let shape_ok = match hooks::fxrates_fx_array(f) {
        NumberArray2::F64(a) => a.shape() == [cs.len(), cs.len()],
        NumberArray2::Dual(a) => a.shape() == [cs.len(), cs.len()],
        NumberArray2::Dual2(a) => a.shape() == [cs.len(), cs.len()],
    };
    if !shape_ok {
        return Err("matrix-shape".into());
    }
    // a market never holds quotes with different settlement dates (construction rejects them)
    let setts: Vec<_> = q.iter().map(|r| hooks::fxrate_parts(r).3).collect();
    if setts.windows(2).any(|w| w[0] != w[1]) {
        return Err(format!("settlement-dates-differ: {:?}", setts));
    }
    for r in q.iter() {
        let (l, rr, num, _) = hooks::fxrate_parts(r);
        number_shape(&num).map_err(|e| format!("quote/{}", e))?;
        match (Ccy::try_new(&l), Ccy::try_new(&rr)) {
            (Ok(a), Ok(b)) => {
                match f.rate(&a, &b) {
                    None => return Err(format!("quoted-pair-unanswered: {}{}", l, rr)),
                    Some(v) => {
                        // the object is consistent with its own quotes: a quoted pair is returned as quoted
                        let (got, want) = (f64::from(&v), f64::from(&num));
                        if got.to_bits() != want.to_bits() && !(got.is_nan() && want.is_nan()) {
                            return Err(format!("quoted-pair-not-as-quoted: {}{} reads {:e}, its stored quote is {:e}", l, rr, got, want));
                        }
                    }
                }
            }
            _ => {}
        }
    }
    Ok(())
}

fn cal_shape(c: &rateslib::calendars::Cal) -> Result<(), String> {
    let (hols, mask) = hooks::cal_parts(c);
    if let Some(h) = hols.iter().find(|h| !c.is_holiday(h) || c.is_bus_day(h)) {
        return Err(format!("listed-holiday-not-closed: {}", h));
    }
    for z in 19_700i64..19_707 {
        let d = to_ndt(z);
        let wd = chrono::Datelike::weekday(&d).num_days_from_monday() as u8;
        if mask.contains(&wd) && c.is_bus_day(&d) {
            return Err(format!("masked-weekday-is-a-business-day: {}", d));
        }
    }
    Ok(())
}

/// shape invariants of a successfully loaded object
fn invariants(o: &VerifObj) -> Result<(), String> {
    match o {
        VerifObj::Dual(d) => dual_shape(d),
        VerifObj::Dual2(d) => dual2_shape(d),
        // a loaded calendar closes every date it lists as a holiday and every weekday of its mask (whatever order the
        // document listed them in)
        VerifObj::Cal(c) => cal_shape(c),
        VerifObj::UnionCal(u) => {
            let (members, settle) = hooks::unioncal_parts(u);
            for c in members.iter().chain(settle.iter().flatten()) {
                cal_shape(c)?;
            }
            for c in members.iter() {
                let (hols, _) = hooks::cal_parts(c);
                if let Some(h) = hols.iter().find(|h| u.is_bus_day(h)) {
                    return Err(format!("member-holiday-is-a-business-day: {}", h));
                }
            }
            Ok(())
        }
        VerifObj::NamedCal(n) => {
            let (name, _) = hooks::namedcal_parts(n);
            match NamedCal::try_new(&name) {
                Ok(fresh) => {
                    for z in 19700..19760 {
                        if fresh.is_bus_day(&to_ndt(z)) != n.is_bus_day(&to_ndt(z)) || fresh.is_settlement(&to_ndt(z)) != n.is_settlement(&to_ndt(z)) {
                            return Err(format!("name-vs-behaviour: {:?}", name));
                        }
                    }
                    Ok(())
                }
                Err(_) => Err(format!("unresolvable-name: {:?}", name)),
            }
        }
        VerifObj::FXRates(f) => fx_shape(f),
        VerifObj::Curve(c) => {
            for (_, v) in c.nodes().iter() {
                number_shape(v).map_err(|e| format!("node/{}", e))?;
            }
            Ok(())
        }
        VerifObj::PPSplineF64(s) => spline_shape(hooks::ppspline_f64_inner(s), &|_| Ok(())),
        VerifObj::PPSplineDual(s) => spline_shape(hooks::ppspline_dual_inner(s), &dual_shape),
        VerifObj::PPSplineDual2(s) => spline_shape(hooks::ppspline_dual2_inner(s), &dual2_shape),
    }
}

fn panic_class(msg: &str) -> String {
    // stable, input-independent classification: source file + the kind of failure
    let loc = msg.rsplit(" @ ").next().unwrap_or("");
    let file = loc.rsplit('/').next().unwrap_or(loc);
    let file = file.split(':').next().unwrap_or(file);
    let kind = if msg.contains("overflow") {
        "overflow"
    } else if msg.contains("unwrap()` on a `None`") {
        "unwrap-none"
    } else if msg.contains("unwrap()` on an `Err`") || msg.contains("bad data") {
        "unwrap-err"
    } else if msg.contains("index out of bounds") || msg.contains("out of range") || msg.contains("ndarray: index") {
        "index-out-of-bounds"
    } else if msg.contains("assertion") {
        "assertion"
    } else {
        "other"
    };
    format!("{}/{}", file, kind)
}

fn judge_json(doc: &str, tagged: bool, text: &str, desc: &str, case: &Case, idx: u64, acc: &mut Acc) {
    acc.eval();
    let r = guarded(|| load(doc, tagged, text).map(|o| (invariants(&o), o.tag())));
    let ch = if tagged { "tagged" } else { "typed" };
    match r {
        Err(msg) => acc.violate(&format!("json/{}/panic/{}", doc, panic_class(&msg)), idx, serde_json::to_value(case).unwrap(), json!({"mutation": desc, "text": text, "want": "Ok or Err"}), json!(format!("{} entry point panicked: {}", ch, msg))),
        Ok(Err(_)) => {
            acc.bump("rejected with an error");
        }
        Ok(Ok((inv, tag))) => {
            acc.bump("accepted");
            acc.outcome(&(doc.to_string(), tag, text.len()));
            if let Err(e) = inv {
                let class = e.split(':').next().unwrap_or("invariant").to_string();
                acc.violate(&format!("json/{}/loaded-object-breaks-invariant/{}", tag, class), idx, serde_json::to_value(case).unwrap(), json!({"mutation": desc, "text": text, "want": "Err, or an object satisfying its shape invariants"}), json!(format!("{} entry point returned Ok: {}", ch, e)));
            }
        }
    }
}

// ---------------------------------------------------------------------------------------------

fn mask_vec(m: u8) -> Vec<u8> {
    (0..7u8).filter(|i| m & (1 << i) != 0).collect()
}

fn nclass(n: i8) -> &'static str {
    match n {
        i8::MIN => "i8::MIN",
        i8::MAX => "i8::MAX",
        0 => "zero",
        _ => "other",
    }
}

fn sweep_dates<C: DateRoll>(cal: &C, tag: &str, case: &Case, idx: u64, acc: &mut Acc) {
    let z0 = days_from_civil(2024, 2, 26);
    let lo = days_from_civil(1990, 1, 1);
    let hi = days_from_civil(2060, 1, 1);
    for z in z0..z0 + 9 {
        let d = to_ndt(z);
        for n in i8::MIN..=i8::MAX {
            for flag in [false, true] {
                acc.evals_add(2);
                match guarded(|| cal.add_bus_days(&d, n, flag).map(|x| from_ndt(&x)).ok()) {
                    Err(msg) => acc.violate(&format!("add_bus_days/{}/{}", nclass(n), panic_class(&msg)), idx, serde_json::to_value(case).unwrap(), json!({"calendar": tag, "date": fmt_day(z), "n": n, "settlement": flag}), json!(msg)),
                    Ok(Some(r)) => {
                        acc.outcome(&(r - z, n));
                        if r < lo || r > hi {
                            acc.violate("add_bus_days/absurd-result", idx, serde_json::to_value(case).unwrap(), json!({"date": fmt_day(z), "n": n}), json!(fmt_day(r)));
                        }
                    }
                    Ok(None) => {}
                }
                if let Err(msg) = guarded(|| cal.lag(&d, n, flag)) {
                    acc.violate(&format!("lag/{}/{}", nclass(n), panic_class(&msg)), idx, serde_json::to_value(case).unwrap(), json!({"calendar": tag, "date": fmt_day(z), "n": n, "settlement": flag}), json!(msg));
                }
                for m in MODS.iter() {
                    acc.eval();
                    if let Err(msg) = guarded(|| cal.add_days(&d, n, m, flag)) {
                        acc.violate(&format!("add_days/{}/{}", nclass(n), panic_class(&msg)), idx, serde_json::to_value(case).unwrap(), json!({"calendar": tag, "date": fmt_day(z), "n": n, "modifier": mod_name(m), "settlement": flag}), json!(msg));
                    }
                }
            }
            if n == i8::MIN || n == i8::MAX {
                acc.nontrivial();
            }
        }
        for m in MODS.iter() {
            for flag in [false, true] {
                acc.eval();
                if let Err(msg) = guarded(|| cal.roll(&d, m, flag)) {
                    acc.violate(&format!("roll/{}", panic_class(&msg)), idx, serde_json::to_value(case).unwrap(), json!({"calendar": tag, "date": fmt_day(z), "modifier": mod_name(m)}), json!(msg));
                }
            }
        }
    }
}

fn all_rolls() -> Vec<RollDay> {
    let mut v = vec![RollDay::Unspecified {}, RollDay::EoM {}, RollDay::SoM {}, RollDay::IMM {}];
    for d in 1..=31 {
        v.push(RollDay::Int { day: d });
    }
    v
}

pub fn check(case: &Case, idx: u64, acc: &mut Acc) {
    let cj = || serde_json::to_value(case).unwrap();
    progress(idx);
    match case {
        Case::DualCtor { names, ng, nh } => {
            let pool = ["x", "y", "z"];
            let vars: Vec<String> = names.iter().map(|i| pool[*i as usize].to_string()).collect();
            let mut distinct = vars.clone();
            distinct.sort();
            distinct.dedup();
            let n = distinct.len();
            let g: Vec<f64> = (0..*ng).map(|i| 1.0 + i as f64).collect();
            let h: Vec<f64> = (0..*nh).map(|i| 0.5 * i as f64).collect();
            let ok1 = *ng == 0 || *ng == n;
            let ok2 = ok1 && (*nh == 0 || *nh == n * n);
            if vars.len() != n {
                acc.nontrivial();
            }
            let others: [Dual; 2] = [Dual::new(1.0, vec![]), Dual::new(1.0, vec!["x".into(), "w".into()])];
            acc.evals_add(6);
            let r = guarded(|| {
                let mut res: Vec<(String, bool, Result<(), String>, bool)> = vec![];
                if *nh == 0 {
                    let a = Dual::try_new(1.5, vars.clone(), g.clone());
                    res.push(("Dual::try_new".into(), a.is_ok(), a.as_ref().map(|d| dual_shape(d)).unwrap_or(Ok(())), ok1));
                    for o in others.iter() {
                        let a = Dual::try_new_from(o, 1.5, vars.clone(), g.clone());
                        res.push(("Dual::try_new_from".into(), a.is_ok(), a.as_ref().map(|d| dual_shape(d).and(if d.vars().len() == o.vars().len() { Ok(()) } else { Err("vars not taken from other".into()) })).unwrap_or(Ok(())), ok1));
                    }
                }
                let a = Dual2::try_new(1.5, vars.clone(), g.clone(), h.clone());
                res.push(("Dual2::try_new".into(), a.is_ok(), a.as_ref().map(|d| dual2_shape(d)).unwrap_or(Ok(())), ok2));
                for o in others.iter() {
                    let a = Dual2::try_new_from(o, 1.5, vars.clone(), g.clone(), h.clone());
                    res.push(("Dual2::try_new_from".into(), a.is_ok(), a.as_ref().map(|d| dual2_shape(d)).unwrap_or(Ok(())), ok2));
                }
                res
            });
            match r {
                Err(msg) => acc.violate(&format!("ctor/Dual/panic/{}", panic_class(&msg)), idx, cj(), json!("Ok or Err"), json!(msg)),
                Ok(res) => {
                    for (f, ok, shape, want_ok) in res {
                        acc.outcome(&(f.clone(), ok));
                        if let Err(e) = shape {
                            acc.violate(&format!("ctor/{}/invariant", f), idx, cj(), json!("consistent shapes"), json!(e));
                        }
                        if ok != want_ok {
                            acc.violate(&format!("ctor/{}/{}", f, if ok { "accepted-inconsistent-lengths" } else { "rejected-consistent-lengths" }), idx, cj(), json!(want_ok), json!(ok));
                        }
                    }
                }
            }
        }
        Case::DualCtorLarge { n, dup, ng, nh } => {
            let mut vars: Vec<String> = (0..*n).map(|i| format!("v{}", i)).collect();
            if *dup {
                vars[*n - 1] = "v0".to_string();
            }
            let nd = if *dup { *n - 1 } else { *n };
            let g: Vec<f64> = (0..*ng).map(|i| 1.0 + i as f64).collect();
            let h: Vec<f64> = (0..*nh).map(|i| 0.5 * i as f64).collect();
            let ok1 = *ng == 0 || *ng == nd;
            let ok2 = ok1 && (*nh == 0 || *nh == nd * nd);
            acc.nontrivial();
            let big_other = Dual::new(1.0, (0..*n + 3).rev().map(|i| format!("v{}", i)).collect());
            acc.evals_add(4);
            let r = guarded(|| {
                let mut res: Vec<(String, bool, Result<(), String>, bool)> = vec![];
                if *nh == 0 {
                    let a = Dual::try_new(1.5, vars.clone(), g.clone());
                    res.push(("Dual::try_new".into(), a.is_ok(), a.as_ref().map(|d| dual_shape(d)).unwrap_or(Ok(())), ok1));
                    let a = Dual::try_new_from(&big_other, 1.5, vars.clone(), g.clone());
                    res.push(("Dual::try_new_from".into(), a.is_ok(), a.as_ref().map(|d| dual_shape(d).and(if d.vars().len() == big_other.vars().len() { Ok(()) } else { Err("vars not taken from other".into()) })).unwrap_or(Ok(())), ok1));
                }
                let a = Dual2::try_new(1.5, vars.clone(), g.clone(), h.clone());
                res.push(("Dual2::try_new".into(), a.is_ok(), a.as_ref().map(|d| dual2_shape(d)).unwrap_or(Ok(())), ok2));
                let a = Dual2::try_new_from(&big_other, 1.5, vars.clone(), g.clone(), h.clone());
                res.push(("Dual2::try_new_from".into(), a.is_ok(), a.as_ref().map(|d| dual2_shape(d)).unwrap_or(Ok(())), ok2));
                res
            });
            match r {
                Err(msg) => acc.violate(&format!("ctor/Dual/panic/{}", panic_class(&msg)), idx, cj(), json!("Ok or Err"), json!(msg)),
                Ok(res) => {
                    for (f, ok, shape, want_ok) in res {
                        acc.outcome(&(f.clone(), ok, *n));
                        if let Err(e) = shape {
                            acc.violate(&format!("ctor/{}/invariant", f), idx, cj(), json!("consistent shapes"), json!(e));
                        }
                        if ok != want_ok {
                            acc.violate(&format!("ctor/{}/{}", f, if ok { "accepted-inconsistent-lengths" } else { "rejected-consistent-lengths" }), idx, cj(), json!(want_ok), json!(ok));
                        }
                    }
                }
            }
        }
        Case::CcyCtor { s } => {
            let alphabet = ["a", "B", "1", "é", "€", " "];
            let mut others: Vec<String> = vec![String::new()];
            let mut frontier = vec![String::new()];
            for _ in 0..3 {
                let mut next = vec![];
                for f in frontier.iter() {
                    for a in alphabet {
                        next.push(format!("{}{}", f, a));
                    }
                }
                others.extend(next.iter().cloned());
                frontier = next;
            }
            acc.eval();
            match guarded(|| Ccy::try_new(s).ok().map(|c| hooks::ccy_name(&c))) {
                Err(msg) => acc.violate(&format!("ctor/Ccy/panic/{}", panic_class(&msg)), idx, cj(), json!("Ok or Err"), json!(msg)),
                Ok(Some(name)) => {
                    acc.nontrivial();
                    if name != s.to_lowercase() || name.len() != 3 {
                        acc.violate("ctor/Ccy/invariant", idx, cj(), json!("lower-cased three-character name"), json!(name));
                    }
                }
                Ok(None) => {}
            }
            for t in others.iter() {
                acc.evals_add(2);
                let r = guarded(|| (FXPair::try_new(s, t).is_ok(), FXRate::try_new(s, t, Number::F64(1.25), None).is_ok()));
                match r {
                    Err(msg) => acc.violate(&format!("ctor/FXPair/panic/{}", panic_class(&msg)), idx, cj(), json!({"rhs": t}), json!(msg)),
                    Ok((p, q)) => {
                        acc.outcome(&(p, q, s.len(), t.len()));
                        let both = Ccy::try_new(s).is_ok() && Ccy::try_new(t).is_ok();
                        let same = s.to_lowercase() == t.to_lowercase();
                        if p != q || (p && (!both || same)) {
                            acc.violate("ctor/FXPair/invariant", idx, cj(), json!({"rhs": t, "want": "two valid, distinct currencies"}), json!([p, q]));
                        }
                    }
                }
            }
        }
        Case::FxCtor { id } => {
            let sd = Some(to_ndt(19800));
            let q = |a: &str, b: &str, n: Number, s: Option<chrono::NaiveDateTime>| FXRate::try_new(a, b, n, s).unwrap();
            let weird = [0.0, -1.5, f64::NAN, f64::INFINITY, 5e-324, f64::MAX, -0.0];
            let lists: Vec<Vec<FXRate>> = match id {
                0 => vec![vec![]],
                1 => weird.iter().map(|w| vec![q("eur", "usd", Number::F64(*w), None), q("usd", "jpy", Number::F64(110.0), None)]).collect(),
                2 => vec![
                    vec![q("eur", "usd", Number::Dual(Dual::new(1.1, vec!["a".into()])), None), q("usd", "jpy", Number::Dual2(Dual2::new(110.0, vec!["b".into()])), None)],
                    vec![q("eur", "usd", Number::Dual2(Dual2::new(1.1, vec!["a".into()])), sd), q("gbp", "usd", Number::F64(1.3), sd), q("usd", "jpy", Number::Dual(Dual::new(110.0, vec!["a".into()])), sd)],
                ],
                3 => vec![vec![q("eur", "usd", Number::F64(1.1), None), q("eur", "usd", Number::F64(1.2), None)], vec![q("eur", "usd", Number::F64(1.1), None), q("usd", "eur", Number::F64(0.9), None), q("gbp", "jpy", Number::F64(150.0), None)]],
                _ => vec![(0..12).map(|i| q(CCYS[i], CCYS[i + 1], Number::F64(1.0 + i as f64), None)).collect(), (0..12).map(|i| q(CCYS[12], CCYS[i], Number::F64(1.0 + i as f64), None)).collect()],
            };
            for l in lists {
                for base in [None, Some("usd"), Some("zzz")] {
                    for order in [None, Some(ADOrder::Zero), Some(ADOrder::Two)] {
                        acc.eval();
                        acc.nontrivial();
                        let r = guarded(|| {
                            FXRates::try_new(l.clone(), base.map(|b| Ccy::try_new(b).unwrap())).ok().map(|mut f| {
                                if let Some(o) = order {
                                    let _ = f.set_ad_order(o);
                                }
                                fx_shape(&f)
                            })
                        });
                        match r {
                            Err(msg) => acc.violate(&format!("ctor/FXRates/panic/{}", panic_class(&msg)), idx, cj(), json!({"quotes": l.len(), "base": base}), json!(msg)),
                            Ok(Some(Err(e))) => acc.violate("ctor/FXRates/invariant", idx, cj(), json!("n = quotes + 1, n x n matrix, quoted pairs answer"), json!(e)),
                            Ok(x) => acc.outcome(&(id, x.is_some())),
                        }
                    }
                }
            }
        }
        Case::NamedCtor { s } => {
            acc.eval();
            match guarded(|| NamedCal::try_new(s).ok().map(|c| invariants(&VerifObj::NamedCal(c)))) {
                Err(msg) => acc.violate(&format!("ctor/NamedCal/panic/{}", panic_class(&msg)), idx, cj(), json!("Ok or Err"), json!(msg)),
                Ok(Some(Err(e))) => acc.violate("ctor/NamedCal/invariant", idx, cj(), json!("behaves as its name"), json!(e)),
                Ok(None) => acc.nontrivial(),
                Ok(Some(Ok(()))) => {}
            }
            acc.outcome(&s.len());
            // long names also as the name of a stored named calendar
            if s.len() > 20 {
                acc.eval();
                let doc = NamedCal::try_new("tgt").unwrap().to_json().unwrap().replacen("\"tgt\"", &serde_json::to_string(s).unwrap(), 1);
                match guarded(|| load("NamedCal", false, &doc).ok().map(|o| invariants(&o))) {
                    Err(msg) => acc.violate(&format!("json/NamedCal/long-name/panic/{}", panic_class(&msg)), idx, cj(), json!("Ok or Err"), json!(msg)),
                    Ok(Some(Err(e))) => acc.violate("json/NamedCal/long-name/invariant", idx, cj(), json!("behaves as its name"), json!(e)),
                    _ => {}
                }
            }
        }
        Case::Dates { bmask, smask, hols } => {
            let z0 = days_from_civil(2024, 2, 26);
            let hs: Vec<_> = (0..3).filter(|i| hols & (1 << i) != 0).map(|i| to_ndt(z0 + 1 + 2 * i)).collect();
            let c = Cal::new(hs, mask_vec(*bmask));
            match smask {
                None => sweep_dates(&c, "Cal", case, idx, acc),
                Some(sm) => {
                    if (bmask | sm) & 0x7f == 0x7f {
                        acc.skip();
                        return;
                    }
                    let u = UnionCal::new(vec![c], Some(vec![Cal::new(vec![to_ndt(z0 + 3)], mask_vec(*sm))]));
                    sweep_dates(&u, "UnionCal", case, idx, acc);
                    let ct = CalType::UnionCal(u);
                    if idx % 5 == 0 {
                        sweep_dates(&ct, "CalType", case, idx, acc);
                    }
                }
            }
            acc.sample(cj);
        }
        Case::Months { start, roll } => {
            let cal = NamedCal::try_new("bus").unwrap();
            let d = to_ndt(*start);
            let (y, m, _) = civil_from_days(*start);
            let r = all_rolls()[*roll as usize];
            for off in -2772i32..=2772 {
                let t = 12 * y + (m - 1) + off as i64;
                let ty = t.div_euclid(12);
                if !(1970..=2200).contains(&ty) {
                    continue;
                }
                for md in MODS.iter() {
                    for flag in [false, true] {
                        acc.eval();
                        match guarded(|| from_ndt(&cal.add_months(&d, off, md, &r, flag))) {
                            Err(msg) => acc.violate(&format!("add_months/{}", panic_class(&msg)), idx, cj(), json!({"months": off, "modifier": mod_name(md), "settlement": flag}), json!(msg)),
                            Ok(z) => {
                                if z < days_from_civil(1969, 12, 1) || z > days_from_civil(2201, 1, 31) {
                                    acc.violate("add_months/absurd-result", idx, cj(), json!({"months": off}), json!(fmt_day(z)));
                                }
                            }
                        }
                    }
                }
                if off.abs() > 1200 {
                    acc.nontrivial();
                }
            }
            acc.outcome(&(start, roll));
            if idx % 57 == 0 {
                acc.sample(cj);
            }
        }
        Case::Csolve { k, sites, ny, left_n, right_n, lsq } => {
            progress(idx);
            let k = *k;
            let mut t = vec![0.0; k];
            t.extend([1.0, 2.0, 3.0]);
            t.extend(vec![4.0; k]);
            let n = t.len() - k;
            let tau: Vec<f64> = match sites {
                0 => (0..n).map(|j| 4.0 * j as f64 / (n - 1) as f64).collect(),
                1 => (0..n - 1).map(|j| 4.0 * j as f64 / (n - 1) as f64).collect(),
                2 => (0..n + 1).map(|j| 4.0 * j as f64 / n as f64).collect(),
                3 => vec![],
                4 => vec![2.0; n],
                5 => (0..n).map(|j| 0.9 * j as f64 / (n - 1) as f64).collect(),
                6 => (0..n).map(|j| -1.0 + 6.0 * j as f64 / (n - 1) as f64).collect(),
                7 => (0..n).rev().map(|j| 4.0 * j as f64 / (n - 1) as f64).collect(),
                8 => (0..n).map(|j| if j == 2 { f64::NAN } else { 4.0 * j as f64 / (n - 1) as f64 }).collect(),
                _ => (0..n + 3).map(|j| 4.0 * j as f64 / (n + 2) as f64).collect(),
            };
            let ylen = (tau.len() as i64 + *ny as i64).max(0) as usize;
            let y: Vec<f64> = (0..ylen).map(|j| 1.0 + 0.25 * j as f64).collect();
            if *sites != 0 {
                acc.nontrivial();
            }
            let sname = ["proper", "one-too-few", "one-too-many", "empty", "all-equal", "all-in-first-span", "outside-domain", "descending", "nan-site", "many"][*sites as usize];
            acc.evals_add(2);
            let r = guarded(|| {
                let mut s = PPSpline::<f64>::new(k, t.clone(), None);
                let a = s.csolve(&tau, &y, *left_n, *right_n, *lsq);
                let inv = if a.is_ok() { spline_shape(&s, &|_| Ok(())) } else { Ok(()) };
                let mut sd = PPSpline::<Dual>::new(k, t.clone(), None);
                let yd: Vec<Dual> = y.iter().enumerate().map(|(j, v)| Dual::new(*v, vec![format!("y{}", j)])).collect();
                let b = sd.csolve(&tau, &yd, *left_n, *right_n, *lsq);
                let invd = if b.is_ok() { spline_shape(&sd, &dual_shape) } else { Ok(()) };
                (a.is_ok(), inv, b.is_ok(), invd)
            });
            match r {
                Err(msg) => acc.violate(
                    &format!("csolve/panic/{}", panic_class(&msg)),
                    idx,
                    cj(),
                    json!({"sites": sname, "tau": tau, "y_len": ylen, "want": "Ok or Err"}),
                    json!(msg),
                ),
                Ok((a, inv, b, invd)) => {
                    acc.outcome(&(a, b, *sites));
                    for (ty, e) in [("f64", inv), ("Dual", invd)] {
                        if let Err(e) = e {
                            acc.violate(&format!("csolve/{}/invariant", ty), idx, cj(), json!("c.len() == n"), json!(e));
                        }
                    }
                    if a != b {
                        acc.violate("csolve/f64-vs-Dual-disagree", idx, cj(), json!(a), json!(b));
                    }
                }
            }
        }
        Case::CsolveTiny { k, n, ntau, ny, left_n, right_n, lsq } => {
            progress(idx);
            let (k, n) = (*k, *n);
            let t: Vec<f64> = (0..n + k).map(|j| j as f64).collect();
            let hi = (n + k) as f64 - 1.0;
            let tau: Vec<f64> = (0..*ntau).map(|j| if *ntau == 1 { 0.5 * hi } else { hi * j as f64 / (*ntau - 1) as f64 }).collect();
            let ylen = (*ntau as i64 + *ny as i64).max(0) as usize;
            let y: Vec<f64> = (0..ylen).map(|j| 1.0 + 0.25 * j as f64).collect();
            acc.nontrivial();
            acc.evals_add(3);
            // the (infallible) constructor is not under test: a spline it refuses to build is skipped
            let built = guarded(|| PPSpline::<f64>::new(k, t.clone(), None)).is_ok();
            if !built {
                acc.skip();
                return;
            }
            let r = guarded(|| {
                let mut s = PPSpline::<f64>::new(k, t.clone(), None);
                let a = s.csolve(&tau, &y, *left_n, *right_n, *lsq);
                let inv = if a.is_ok() { spline_shape(&s, &|_| Ok(())) } else { Ok(()) };
                let mut sd = PPSpline::<Dual>::new(k, t.clone(), None);
                let yd: Vec<Dual> = y.iter().enumerate().map(|(j, v)| Dual::new(*v, vec![format!("y{}", j)])).collect();
                let b = sd.csolve(&tau, &yd, *left_n, *right_n, *lsq);
                let invd = if b.is_ok() { spline_shape(&sd, &dual_shape) } else { Ok(()) };
                let mut s2 = PPSpline::<Dual2>::new(k, t.clone(), None);
                let y2: Vec<Dual2> = y.iter().enumerate().map(|(j, v)| Dual2::new(*v, vec![format!("y{}", j)])).collect();
                let c = s2.csolve(&tau, &y2, *left_n, *right_n, *lsq);
                // evaluation on whatever came out must return, too
                let _ = s.ppdnev_single(&(0.5 * hi), 0);
                (a.is_ok(), inv, b.is_ok(), invd, c.is_ok())
            });
            match r {
                Err(msg) => acc.violate(&format!("csolve/tiny/panic/{}", panic_class(&msg)), idx, cj(), json!({"t": t, "tau": tau, "y_len": ylen, "want": "Ok or Err"}), json!(msg)),
                Ok((a, inv, b, invd, c)) => {
                    acc.outcome(&(a, b, c, k, n, *ntau));
                    for (ty, e) in [("f64", inv), ("Dual", invd)] {
                        if let Err(e) = e {
                            acc.violate(&format!("csolve/tiny/{}/invariant", ty), idx, cj(), json!("c.len() == n"), json!(e));
                        }
                    }
                    let _ = (a, b, c); // (whether a degenerate one-site system counts as singular may differ by data type)
                }
            }
        }
        Case::Json { doc, tagged, m1, pairs } => {
            progress(idx);
            let base_text = valid_json(doc, *tagged);
            let base: Value = serde_json::from_str(&base_text).unwrap();
            let muts = mutations(&base);
            if *m1 == usize::MAX {
                // the unmutated document must load and satisfy its invariants
                acc.eval();
                match guarded(|| load(doc, *tagged, &base_text).map(|o| invariants(&o))) {
                    Ok(Ok(Ok(()))) => {}
                    other => machinery_fail(&format!("valid document of {} does not load cleanly: {:?}", doc, other.map(|r| r.map(|_| ())))),
                }
                return;
            }
            let m = &muts[*m1];
            let mut v = base.clone();
            let mut dup = vec![];
            if !apply_mut(&mut v, m, &mut dup) {
                acc.skip();
                return;
            }
            let mut text = String::new();
            print(&v, &mut vec![], &dup, &mut text);
            acc.nontrivial();
            judge_json(doc, *tagged, &text, &format!("{:?}", m), case, idx, acc);
            if *pairs {
                let muts2 = mutations(&v);
                for m2 in muts2.iter() {
                    let mut v2 = v.clone();
                    let mut dup2 = dup.clone();
                    if !apply_mut(&mut v2, m2, &mut dup2) {
                        continue;
                    }
                    let mut text2 = String::new();
                    print(&v2, &mut vec![], &dup2, &mut text2);
                    judge_json(doc, *tagged, &text2, &format!("{:?} then {:?}", m, m2), case, idx, acc);
                }
            }
            if idx % 2503 == 0 {
                acc.sample(|| json!({"doc": doc, "tagged": tagged, "mutation": format!("{:?}", m), "text": text}));
            }
        }
    }
}

pub fn cases(tier: Tier) -> Vec<Case> {
    let mut out = vec![];
    // JSON first (longest)
    for doc in DOCS {
        for tagged in [false, true] {
            let base: Value = serde_json::from_str(&valid_json(doc, tagged)).unwrap();
            let mut nodes = vec![];
            walk(&base, &mut vec![], &mut nodes);
            let nm = mutations(&base).len();
            let pairs = nodes.len() <= tier.pick(26, 44);
            out.push(Case::Json { doc: doc.to_string(), tagged, m1: usize::MAX, pairs: false });
            for m1 in 0..nm {
                out.push(Case::Json { doc: doc.to_string(), tagged, m1, pairs });
            }
        }
    }
    // constructors
    let mut lists: Vec<Vec<u8>> = vec![vec![]];
    let mut frontier: Vec<Vec<u8>> = vec![vec![]];
    for _ in 0..3 {
        let mut next = vec![];
        for f in frontier.iter() {
            for a in 0..3u8 {
                let mut g = f.clone();
                g.push(a);
                next.push(g);
            }
        }
        lists.extend(next.iter().cloned());
        frontier = next;
    }
    for names in lists {
        for ng in 0..=4 {
            for nh in 0..=10 {
                out.push(Case::DualCtor { names: names.clone(), ng, nh });
            }
        }
    }
    for n in [8usize, 9, 16, 17, 32, 33, 64, 65, 100, 256, 257] {
        for dup in [false, true] {
            let nd = if dup { n - 1 } else { n };
            for ng in [0, nd - 1, nd, nd + 1, n, 1] {
                for nh in [0, nd * nd - 1, nd * nd, nd * nd + 1, (nd - 1) * (nd - 1), nd * (nd + 1), n * n, nd] {
                    out.push(Case::DualCtorLarge { n, dup, ng, nh });
                }
            }
        }
    }
    let alphabet = ["a", "B", "1", "é", "€", " "];
    let mut strs = vec![String::new()];
    let mut frontier = vec![String::new()];
    for _ in 0..4 {
        let mut next = vec![];
        for f in frontier.iter() {
            for a in alphabet {
                next.push(format!("{}{}", f, a));
            }
        }
        strs.extend(next.iter().cloned());
        frontier = next;
    }
    strs.extend(["USD".to_string(), "İİ".to_string(), "ǅa".to_string(), "ßß".to_string(), "\u{0}ab".to_string()]);
    for s in strs {
        out.push(Case::CcyCtor { s });
    }
    for id in 0..5 {
        out.push(Case::FxCtor { id });
    }
    let toks = ["tgt", "ldn", "zzz", ",", "|", " ", "é", "\u{0130}", "\u{212A}"];
    let mut frontier: Vec<String> = vec![String::new()];
    out.push(Case::NamedCtor { s: String::new() });
    for _ in 0..tier.pick(4, 5) {
        let mut next = vec![];
        for f in frontier.iter() {
            for t in toks {
                next.push(format!("{}{}", f, t));
            }
        }
        for s in next.iter() {
            out.push(Case::NamedCtor { s: s.clone() });
        }
        frontier = next;
    }
    // long names: one character of 2, 3 or 4 bytes (or one whose lower case is longer than itself) after 0 .. 130
    // ASCII letters, alone and as a section of a composite name
    for ch in ["é", "€", "\u{1D11E}", "\u{0130}"] {
        for l in 0..=130usize {
            let sec = format!("{}{}bcd", "a".repeat(l), ch);
            out.push(Case::NamedCtor { s: sec.clone() });
            if l % 3 == 0 || (40..=70).contains(&l) {
                out.push(Case::NamedCtor { s: format!("tgt,{}|fed", sec) });
                out.push(Case::NamedCtor { s: format!("ldn|{},tgt", sec.to_uppercase()) });
            }
        }
    }
    // dates
    let mut bmasks: Vec<u8> = vec![0, 0b1100000, 0b0110000, 0b1000001];
    for i in 0..7 {
        bmasks.push(1 << i);
        bmasks.push(0x7f & !(1 << i));
    }
    for bm in bmasks {
        for sm in [None, Some(0b1100000u8), Some(0b1000000), Some(0b0000001)] {
            for hols in tier.pick(vec![0u8, 5], vec![0u8, 1, 2, 5, 7]) {
                out.push(Case::Dates { bmask: bm, smask: sm, hols });
            }
        }
    }
    let starts: Vec<i64> = vec![
        days_from_civil(1970, 1, 1),
        days_from_civil(2200, 12, 31),
        days_from_civil(2024, 2, 29),
        days_from_civil(2023, 2, 28),
        days_from_civil(2024, 1, 31),
        days_from_civil(2024, 3, 31),
        days_from_civil(2024, 4, 30),
        days_from_civil(2024, 12, 31),
        days_from_civil(2025, 1, 1),
        days_from_civil(2100, 2, 28),
        days_from_civil(2000, 2, 29),
        days_from_civil(2085, 6, 15),
        days_from_civil(1999, 12, 31),
        days_from_civil(2024, 5, 31),
        days_from_civil(2024, 8, 30),
        days_from_civil(2024, 10, 1),
    ];
    for s in starts {
        for roll in 0..35u8 {
            out.push(Case::Months { start: s, roll });
        }
    }
    // csolve
    for k in 2..=tier.pick(4, 5) {
        for sites in 0..10u8 {
            for ny in [-1i8, 0, 1] {
                for left_n in 0..=(k + 1) {
                    for right_n in 0..=(k + 1) {
                        for lsq in [false, true] {
                            out.push(Case::Csolve { k, sites, ny, left_n, right_n, lsq });
                        }
                    }
                }
            }
        }
    }
    for k in 1..=3usize {
        for n in 0..=3usize {
            for ntau in 0..=3usize {
                for ny in [-1i8, 0, 1] {
                    for left_n in 0..=2usize {
                        for right_n in 0..=2usize {
                            for lsq in [false, true] {
                                out.push(Case::CsolveTiny { k, n, ntau, ny, left_n, right_n, lsq });
                            }
                        }
                    }
                }
            }
        }
    }
    out
}

fn evidence_meta(ctx: &Ctx, ncases: usize) -> Meta {
    Meta::exploration(
        "constructors: Dual/Dual2::try_new and try_new_from on every name list of length 0-3 (duplicates allowed) x \
         gradient length 0-4 x Hessian length 0-10, and on lists of 8 .. 257 names (with and without a repeated name) x gradient lengths {0, 1, n-1, n, n+1} x Hessian lengths {0, n, n^2-1, n^2, n^2+1, (n-1)^2, n(n+1)}; Ccy::try_new on every string of length 0-4 over {a,B,1,e-acute,euro, \
         space} (+ case-folding oddities), FXPair/FXRate::try_new on every pair with the strings of length <= 3; \
         FXRates::try_new on degenerate quote lists (empty, zero/negative/NaN/inf/subnormal/MAX rates, mixed Dual/Dual2 \
         quotes, duplicate and cyclic pairs, 13 currencies) x bases x orders; NamedCal::try_new on long names with one multi-byte character at every byte offset 0 .. 130 (alone, inside composite names, and as the name of a stored named calendar) and on every token string of \
         length <= 4 (5) over {tgt, ldn, zzz, ',', '|', ' ', e-acute, U+0130, U+212A} (the last two change UTF-8 length when lower-cased). Date arithmetic: add_bus_days, lag, add_days (5 \
         modifiers), roll for EVERY i8, both flags, 9 start dates (business and non-business) on 18 week masks (every \
         single-day mask, every six-day mask, Sat-Sun, Fri-Sat, Sun+Mon, none) x {no, Sat-Sun, Sun, Mon} settlement \
         masks x holiday patterns; add_months from 16 start dates for EVERY offset landing in 1970-2200 (up to +-2772) x \
         35 roll kinds x 5 modifiers x 2 flags. csolve: k = 2..4 (5) x ten site layouts (proper, too few, too many, \
         empty, all equal, all in the first span, outside the domain, descending, NaN, many) x y-length -1/0/+1 x \
         left_n, right_n in 0..k+1 x allow_lsq, for f64 and Dual data; the smallest splines (k = 1..3, 0..3 basis functions, 0..3 sites, y-length -1/0/+1, end orders 0..2, allow_lsq) for all three data types. JSON: for 17 valid documents covering the 10 \
         object kinds, through the typed and the tagged entry point: EVERY single mutation (delete a field or element, \
         duplicate an element, duplicate a field textually, replace a leaf by each of {0,-1,1e308,\"\",\"zzz\",null,[], \
         {},true} or a container by {0,null,[],{}}, swap two sibling values, give an array document every other shape of compatible element count) and, for documents of <= 26 (44) nodes, \
         EVERY pair of mutations. Oracle: the call returns (a panic or an abnormal child exit is a violation); Ok(v) => \
         v satisfies its shape invariants (Dual: |vars| = |dual|; Dual2: also n x n; FXRates: n = quotes + 1, n x n, \
         quoted pairs answer with exactly the stored quote, one settlement date for all quotes; PPSpline: n = |t| - k, |c| = n, coefficients well-formed; NamedCal: behaves as its name; Cal / UnionCal: every listed holiday and every masked weekday is closed). \
         Non-trivial: mutated documents, extreme day counts, improper site layouts, offsets beyond +-1200 months.",
        json!({"cases": ncases, "child_process": true}),
    )
    .assume("runs in a child process; an abnormal exit is attributed through a progress log and confirmed twice before it is reported")
    .assume("Ccy: only 'returns, and an accepted name is the lower-cased input of length 3' is demanded")
}

pub fn run(ctx: &Ctx, replay_file: Option<String>) -> ! {
    if let Some(f) = replay_file {
        replay::<Case, _>(ctx, &f, check);
    }
    let child = std::env::var("VERIF_C20_CHILD").is_ok();
    let progress_path = ctx.root.join(".target").join(format!("c20.progress.{}", std::process::id()));
    if !child {
        // ---- parent: run the sweep in a child, pass a normal verdict through, attribute an abnormal exit
        let exe = std::env::current_exe().unwrap();
        let ppath = ctx.root.join(".target").join("c20.progress");
        let _ = std::fs::create_dir_all(ctx.root.join(".target"));
        let _ = std::fs::remove_file(&ppath);
        let status = std::process::Command::new(&exe)
            .args(std::env::args().skip(1))
            .env("VERIF_C20_CHILD", "1")
            .env("VERIF_C20_PROGRESS", &ppath)
            .status()
            .unwrap_or_else(|e| machinery_fail(&format!("cannot spawn child: {}", e)));
        if let Some(code) = status.code() {
            if code == 0 || code == 1 || code == 2 {
                let _ = std::fs::remove_file(&ppath);
                std::process::exit(code);
            }
        }
        // abnormal: last logged case per worker thread
        let txt = std::fs::read_to_string(&ppath).unwrap_or_default();
        let mut last: std::collections::BTreeMap<String, u64> = Default::default();
        for l in txt.lines() {
            if let Some((t, i)) = l.rsplit_once(' ') {
                if let Ok(i) = i.parse::<u64>() {
                    last.insert(t.to_string(), i);
                }
            }
        }
        let cs = cases(ctx.tier);
        let mut acc = Acc::new();
        let mut confirmed = 0;
        for (_t, i) in last.iter() {
            let mut aborts = 0;
            for _ in 0..2 {
                let st = std::process::Command::new(&exe).args(std::env::args().skip(1)).env("VERIF_C20_CHILD", "1").env("VERIF_C20_ONLY", i.to_string()).status();
                if let Ok(st) = st {
                    if !matches!(st.code(), Some(0) | Some(1) | Some(2)) {
                        aborts += 1;
                    }
                }
            }
            if aborts == 2 {
                confirmed += 1;
                let c = &cs[*i as usize];
                let kind = serde_json::to_value(c).unwrap().as_object().unwrap().keys().next().unwrap().clone();
                acc.violate(&format!("abort/{}", kind), *i, serde_json::to_value(c).unwrap(), json!("the call returns"), json!(format!("child process died abnormally ({:?}) twice on this case", status)));
            }
        }
        if confirmed == 0 {
            machinery_fail(&format!("child exited abnormally ({:?}) but no logged case reproduced it", status));
        }
        acc.evals = last.len() as u64;
        acc.nontrivial = 2;
        acc.samples.push(json!({"abnormal_child_exit": format!("{:?}", status)}));
        finish(ctx, acc, evidence_meta(ctx, cs.len()));
    }
    // ---- child
    let _ = progress_path;
    let pfile = std::env::var("VERIF_C20_PROGRESS").ok().and_then(|p| std::fs::OpenOptions::new().create(true).append(true).open(p).ok()).map(Mutex::new);
    let _ = PROGRESS.set(pfile);
    let cs = cases(ctx.tier);
    if let Ok(only) = std::env::var("VERIF_C20_ONLY") {
        let i: usize = only.parse().unwrap_or(0);
        let mut acc = Acc::new();
        check(&cs[i], i as u64, &mut acc);
        std::process::exit(if acc.violations.is_empty() { 0 } else { 1 });
    }
    let acc = explore(&cs, check);
    finish(ctx, acc, evidence_meta(ctx, cs.len()))
}

