//! C13 The linear solver returns the true solution together with its derivatives.
use crate::common::*;
use ndarray::{Array1, Array2};
use rateslib::dual::linalg::{dsolve, fdsolve};
use rateslib::dual::{Dual, Dual2, Gradient1, Gradient2, Number};
use serde::{Deserialize, Serialize};
use serde_json::json;

#[derive(Clone, Debug, Serialize, Deserialize)]
pub enum Case {
    /// n x n matrix with the given zero/non-zero pattern (bit i*n+j), values from the generic table
    Pattern { n: usize, pattern: u32 },
    /// as Pattern, with the non-zero entry (i, j) scaled by 1e-11 (tiny but not zero)
    TinyEntry { n: usize, pattern: u32, i: usize, j: usize },
    /// diagonally dominant generic n x n matrix with rows permuted
    Permuted { n: usize, perm: Vec<usize> },
    /// tall m x n least-squares system
    Tall { m: usize, n: usize },
    /// graded n x n system: `d` on the diagonal, -1 everywhere below it, +1 in the last column (well conditioned,
    /// but elimination without row exchanges doubles the last column at every step and loses the small diagonal)
    Graded { n: usize, dexp: i32 },
}

const GEN: [f64; 24] = [
    2.5, -1.75, 0.6, 3.2, -0.9, 1.4, -2.2, 0.35, 4.1, -1.15, 0.8, 2.9, -3.3, 1.05, -0.45, 1.9, 0.7, -2.6, 1.3, 3.7, -0.55, 2.1, -1.45, 0.95,
];
const TOL: f64 = 1e-10;

// ---- dense reference arithmetic with a dynamic number of variables --------------------------------

use crate::dynref::DR;

fn dr_of_number(x: &Number, names: &[String]) -> DR {
    let nv = names.len();
    match x {
        Number::F64(f) => DR::leaf(nv, *f, None),
        Number::Dual(d) => {
            let g = d.gradient1(names.to_vec());
            DR { v: d.real(), g: g.to_vec(), h: vec![0.0; nv * nv] }
        }
        Number::Dual2(d) => {
            let g = d.gradient1(names.to_vec());
            let h = d.gradient2(names.to_vec());
            DR { v: d.real(), g: g.to_vec(), h: h.iter().cloned().collect() }
        }
    }
}

/// residual A x - b (or A^T A x - A^T b) must vanish in every component against its own scale
fn residual_ok(a: &[Vec<DR>], x: &[DR], b: &[DR], lsq: bool, second: bool) -> Result<(), String> {
    let nv = x[0].g.len();
    let (m, n) = (a.len(), a[0].len());
    let (mat, rhs): (Vec<Vec<DR>>, Vec<DR>) = if lsq {
        let mut mm = vec![vec![DR::zero(nv); n]; n];
        let mut cc = vec![DR::zero(nv); n];
        for i in 0..n {
            for j in 0..n {
                for k in 0..m {
                    mm[i][j] = mm[i][j].add(&a[k][i].mul(&a[k][j]), 1.0);
                }
            }
            for k in 0..m {
                cc[i] = cc[i].add(&a[k][i].mul(&b[k]), 1.0);
            }
        }
        (mm, cc)
    } else {
        (a.to_vec(), b.to_vec())
    };
    // rounding noise in a derivative component is proportional to the VALUE scale times the size of the
    // input derivatives, even where the true derivative (and hence its own scale) is exactly zero
    let gmax = a.iter().flatten().chain(b.iter()).flat_map(|d| d.g.iter()).fold(1.0_f64, |m, g| m.max(g.abs()));
    for i in 0..n {
        let mut r = DR::zero(nv);
        let mut s = DR::zero(nv);
        for j in 0..n {
            r = r.add(&mat[i][j].mul(&x[j]), 1.0);
            s = s.add(&mat[i][j].abs().mul(&x[j].abs()), 1.0);
        }
        r = r.add(&rhs[i], -1.0);
        s = s.add(&rhs[i].abs(), 1.0);
        // norm-wise floors: a derivative component that is truly zero still carries rounding noise
        // proportional to the size of the WHOLE derivative block of the solution (conditioning acts on
        // the block, not on the single component)
        // (per variable / pair of variables: row norm of A times the largest derivative of ANY solution component
        // with respect to that variable - the true value of a component can be zero by cancellation of terms
        // of that size)
        let rown: f64 = (0..n).map(|j| mat[i][j].v.abs()).sum();
        let sgc: Vec<f64> = (0..nv).map(|c| rown * x.iter().fold(0.0_f64, |m, xj| m.max(xj.g[c].abs()))).collect();
        // second order: besides |A| |x''|, the cross terms |A'_c| |x'_d| + |A'_d| |x'_c| (noise in a first derivative is
        // multiplied by the other first derivative)
        let gmaxc: Vec<f64> = (0..nv).map(|c| x.iter().fold(0.0_f64, |m, xj| m.max(xj.g[c].abs()))).collect();
        // (largest row sum over ALL rows: the noise reaches this row's unknowns through the other rows)
        let rowg: Vec<f64> = (0..nv).map(|c| (0..n).map(|ii| (0..n).map(|j| mat[ii][j].g[c].abs()).sum::<f64>()).fold(0.0_f64, f64::max)).collect();
        let shc: Vec<f64> = if second {
            (0..nv * nv).map(|c| rown * x.iter().fold(0.0_f64, |m, xj| m.max(xj.h[c].abs())) + rowg[c / nv] * gmaxc[c % nv] + rowg[c % nv] * gmaxc[c / nv]).collect()
        } else {
            vec![]
        };
        if !(r.v.abs() <= TOL * s.v) {
            return Err(format!("row {}: value residual {:e} (scale {:e})", i, r.v, s.v));
        }
        for c in 0..nv {
            if !(r.g[c].abs() <= TOL * s.g[c].max(s.v * gmax).max(sgc[c])) {
                return Err(format!("row {}: first-derivative residual {:e} w.r.t. variable #{} (scale {:e})", i, r.g[c], c, s.g[c]));
            }
        }
        if second {
            for c in 0..nv * nv {
                if !(r.h[c].abs() <= TOL * s.h[c].max(s.v * gmax * gmax).max(shc[c])) {
                    return Err(format!("row {}: second-derivative residual {:e} for pair ({}, {}) (scale {:e})", i, r.h[c], c / nv, c % nv, s.h[c]));
                }
            }
        }
    }
    Ok(())
}

// ---- reference conditioning and pivot statistics -----------------------------------------------------

fn inverse(a: &[Vec<f64>]) -> Option<Vec<Vec<f64>>> {
    let n = a.len();
    let mut m: Vec<Vec<f64>> = a.iter().enumerate().map(|(i, r)| { let mut v = r.clone(); v.extend((0..n).map(|j| if i == j { 1.0 } else { 0.0 })); v }).collect();
    for c in 0..n {
        let p = (c..n).max_by(|x, y| m[*x][c].abs().partial_cmp(&m[*y][c].abs()).unwrap())?;
        if m[p][c].abs() < 1e-12 {
            return None;
        }
        m.swap(c, p);
        let d = m[c][c];
        for j in 0..2 * n {
            m[c][j] /= d;
        }
        for r in 0..n {
            if r != c {
                let f = m[r][c];
                if f != 0.0 {
                    for j in 0..2 * n {
                        m[r][j] -= f * m[c][j];
                    }
                }
            }
        }
    }
    Some(m.into_iter().map(|r| r[n..].to_vec()).collect())
}
fn norm_inf(a: &[Vec<f64>]) -> f64 {
    a.iter().map(|r| r.iter().map(|x| x.abs()).sum::<f64>()).fold(0.0, f64::max)
}
fn cond(a: &[Vec<f64>]) -> Option<f64> {
    inverse(a).map(|inv| norm_inf(a) * norm_inf(&inv))
}
/// columns at which reference partial pivoting swaps rows
fn swap_columns(a: &[Vec<f64>]) -> Vec<usize> {
    let n = a.len();
    let mut m = a.to_vec();
    let mut out = vec![];
    for c in 0..n {
        let mut p = c;
        for r in c..n {
            if m[r][c].abs() > m[p][c].abs() {
                p = r;
            }
        }
        if p != c {
            out.push(c);
            m.swap(c, p);
        }
        for r in c + 1..n {
            let f = m[r][c] / m[c][c];
            for j in c..n {
                m[r][j] -= f * m[c][j];
            }
        }
    }
    out
}

// ---- building systems in the real types --------------------------------------------------------------

/// tagging: 0 every entry own variable, 1 one shared variable, 2 entries of a row share, 3 no variables on A
fn tagging(mode: u8, m: usize, n: usize) -> (Vec<String>, Box<dyn Fn(usize, usize) -> Option<usize>>, Box<dyn Fn(usize) -> usize>) {
    match mode {
        0 => {
            let mut names: Vec<String> = vec![];
            for i in 0..m {
                for j in 0..n {
                    names.push(format!("a{}_{}", i, j));
                }
            }
            for i in 0..m {
                names.push(format!("b{}", i));
            }
            (names, Box::new(move |i, j| Some(i * n + j)), Box::new(move |i| m * n + i))
        }
        1 => {
            let mut names = vec!["s".to_string()];
            for i in 0..m {
                names.push(format!("b{}", i));
            }
            (names, Box::new(|_, _| Some(0)), Box::new(|i| 1 + i))
        }
        2 => {
            let mut names: Vec<String> = (0..m).map(|i| format!("r{}", i)).collect();
            for i in 0..m {
                names.push(format!("b{}", i));
            }
            (names, Box::new(|i, _| Some(i)), Box::new(move |i| m + i))
        }
        _ => {
            let names: Vec<String> = (0..m).map(|i| format!("b{}", i)).collect();
            (names, Box::new(|_, _| None), Box::new(|i| i))
        }
    }
}

fn gcoef(i: usize, j: usize) -> f64 {
    GEN[(i * 5 + j * 3 + 7) % 24] * 0.5
}

struct Sys {
    a: Vec<Vec<f64>>,
    b: Vec<f64>,
}

/// run every number type / tagging on one system; `lsq` for tall systems
fn run_system(sys: &Sys, lsq: bool, heavy: bool, case: &Case, keyp: &str, idx: u64, acc: &mut Acc) -> Option<Vec<f64>> {
    let (m, n) = (sys.a.len(), sys.a[0].len());
    let cj = || serde_json::to_value(case).unwrap();
    let mut x_f64: Option<Vec<f64>> = None;
    // ---- plain floats
    {
        acc.eval();
        let a = Array2::from_shape_fn((m, n), |(i, j)| sys.a[i][j]);
        let b = Array1::from_vec(sys.b.clone());
        match guarded(|| (dsolve(&a.view(), &b.view(), lsq), fdsolve(&a.view(), &b.view(), lsq))) {
            Err(msg) => {
                acc.violate(&format!("{}/f64/panic", keyp), idx, cj(), json!("a solution"), json!(msg));
                return None;
            }
            Ok((x1, x2)) => {
                let ar: Vec<Vec<DR>> = sys.a.iter().map(|r| r.iter().map(|v| DR::leaf(0, *v, None)).collect()).collect();
                let br: Vec<DR> = sys.b.iter().map(|v| DR::leaf(0, *v, None)).collect();
                for (nm, x) in [("dsolve", &x1), ("fdsolve", &x2)] {
                    let xr: Vec<DR> = x.iter().map(|v| DR::leaf(0, *v, None)).collect();
                    if let Err(e) = residual_ok(&ar, &xr, &br, lsq, false) {
                        acc.violate(&format!("{}/f64/{}", keyp, nm), idx, cj(), json!("A x = b"), json!(e));
                    }
                }
                acc.outcome(&hash_f64s(&x1.to_vec()));
                // the same system handed over in column-major memory order (a transposed view of the transposed
                // array, and an array allocated in Fortran order) must give the same answer
                let at = Array2::from_shape_fn((n, m), |(j, i)| sys.a[i][j]);
                let af = {
                    use ndarray::ShapeBuilder;
                    let mut z = Array2::<f64>::zeros((m, n).f());
                    for i in 0..m {
                        for j in 0..n {
                            z[[i, j]] = sys.a[i][j];
                        }
                    }
                    z
                };
                for (nm, view) in [("transposed-view", at.t()), ("fortran-order", af.view())] {
                    acc.eval();
                    match guarded(|| (dsolve(&view, &b.view(), lsq), fdsolve(&view, &b.view(), lsq))) {
                        Err(msg) => acc.violate(&format!("{}/f64/{}/panic", keyp, nm), idx, cj(), json!("a solution"), json!(msg)),
                        Ok((y1, y2)) => {
                            for (f, y) in [("dsolve", &y1), ("fdsolve", &y2)] {
                                let yr: Vec<DR> = y.iter().map(|v| DR::leaf(0, *v, None)).collect();
                                if let Err(e) = residual_ok(&ar, &yr, &br, lsq, false) {
                                    acc.violate(&format!("{}/f64/{}/{}", keyp, f, nm), idx, cj(), json!("A x = b whatever the memory layout of A"), json!(e));
                                }
                            }
                        }
                    }
                }
                x_f64 = Some(x1.to_vec());
            }
        }
    }
    // ---- dual types
    let modes: &[u8] = if heavy { &[0, 1, 2, 3] } else { &[2, 3] };
    for &mode in modes {
        let (names, avar, bvar) = tagging(mode, m, n);
        let nv = names.len();
        let a_ref: Vec<Vec<DR>> = (0..m).map(|i| (0..n).map(|j| DR::leaf(nv, sys.a[i][j], avar(i, j).map(|k| (k, gcoef(i, j))))).collect()).collect();
        let b_ref: Vec<DR> = (0..m).map(|i| DR::leaf(nv, sys.b[i], Some((bvar(i), 1.0)))).collect();
        // first order
        {
            acc.eval();
            let a = Array2::from_shape_fn((m, n), |(i, j)| match avar(i, j) {
                Some(k) => Dual::try_new(sys.a[i][j], vec![names[k].clone()], vec![gcoef(i, j)]).unwrap(),
                None => Dual::new(sys.a[i][j], vec![]),
            });
            let b = Array1::from_shape_fn(m, |i| Dual::new(sys.b[i], vec![names[bvar(i)].clone()]));
            match guarded(|| dsolve(&a.view(), &b.view(), lsq)) {
                Err(msg) => acc.violate(&format!("{}/Dual/tag{}/panic", keyp, mode), idx, cj(), json!("a solution"), json!(msg)),
                Ok(x) => {
                    let xr: Vec<DR> = x.iter().map(|d| dr_of_number(&Number::Dual(d.clone()), &names)).collect();
                    if let Err(e) = residual_ok(&a_ref, &xr, &b_ref, lsq, false) {
                        acc.violate(&format!("{}/Dual/tag{}", keyp, mode), idx, cj(), json!("A x = b in value and every first derivative"), json!(e));
                    }
                }
            }
            if mode == 2 {
                acc.eval();
                let at = a.t().to_owned(); // row-major storage of A^T ; at.t() is A in column-major order
                match guarded(|| dsolve(&at.t(), &b.view(), lsq)) {
                    Err(msg) => acc.violate(&format!("{}/Dual/transposed-view/panic", keyp), idx, cj(), json!("a solution"), json!(msg)),
                    Ok(x) => {
                        let xr: Vec<DR> = x.iter().map(|d| dr_of_number(&Number::Dual(d.clone()), &names)).collect();
                        if let Err(e) = residual_ok(&a_ref, &xr, &b_ref, lsq, false) {
                            acc.violate(&format!("{}/Dual/transposed-view", keyp), idx, cj(), json!("A x = b whatever the memory layout of A"), json!(e));
                        }
                    }
                }
            }
            // float matrix, dual right-hand side
            acc.eval();
            let af = Array2::from_shape_fn((m, n), |(i, j)| sys.a[i][j]);
            match guarded(|| fdsolve(&af.view(), &b.view(), lsq)) {
                Err(msg) => acc.violate(&format!("{}/fdsolve-Dual/panic", keyp), idx, cj(), json!("a solution"), json!(msg)),
                Ok(x) => {
                    let xr: Vec<DR> = x.iter().map(|d| dr_of_number(&Number::Dual(d.clone()), &names)).collect();
                    let a_const: Vec<Vec<DR>> = sys.a.iter().map(|r| r.iter().map(|v| DR::leaf(nv, *v, None)).collect()).collect();
                    if let Err(e) = residual_ok(&a_const, &xr, &b_ref, lsq, false) {
                        acc.violate(&format!("{}/fdsolve-Dual", keyp), idx, cj(), json!("A x = b in value and every first derivative"), json!(e));
                    }
                }
            }
        }
        // second order (own-variable tagging is the expensive one: only when `heavy`)
        if heavy || mode == 2 {
            acc.eval();
            let a = Array2::from_shape_fn((m, n), |(i, j)| match avar(i, j) {
                Some(k) => Dual2::try_new(sys.a[i][j], vec![names[k].clone()], vec![gcoef(i, j)], vec![]).unwrap(),
                None => Dual2::new(sys.a[i][j], vec![]),
            });
            let b = Array1::from_shape_fn(m, |i| Dual2::new(sys.b[i], vec![names[bvar(i)].clone()]));
            match guarded(|| dsolve(&a.view(), &b.view(), lsq)) {
                Err(msg) => acc.violate(&format!("{}/Dual2/tag{}/panic", keyp, mode), idx, cj(), json!("a solution"), json!(msg)),
                Ok(x) => {
                    let xr: Vec<DR> = x.iter().map(|d| dr_of_number(&Number::Dual2(d.clone()), &names)).collect();
                    if let Err(e) = residual_ok(&a_ref, &xr, &b_ref, lsq, true) {
                        acc.violate(&format!("{}/Dual2/tag{}", keyp, mode), idx, cj(), json!("A x = b in value, every first and every second derivative"), json!(e));
                    }
                }
            }
            // entries with CURVATURE: every entry also carries a second-order part with respect to its variable, and a
            // structurally zero entry is a stationary zero (value 0, gradient 0, second-order part non-zero, as
            // (t - t0)^2 is at t0) - it still moves the second derivatives of the solution
            if mode == 0 && !lsq {
                acc.eval();
                let curv = |i: usize, j: usize| 0.375 + 0.125 * ((i + 2 * j) % 3) as f64;
                let a2 = Array2::from_shape_fn((m, n), |(i, j)| {
                    let k = avar(i, j).unwrap();
                    if sys.a[i][j] == 0.0 {
                        Dual2::try_new(0.0, vec![names[k].clone()], vec![0.0], vec![0.5 * curv(i, j)]).unwrap()
                    } else {
                        Dual2::try_new(sys.a[i][j], vec![names[k].clone()], vec![gcoef(i, j)], vec![0.5 * curv(i, j)]).unwrap()
                    }
                });
                let a2_ref: Vec<Vec<DR>> = (0..m)
                    .map(|i| {
                        (0..n)
                            .map(|j| {
                                let k = avar(i, j).unwrap();
                                let mut d = if sys.a[i][j] == 0.0 { DR::leaf(nv, 0.0, None) } else { DR::leaf(nv, sys.a[i][j], Some((k, gcoef(i, j)))) };
                                d.h[k * nv + k] = curv(i, j);
                                d
                            })
                            .collect()
                    })
                    .collect();
                match guarded(|| dsolve(&a2.view(), &b.view(), lsq)) {
                    Err(msg) => acc.violate(&format!("{}/Dual2/curved-entries/panic", keyp), idx, cj(), json!("a solution"), json!(msg)),
                    Ok(x) => {
                        let xr: Vec<DR> = x.iter().map(|d| dr_of_number(&Number::Dual2(d.clone()), &names)).collect();
                        if let Err(e) = residual_ok(&a2_ref, &xr, &b_ref, lsq, true) {
                            acc.violate(&format!("{}/Dual2/curved-entries", keyp), idx, cj(), json!("A x = b in value, every first and every second derivative, with curvature on the entries of A"), json!(e));
                        }
                    }
                }
            }
            if mode == 2 {
                acc.eval();
                let af = Array2::from_shape_fn((m, n), |(i, j)| sys.a[i][j]);
                match guarded(|| fdsolve(&af.view(), &b.view(), lsq)) {
                    Err(msg) => acc.violate(&format!("{}/fdsolve-Dual2/panic", keyp), idx, cj(), json!("a solution"), json!(msg)),
                    Ok(x) => {
                        let xr: Vec<DR> = x.iter().map(|d| dr_of_number(&Number::Dual2(d.clone()), &names)).collect();
                        let a_const: Vec<Vec<DR>> = sys.a.iter().map(|r| r.iter().map(|v| DR::leaf(nv, *v, None)).collect()).collect();
                        if let Err(e) = residual_ok(&a_const, &xr, &b_ref, lsq, true) {
                            acc.violate(&format!("{}/fdsolve-Dual2", keyp), idx, cj(), json!("A x = b incl. second derivatives"), json!(e));
                        }
                    }
                }
            }
        }
        // generic container: floats and duals mixed entry by entry (one order at a time)
        if mode == 0 || mode == 2 {
            for order in [1u8, 2u8] {
                acc.eval();
                let mk = |v: f64, var: Option<(usize, f64)>, pos: usize| -> (Number, DR) {
                    match var {
                        Some((k, g)) if pos % 2 == 0 => {
                            let num = if order == 1 {
                                Number::Dual(Dual::try_new(v, vec![names[k].clone()], vec![g]).unwrap())
                            } else {
                                Number::Dual2(Dual2::try_new(v, vec![names[k].clone()], vec![g], vec![]).unwrap())
                            };
                            (num, DR::leaf(nv, v, Some((k, g))))
                        }
                        _ => (Number::F64(v), DR::leaf(nv, v, None)),
                    }
                };
                let mut aref = vec![vec![DR::zero(nv); n]; m];
                let a = Array2::from_shape_fn((m, n), |(i, j)| {
                    let (num, r) = mk(sys.a[i][j], avar(i, j).map(|k| (k, gcoef(i, j))), i + j);
                    aref[i][j] = r;
                    num
                });
                let mut bref = vec![DR::zero(nv); m];
                let b = Array1::from_shape_fn(m, |i| {
                    let (num, r) = mk(sys.b[i], Some((bvar(i), 1.0)), i + 1);
                    bref[i] = r;
                    num
                });
                match guarded(|| (dsolve(&a.view(), &b.view(), lsq), fdsolve(&Array2::from_shape_fn((m, n), |(i, j)| sys.a[i][j]).view(), &b.view(), lsq))) {
                    Err(msg) => acc.violate(&format!("{}/Number{}/tag{}/panic", keyp, order, mode), idx, cj(), json!("a solution"), json!(msg)),
                    Ok((x, xf)) => {
                        let xr: Vec<DR> = x.iter().map(|d| dr_of_number(d, &names)).collect();
                        if let Err(e) = residual_ok(&aref, &xr, &bref, lsq, order == 2) {
                            acc.violate(&format!("{}/Number{}/tag{}", keyp, order, mode), idx, cj(), json!("A x = b for mixed float/dual entries"), json!(e));
                        }
                        let xfr: Vec<DR> = xf.iter().map(|d| dr_of_number(d, &names)).collect();
                        let a_const: Vec<Vec<DR>> = sys.a.iter().map(|r| r.iter().map(|v| DR::leaf(nv, *v, None)).collect()).collect();
                        if let Err(e) = residual_ok(&a_const, &xfr, &bref, lsq, order == 2) {
                            acc.violate(&format!("{}/fdsolve-Number{}", keyp, order), idx, cj(), json!("A x = b, float matrix and Number right-hand side"), json!(e));
                        }
                    }
                }
            }
        }
    }
    x_f64
}

fn pattern_system(n: usize, pattern: u32) -> Sys {
    let a: Vec<Vec<f64>> = (0..n).map(|i| (0..n).map(|j| if pattern & (1 << (i * n + j)) != 0 { GEN[(i * n + j * 7 + i * j) % 24] } else { 0.0 }).collect()).collect();
    let b: Vec<f64> = (0..n).map(|i| GEN[(i * 3 + 11) % 24]).collect();
    Sys { a, b }
}

fn dominant_system(n: usize) -> Sys {
    let a: Vec<Vec<f64>> = (0..n).map(|i| (0..n).map(|j| if i == j { 6.0 + i as f64 + if n > 8 { n as f64 } else { 0.0 } } else { GEN[(i * 7 + j * 5 + 3) % 24] * 0.45 }).collect()).collect();
    let b: Vec<f64> = (0..n).map(|i| GEN[(i * 5 + 2) % 24]).collect();
    Sys { a, b }
}

pub fn check(case: &Case, idx: u64, acc: &mut Acc) {
    match case {
        Case::Pattern { n, pattern } => {
            let sys = pattern_system(*n, *pattern);
            match cond(&sys.a) {
                Some(c) if c < 1e4 => {}
                _ => {
                    acc.skip();
                    return;
                }
            }
            let sw = swap_columns(&sys.a);
            if !sw.is_empty() {
                acc.nontrivial();
            }
            for c in sw.iter() {
                acc.bump(&format!("row swap at column {}", c));
            }
            run_system(&sys, false, true, case, &format!("pattern{}", n), idx, acc);
            if idx % 1511 == 0 {
                acc.sample(|| json!({"Pattern": {"n": n, "pattern": pattern, "matrix": sys.a}}));
            }
        }
        Case::TinyEntry { n, pattern, i, j } => {
            let mut sys = pattern_system(*n, *pattern);
            if sys.a[*i][*j] == 0.0 {
                acc.skip();
                return;
            }
            sys.a[*i][*j] *= 1e-11;
            match cond(&sys.a) {
                Some(c) if c < 1e4 => {}
                _ => {
                    acc.skip();
                    return;
                }
            }
            acc.nontrivial();
            acc.bump("systems with a tiny non-zero entry");
            run_system(&sys, false, false, case, &format!("tiny{}", n), idx, acc);
            // the same SQUARE system with least squares allowed: the answer still solves it
            {
                acc.eval();
                let (m_, n_) = (sys.a.len(), sys.a[0].len());
                let af = Array2::from_shape_fn((m_, n_), |(i, j)| sys.a[i][j]);
                let bf = Array1::from_vec(sys.b.clone());
                let ad = Array2::from_shape_fn((m_, n_), |(i, j)| Dual::try_new(sys.a[i][j], vec![format!("r{}", i)], vec![gcoef(i, j)]).unwrap());
                let bd = Array1::from_shape_fn(m_, |i| Dual::new(sys.b[i], vec![format!("b{}", i)]));
                match guarded(|| (dsolve(&af.view(), &bf.view(), true), dsolve(&ad.view(), &bd.view(), true))) {
                    Err(msg) => acc.violate(&format!("tiny{}/square-with-lsq/panic", n), idx, serde_json::to_value(case).unwrap(), json!("a solution"), json!(msg)),
                    Ok((xf, xd)) => {
                        if let Some(inv) = inverse(&sys.a) {
                            let x0: Vec<f64> = (0..n_).map(|i| (0..n_).map(|j| inv[i][j] * sys.b[j]).sum()).collect();
                            let mx = x0.iter().fold(0.0_f64, |m, v| m.max(v.abs()));
                            if (0..n_).any(|i| !close_scaled(xf[i], x0[i], 1e-6, mx) || !close_scaled(xd[i].real(), x0[i], 1e-6, mx)) {
                                acc.violate(&format!("tiny{}/square-with-lsq", n), idx, serde_json::to_value(case).unwrap(), json!(x0), json!({"f64": xf.to_vec(), "Dual": xd.iter().map(|d| d.real()).collect::<Vec<_>>()}));
                            }
                        }
                    }
                }
            }
            // other magnitudes: (factor on the one entry, factor on the whole system incl. right-hand side).
            // The whole-system factor does not change the solution or the conditioning, only the absolute size
            // of every number met during elimination.
            for (vk, (tiny, scale)) in [(1e-7, 1.0), (1e-15, 1e9), (1e-4, 1e-9), (1.0, 1e-9), (1.0, 1e9)].iter().enumerate() {
                let mut s2 = pattern_system(*n, *pattern);
                s2.a[*i][*j] *= tiny;
                match cond(&s2.a) {
                    Some(c) if c < 1e4 => {}
                    _ => continue,
                }
                for r in s2.a.iter_mut() {
                    for v in r.iter_mut() {
                        *v *= scale;
                    }
                }
                for v in s2.b.iter_mut() {
                    *v *= scale;
                }
                run_system(&s2, false, false, case, &format!("tiny{}/magnitude{}", n, vk), idx, acc);
            }
            // float systems at the ends of the double range (whole system scaled: the solution is unchanged; an
            // intermediate square or product that leaves the range would show). Plain floats only: with unit
            // gradients on b the derivatives themselves would legitimately leave the range.
            for (vk, scale) in [1e-300_f64, 1e-200, 1e150, 1e300].iter().enumerate() {
                let mut s2 = pattern_system(*n, *pattern);
                s2.a[*i][*j] *= 1e-3;
                let x0 = match (cond(&s2.a), inverse(&s2.a)) {
                    (Some(c), Some(inv)) if c < 1e4 => (0..*n).map(|r| (0..*n).map(|q| inv[r][q] * s2.b[q]).sum::<f64>()).collect::<Vec<f64>>(),
                    _ => continue,
                };
                let a = Array2::from_shape_fn((*n, *n), |(r, q)| s2.a[r][q] * scale);
                let b = Array1::from_shape_fn(*n, |r| s2.b[r] * scale);
                acc.eval();
                match guarded(|| (dsolve(&a.view(), &b.view(), false), fdsolve(&a.view(), &b.view(), false))) {
                    Err(msg) => acc.violate(&format!("tiny{}/extreme-scale{}/panic", n, vk), idx, serde_json::to_value(case).unwrap(), json!("a solution"), json!(msg)),
                    Ok((x1, x2)) => {
                        let m = x0.iter().fold(0.0_f64, |m, v| m.max(v.abs()));
                        for (nm, x) in [("dsolve", &x1), ("fdsolve", &x2)] {
                            if (0..*n).any(|r| !close_scaled(x[r], x0[r], 1e-9, m)) {
                                acc.violate(&format!("tiny{}/extreme-scale{}/{}", n, vk, nm), idx, serde_json::to_value(case).unwrap(), json!({"scale": scale, "want": x0}), json!(x.to_vec()));
                            }
                        }
                    }
                }
            }
            if idx % 211 == 0 {
                acc.sample(|| serde_json::to_value(case).unwrap());
            }
        }
        Case::Permuted { n, perm } => {
            let base = dominant_system(*n);
            let sys = Sys { a: perm.iter().map(|p| base.a[*p].clone()).collect(), b: perm.iter().map(|p| base.b[*p]).collect() };
            let sw = swap_columns(&sys.a);
            if !sw.is_empty() {
                acc.nontrivial();
            }
            for c in sw.iter() {
                acc.bump(&format!("row swap at column {}", c));
            }
            let x = run_system(&sys, false, false, case, &format!("permuted{}", n), idx, acc);
            // the same system with rows scaled by widely different factors (changes every pivot decision and
            // the magnitudes met during elimination, not the solution)
            for (sk, scl) in [[1e6, 1.0, 1e-6, 3e3, 1e-3, 7e7, 2e-8, 1.0], [3e-8, 5e7, 1e7, 2e-7, 9e6, 1.0, 4e-8, 6e7]].iter().enumerate() {
                let scaled = Sys { a: sys.a.iter().enumerate().map(|(i, r)| r.iter().map(|v| v * scl[i % 8]).collect()).collect(), b: sys.b.iter().enumerate().map(|(i, v)| v * scl[i % 8]).collect() };
                let xs = run_system(&scaled, false, false, case, &format!("row-scaled{}{}", if sk == 0 { "" } else { "b/" }, n), idx, acc);
                if let (Some(x), Some(xs)) = (&x, &xs) {
                    let m = x.iter().fold(0.0_f64, |m, v| m.max(v.abs()));
                    if x.iter().zip(xs.iter()).any(|(p, q)| !close_scaled(*p, *q, 1e-8, m)) {
                        acc.violate(&format!("row-scaled{}/row-scaling-changes-answer", n), idx, serde_json::to_value(case).unwrap(), json!(x), json!(xs));
                    }
                }
            }
            // row order does not change the answer
            if let (Some(x), Some(inv)) = (x, inverse(&base.a)) {
                let x0: Vec<f64> = (0..*n).map(|i| (0..*n).map(|j| inv[i][j] * base.b[j]).sum()).collect();
                for i in 0..*n {
                    if !close_scaled(x[i], x0[i], 1e-9, x0.iter().fold(0.0_f64, |m, v| m.max(v.abs()))) {
                        acc.violate(&format!("permuted{}/row-order-changes-answer", n), idx, serde_json::to_value(case).unwrap(), json!(x0), json!(x));
                        break;
                    }
                }
            }
            if idx % 401 == 0 {
                acc.sample(|| serde_json::to_value(case).unwrap());
            }
        }
        Case::Graded { n, dexp } => {
            let n = *n;
            let d = 2.0_f64.powi(*dexp);
            let a: Vec<Vec<f64>> = (0..n).map(|i| (0..n).map(|j| if j == n - 1 { 1.0 } else if i == j { d } else if i > j { -1.0 } else { 0.0 }).collect()).collect();
            let b: Vec<f64> = (0..n).map(|i| GEN[(i * 5 + 2) % 24]).collect();
            match cond(&a) {
                Some(c) if c < 1e4 => {}
                _ => {
                    acc.skip();
                    return;
                }
            }
            acc.nontrivial();
            let sys = Sys { a: a.clone(), b: b.clone() };
            let x = run_system(&sys, false, false, case, &format!("graded{}", n), idx, acc);
            // against the reference solution, and with the equations listed in reverse order
            if let (Some(x), Some(inv)) = (x, inverse(&a)) {
                let x0: Vec<f64> = (0..n).map(|i| (0..n).map(|j| inv[i][j] * b[j]).sum()).collect();
                let m = x0.iter().fold(0.0_f64, |m, v| m.max(v.abs()));
                if (0..n).any(|i| !close_scaled(x[i], x0[i], 1e-9, m)) {
                    acc.violate(&format!("graded{}/differs-from-reference", n), idx, serde_json::to_value(case).unwrap(), json!(x0), json!(x));
                }
                let rev = Sys { a: a.iter().rev().cloned().collect(), b: b.iter().rev().cloned().collect() };
                if let Some(xr) = run_system(&rev, false, false, case, &format!("graded{}/reversed", n), idx, acc) {
                    if (0..n).any(|i| !close_scaled(xr[i], x0[i], 1e-9, m)) {
                        acc.violate(&format!("graded{}/row-order-changes-answer", n), idx, serde_json::to_value(case).unwrap(), json!(x0), json!(xr));
                    }
                }
            }
            acc.sample(|| serde_json::to_value(case).unwrap());
        }
        Case::Tall { m, n } => {
            let a: Vec<Vec<f64>> = (0..*m).map(|i| (0..*n).map(|j| GEN[(i * 5 + j * 11 + 1) % 24] * 0.4 + if i % n == j { 3.0 } else { 0.0 }).collect()).collect();
            let b: Vec<f64> = (0..*m).map(|i| GEN[(i * 7 + 4) % 24]).collect();
            // condition of the normal matrix
            let ata: Vec<Vec<f64>> = (0..*n).map(|i| (0..*n).map(|j| (0..*m).map(|k| a[k][i] * a[k][j]).sum()).collect()).collect();
            match cond(&ata) {
                Some(c) if c < 1e5 => {}
                _ => {
                    acc.skip();
                    return;
                }
            }
            acc.nontrivial();
            run_system(&Sys { a, b }, true, *m * *n <= 12, case, "tall", idx, acc);
            acc.sample(|| serde_json::to_value(case).unwrap());
        }
    }
}

pub fn cases(tier: Tier) -> Vec<Case> {
    let mut out = vec![];
    for n in 1..=3usize {
        for p in 0..(1u32 << (n * n)) {
            out.push(Case::Pattern { n, pattern: p });
        }
    }
    for n in 2..=3usize {
        for p in 0..(1u32 << (n * n)) {
            for i in 0..n {
                for j in 0..n {
                    if p & (1 << (i * n + j)) != 0 && (n == 2 || i == j || (i + j) % 2 == 1) {
                        out.push(Case::TinyEntry { n, pattern: p, i, j });
                    }
                }
            }
        }
    }
    // 4 x 4: all 65 536 patterns (thorough); quick: the patterns with at most 10 non-zeros that are not block-trivial
    for p in 0..(1u32 << 16) {
        if tier == Tier::Thorough || p % 7 == 3 {
            out.push(Case::Pattern { n: 4, pattern: p });
        }
    }
    for n in 4..=tier.pick(5, 6) {
        for perm in permutations(n) {
            out.push(Case::Permuted { n, perm });
        }
    }
    for n in tier.pick(6, 7)..=8usize {
        // generator set: identity, adjacent swaps, rotations, reversal
        let id: Vec<usize> = (0..n).collect();
        let mut gens = vec![id.clone()];
        for i in 0..n - 1 {
            let mut p = id.clone();
            p.swap(i, i + 1);
            gens.push(p);
        }
        for r in 1..n {
            let mut p = id.clone();
            p.rotate_left(r);
            gens.push(p.clone());
            p.swap(0, n / 2);
            gens.push(p);
        }
        gens.push(id.iter().rev().cloned().collect());
        for g in gens {
            out.push(Case::Permuted { n, perm: g });
        }
    }
    // larger systems (beyond any small-size special handling): identity, reversal, a rotation, rotation + swap
    for n in [9usize, 10, 12, 16, 17, 24, 33] {
        let id: Vec<usize> = (0..n).collect();
        let mut r = id.clone();
        r.rotate_left(n / 3);
        let mut rs = r.clone();
        rs.swap(0, n / 2);
        for g in [id.clone(), id.iter().rev().cloned().collect(), r, rs] {
            out.push(Case::Permuted { n, perm: g });
        }
    }
    for n in 3..=12usize {
        for dexp in [-9i32, -5, -3, -1] {
            out.push(Case::Graded { n, dexp });
        }
    }
    for n in 1..=6usize {
        for m in (n + 1)..=12usize {
            out.push(Case::Tall { m, n });
        }
    }
    out
}

pub fn run(ctx: &Ctx, replay_file: Option<String>) -> ! {
    if let Some(f) = replay_file {
        replay::<Case, _>(ctx, &f, check);
    }
    let cs = cases(ctx.tier);
    let acc = explore(&cs, check);
    for c in 0..3 {
        if acc.breakdown.get(&format!("row swap at column {}", c)).copied().unwrap_or(0) == 0 {
            machinery_fail(&format!("vacuous: no system needed a row swap at column {}", c));
        }
    }
    let meta = Meta::exploration(
        "square systems: EVERY zero/non-zero pattern of 1x1, 2x2, 3x3 matrices (and of 4x4: all 65 536 in the thorough \
         tier, every 7th in quick) filled from a fixed generic value table, kept when the reference condition number is \
         < 1e4; diagonally dominant generic matrices of size 4..5 (6) under EVERY row permutation and of size 6/7..8 \
         under a generator set of permutations, and of size 9, 10, 12, 16, 17, 24, 33 under four permutations; tall m x n systems for all n <= 6 < m <= 12 with least squares; graded systems (small diagonal, -1 below, +1 in the last column) of size 3..12, also with the equations reversed; the tiny-entry square systems again with least squares allowed. Each \
         system is solved with dsolve on f64, Dual, Dual2 and Number (float and dual entries mixed) and with fdsolve \
         (float matrix) for right-hand sides of each type, under four taggings (every entry its own variable incl. \
         structurally zero entries, one shared variable, one variable per row, no variables on A; under the first also with a second-order part on every entry and structurally zero entries turned into stationary zeros); the float and \
         row-tagged Dual systems are also handed over in column-major memory order (transposed view, Fortran-order \
         array); 2x2 / 3x3 patterns are repeated with one non-zero entry scaled to 1e-11 (tiny pivots), and again with that entry scaled by 1e-7 / 1e-15 / 1e-4 / 1 and the whole system (right-hand side included) by 1 / 1e9 / 1e-9 / 1e-9 / 1e9. The same float systems scaled as a whole by 1e-300, 1e-200, 1e150, 1e300 must give the unscaled solution. Oracle: the residual \
         A x - b (A^T A x - A^T b for least squares) recomputed in a dense reference arithmetic vanishes in value, every \
         first and every second derivative component, each against its own scale sum |A||x| + |b|; the solution of a \
         row-permuted system equals that of the unpermuted one, also when its rows are scaled by factors from 2e-8 to 7e7 (two scale vectors, one with the small rows first). Non-trivial: systems in which reference partial \
         pivoting swaps rows (per-column counts reported; every column must be a swap site).",
        json!({"cases": cs.len()}),
    )
    .assume("well-conditioned systems only (singular / ill-conditioned patterns skipped and counted)")
    .assume("dense reference dual arithmetic in harness/src/props/c13.rs");
    finish(ctx, acc, meta)
}
