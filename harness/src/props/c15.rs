//! C15 A solved spline reproduces data, end conditions and polynomials, with exact AD.
use crate::bspline::*;
use crate::common::*;
use rateslib::dual::{Dual, Dual2, Gradient1, Gradient2, Number, NumberMapping};
use rateslib::splines::PPSpline;
use serde::{Deserialize, Serialize};
use serde_json::json;

#[derive(Clone, Debug, Serialize, Deserialize)]
pub enum Case {
    Solve {
        k: usize,
        interior: Vec<(usize, usize)>,
        /// data sites in eighths
        tau8: Vec<i128>,
        left_n: usize,
        right_n: usize,
    },
    /// type table of mapped_value and count errors
    Types { k: usize },
    /// history independence: ONE spline object solved several times in a row (same sites, different end
    /// conditions; then different sites) must each time equal a fresh object solved once
    Resolve { k: usize, interior: Vec<(usize, usize)> },
    /// long splines (many basis functions): integer knots 0..=m+1 with k-fold ends; order 2 interpolates at the
    /// knots, order 3 at the ends and span mid points, order 4 in the natural layout (repeated end sites,
    /// second-derivative conditions)
    Long { k: usize, m: usize },
    /// DIFFERENT spline objects solved one after the other on one thread with the same order, the same number of
    /// knots, the same sites and end conditions, but different interior knots: every ordered pair; each must
    /// reproduce the polynomial its data come from
    TwoSplines { k: usize, natural: bool },
}

fn inverse_exact(b: &[Vec<Rat>]) -> Option<Vec<Vec<Rat>>> {
    let n = b.len();
    let mut m: Vec<Vec<Rat>> = b.iter().enumerate().map(|(i, r)| { let mut v = r.clone(); v.extend((0..n).map(|j| if i == j { Rat::int(1) } else { Rat::zero() })); v }).collect();
    for c in 0..n {
        let p = (c..n).find(|r| !m[*r][c].is_zero())?;
        m.swap(c, p);
        let d = m[c][c];
        for j in 0..2 * n {
            m[c][j] = m[c][j].div(d);
        }
        for r in 0..n {
            if r != c && !m[r][c].is_zero() {
                let f = m[r][c];
                for j in 0..2 * n {
                    let t = f.mul(m[c][j]);
                    m[r][j] = m[r][j].sub(t);
                }
            }
        }
    }
    Some(m.into_iter().map(|r| r[n..].to_vec()).collect())
}

fn fnorm(a: &[Vec<Rat>]) -> f64 {
    a.iter().map(|r| r.iter().map(|x| x.f().abs()).sum::<f64>()).fold(0.0, f64::max)
}

fn gen_rat(j: usize) -> Rat {
    const T: [i128; 10] = [5, -7, 3, 13, -9, 6, -11, 2, 17, -4];
    Rat::new(T[j % 10], 4)
}

fn monomial_deriv(d: usize, m: usize, x: Rat) -> Rat {
    // d/dx^m of x^d
    if m > d {
        return Rat::zero();
    }
    let mut c = Rat::int(1);
    for q in 0..m {
        c = c.mul(Rat::int((d - q) as i128));
    }
    let mut p = Rat::int(1);
    for _ in 0..(d - m) {
        p = p.mul(x);
    }
    c.mul(p)
}

pub fn check(case: &Case, idx: u64, acc: &mut Acc) {
    let cj = || serde_json::to_value(case).unwrap();
    match case {
        Case::Solve { k, interior, tau8, left_n, right_n } => {
            let (k, left_n, right_n) = (*k, *left_n, *right_n);
            rat_reset();
            let tr = knots(k, interior);
            let t: Vec<f64> = tr.iter().map(|r| r.f()).collect();
            let basis = Basis::new(k, &tr);
            let n = basis.n();
            let tau: Vec<Rat> = tau8.iter().map(|x| Rat::new(*x, 8)).collect();
            let tau_f: Vec<f64> = tau.iter().map(|r| r.f()).collect();
            // exact collocation matrix with derivative rows at the two ends
            let bm: Vec<Vec<Rat>> = (0..n)
                .map(|j| (0..n).map(|i| basis.eval(i, if j == 0 { left_n } else if j == n - 1 { right_n } else { 0 }, tau[j])).collect())
                .collect();
            let inv = match inverse_exact(&bm) {
                Some(i) => i,
                None => {
                    acc.skip();
                    return;
                }
            };
            // the exact model needs every unit solution: compute them all now and discard the case if any
            // exact computation left the i128 range (a limit of the machinery, counted as skipped)
            for x in eval_points(&basis.u).iter() {
                for m in 0..k {
                    for i in 0..n {
                        let _ = basis.eval(i, m, *x);
                    }
                }
            }
            if rat_overflowed() {
                acc.skip();
                acc.bump("skipped: exact arithmetic left the i128 range");
                return;
            }
            let cnd = fnorm(&bm) * fnorm(&inv);
            if cnd > 1e6 {
                acc.skip();
                return;
            }
            let pts = eval_points(&basis.u);
            let hmin = basis.u.windows(2).map(|w| w[1].sub(w[0]).f()).fold(f64::INFINITY, f64::min);
            let dscale = |m: usize| (2.0 * (k as f64 - 1.0).max(1.0) / hmin).powi(m as i32);
            let endkey = format!("ends{}{}", left_n, right_n);
            let natural = tau8.len() >= 2 && tau8[0] == tau8[1];
            if left_n != right_n || natural {
                acc.nontrivial();
            }
            // data vectors: unit vectors, one generic vector, monomials of degree < k
            let mut datas: Vec<(String, Vec<Rat>, Option<usize>)> = vec![];
            for j in 0..n {
                datas.push((format!("unit{}", j), (0..n).map(|i| if i == j { Rat::int(1) } else { Rat::zero() }).collect(), None));
            }
            datas.push(("generic".into(), (0..n).map(gen_rat).collect(), None));
            for d in 0..k {
                let y: Vec<Rat> = (0..n).map(|j| monomial_deriv(d, if j == 0 { left_n } else if j == n - 1 { right_n } else { 0 }, tau[j])).collect();
                datas.push((format!("x^{}", d), y, Some(d)));
            }
            let exact_c = |y: &[Rat]| -> Vec<Rat> { (0..n).map(|i| (0..n).fold(Rat::zero(), |a, j| a.add(inv[i][j].mul(y[j])))).collect() };
            let exact_eval = |c: &[Rat], m: usize, x: Rat| -> Rat { (0..n).fold(Rat::zero(), |a, i| a.add(c[i].mul(basis.eval(i, m, x)))) };
            for (dname, y, mono) in datas.iter() {
                let c = exact_c(y);
                let cmax = c.iter().map(|r| r.f().abs()).fold(1.0, f64::max);
                let y_f: Vec<f64> = y.iter().map(|r| r.f()).collect();
                let mut sp = PPSpline::<f64>::new(k, t.clone(), None);
                acc.eval();
                if sp.csolve(&tau_f, &y_f, left_n, right_n, false).is_err() {
                    acc.violate(&format!("csolve/{}/unexpected-error", endkey), idx, cj(), json!({"data": dname}), json!("Err"));
                    continue;
                }
                let tolc = 1e-12 * cnd * cmax;
                for x in pts.iter() {
                    for m in 0..k {
                        acc.eval();
                        let want = exact_eval(&c, m, *x);
                        if let Some(d) = mono {
                            // model sanity: the exact spline IS the polynomial
                            if want != monomial_deriv(*d, m, *x) {
                                machinery_fail(&format!("exact spline does not reproduce x^{} (m={}) at {:?} for {:?}", d, m, x, case));
                            }
                        }
                        let got = match sp.ppdnev_single(&x.f(), m) {
                            Ok(v) => v,
                            Err(_) => {
                                acc.violate("evaluate/error", idx, cj(), json!({"x": x.f(), "m": m}), json!("Err"));
                                continue;
                            }
                        };
                        if !close_scaled(got, want.f(), 1.0, tolc * dscale(m)) {
                            let is_site = tau.contains(x);
                            let key = if mono.is_some() {
                                format!("polynomial-reproduction/{}/m{}", endkey, m.min(3))
                            } else if is_site && m == 0 {
                                format!("interpolation/{}", endkey)
                            } else if (*x == tau[0] && m == left_n) || (*x == tau[n - 1] && m == right_n) {
                                format!("end-condition/{}", endkey)
                            } else {
                                format!("spline-value/{}/m{}", endkey, m.min(3))
                            };
                            acc.violate(&key, idx, cj(), json!({"data": dname, "x": x.f(), "m": m, "want": want.f()}), json!(got));
                        }
                    }
                }
                acc.outcome(&(dname.clone(), hash_f64s(&sp.c().as_ref().unwrap().to_vec())));
            }
            // ---- dual data: sensitivity to datum j == spline solved on unit data j
            let ygen: Vec<Rat> = (0..n).map(gen_rat).collect();
            let cgen = exact_c(&ygen);
            // ---- the order in which the interior sites are listed is immaterial (only the first and last site
            // carry the end conditions): reversed and rotated interior sites give the same spline
            if n >= 4 {
                let y_f: Vec<f64> = ygen.iter().map(|r| r.f()).collect();
                let cmaxg = cgen.iter().map(|r| r.f().abs()).fold(1.0, f64::max);
                let inner: Vec<usize> = (1..n - 1).collect();
                let mut perms: Vec<Vec<usize>> = vec![inner.iter().rev().cloned().collect()];
                let mut rot = inner.clone();
                rot.rotate_left(1);
                perms.push(rot);
                let mut sw = inner.clone();
                sw.swap(0, inner.len() - 1);
                perms.push(sw);
                for (pi, pm) in perms.iter().enumerate() {
                    let mut order = vec![0usize];
                    order.extend(pm.iter().cloned());
                    order.push(n - 1);
                    let tau_p: Vec<f64> = order.iter().map(|j| tau_f[*j]).collect();
                    let y_p: Vec<f64> = order.iter().map(|j| y_f[*j]).collect();
                    if tau_p == tau_f {
                        continue;
                    }
                    acc.eval();
                    let mut sp = PPSpline::<f64>::new(k, t.clone(), None);
                    match sp.csolve(&tau_p, &y_p, left_n, right_n, false) {
                        Err(_) => acc.violate(&format!("site-order/{}/unexpected-error", endkey), idx, cj(), json!({"sites": tau_p}), json!("Err")),
                        Ok(()) => {
                            let c = sp.c().as_ref().unwrap();
                            if (0..n).any(|i| !close_scaled(c[i], cgen[i].f(), 1.0, 1e-11 * cnd * cmaxg)) {
                                acc.violate(&format!("site-order/{}", endkey), idx, cj(), json!({"sites": tau_p, "order": (["interior reversed", "interior rotated", "first and last interior site swapped"])[pi], "want_c": cgen.iter().map(|r| r.f()).collect::<Vec<_>>()}), json!(c.to_vec()));
                            }
                        }
                    }
                }
            }
            let names: Vec<String> = (0..n).map(|j| format!("y{}", j)).collect();
            let tol = 1e-11 * cnd * cgen.iter().map(|r| r.f().abs()).fold(1.0, f64::max);
            {
                let yd: Vec<Dual> = (0..n).map(|j| Dual::new(ygen[j].f(), vec![names[j].clone()])).collect();
                let mut sp = PPSpline::<Dual>::new(k, t.clone(), None);
                if sp.csolve(&tau_f, &yd, left_n, right_n, false).is_err() {
                    acc.violate("csolve/Dual/unexpected-error", idx, cj(), json!("Ok"), json!("Err"));
                } else {
                    for x in pts.iter() {
                        for m in 0..k.min(3) {
                            acc.eval();
                            match sp.ppdnev_single(&x.f(), m) {
                                Err(_) => acc.violate("evaluate/Dual/error", idx, cj(), json!({"x": x.f()}), json!("Err")),
                                Ok(d) => {
                                    let g = d.gradient1(names.clone());
                                    let mut ok = close_scaled(d.real(), exact_eval(&cgen, m, *x).f(), 1.0, tol * dscale(m));
                                    for j in 0..n {
                                        let unit: Vec<Rat> = (0..n).map(|i| inv[i][j]).collect();
                                        if !close_scaled(g[j], exact_eval(&unit, m, *x).f(), 1.0, tol * dscale(m)) {
                                            ok = false;
                                        }
                                    }
                                    if !ok {
                                        acc.violate(&format!("data-sensitivity/Dual/{}", endkey), idx, cj(), json!({"x": x.f(), "m": m, "want": "value of the unit-data splines"}), json!(format!("{:?}", d)));
                                    }
                                }
                            }
                        }
                        // dual abscissa on a dual spline
                        acc.eval();
                        let xd = Dual::try_new(x.f(), vec!["x".to_string()], vec![1.5]).unwrap();
                        match sp.ppdnev_single_dual(&xd, 0) {
                            Err(_) => acc.violate("evaluate/Dual-at-Dual/error", idx, cj(), json!({"x": x.f()}), json!("Err")),
                            Ok(d) => {
                                let gx = d.gradient1(vec!["x".to_string()])[0];
                                let gy = d.gradient1(names.clone());
                                let mut ok = close_scaled(gx, 1.5 * exact_eval(&cgen, 1, *x).f(), 1.0, tol * dscale(1) * 1.5);
                                for j in 0..n {
                                    let unit: Vec<Rat> = (0..n).map(|i| inv[i][j]).collect();
                                    if !close_scaled(gy[j], exact_eval(&unit, 0, *x).f(), 1.0, tol) {
                                        ok = false;
                                    }
                                }
                                if !ok {
                                    acc.violate(&format!("abscissa-sensitivity/Dual-spline/{}", endkey), idx, cj(), json!({"x": x.f(), "want_dx": 1.5 * exact_eval(&cgen, 1, *x).f()}), json!(format!("{:?}", d)));
                                }
                            }
                        }
                    }
                }
            }
            {
                let yd: Vec<Dual2> = (0..n).map(|j| Dual2::new(ygen[j].f(), vec![names[j].clone()])).collect();
                let mut sp = PPSpline::<Dual2>::new(k, t.clone(), None);
                if sp.csolve(&tau_f, &yd, left_n, right_n, false).is_err() {
                    acc.violate("csolve/Dual2/unexpected-error", idx, cj(), json!("Ok"), json!("Err"));
                } else {
                    for x in pts.iter() {
                        acc.eval();
                        match sp.ppdnev_single(&x.f(), 0) {
                            Err(_) => acc.violate("evaluate/Dual2/error", idx, cj(), json!({"x": x.f()}), json!("Err")),
                            Ok(d) => {
                                let g = d.gradient1(names.clone());
                                let h = d.gradient2(names.clone());
                                let mut ok = close_scaled(d.real(), exact_eval(&cgen, 0, *x).f(), 1.0, tol);
                                for j in 0..n {
                                    let unit: Vec<Rat> = (0..n).map(|i| inv[i][j]).collect();
                                    if !close_scaled(g[j], exact_eval(&unit, 0, *x).f(), 1.0, tol) {
                                        ok = false;
                                    }
                                }
                                if h.iter().any(|z| z.abs() > tol) {
                                    ok = false;
                                }
                                if !ok {
                                    acc.violate(&format!("data-sensitivity/Dual2/{}", endkey), idx, cj(), json!({"x": x.f()}), json!(format!("{:?}", d)));
                                }
                            }
                        }
                        // Dual2 abscissa on a Dual2 spline: d/dx = s', d2/dx2 = s''
                        acc.eval();
                        let xd = Dual2::try_new(x.f(), vec!["x".to_string()], vec![1.5], vec![0.25]).unwrap();
                        if let Ok(d) = sp.ppdnev_single_dual2(&xd, 0) {
                            let gx = d.gradient1(vec!["x".to_string()])[0];
                            let hx = d.gradient2(vec!["x".to_string()])[[0, 0]];
                            let (s1, s2) = (exact_eval(&cgen, 1, *x).f(), exact_eval(&cgen, 2, *x).f());
                            let want_h = s2 * 1.5 * 1.5 + s1 * 0.5;
                            if !close_scaled(gx, 1.5 * s1, 1.0, tol * dscale(1) * 1.5) || !close_scaled(hx, want_h, 1.0, tol * dscale(2) * 4.0) {
                                acc.violate(&format!("abscissa-sensitivity/Dual2-spline/{}", endkey), idx, cj(), json!({"x": x.f(), "want_dx": 1.5 * s1, "want_d2x": want_h}), json!([gx, hx]));
                            }
                            // the MIXED block: d2 s / d y_j d x = (slope of the spline solved on the j-th unit data) * dx/du
                            let mut all = names.clone();
                            all.push("x".to_string());
                            let hh = d.gradient2(all);
                            for j in 0..n {
                                let unit: Vec<Rat> = (0..n).map(|i| inv[i][j]).collect();
                                let want = 1.5 * exact_eval(&unit, 1, *x).f();
                                if !close_scaled(hh[[j, n]], want, 1.0, tol * dscale(1) * 1.5) || !close_scaled(hh[[n, j]], want, 1.0, tol * dscale(1) * 1.5) {
                                    acc.violate(&format!("abscissa-sensitivity/Dual2-spline/mixed-block/{}", endkey), idx, cj(), json!({"x": x.f(), "datum": j, "want": want}), json!([hh[[j, n]], hh[[n, j]]]));
                                    break;
                                }
                            }
                        } else {
                            acc.violate("evaluate/Dual2-at-Dual2/error", idx, cj(), json!({"x": x.f()}), json!("Err"));
                        }
                    }
                }
            }
            // ---- float spline at dual abscissas: first and second derivatives as sensitivities
            {
                let y_f: Vec<f64> = ygen.iter().map(|r| r.f()).collect();
                let mut sp = PPSpline::<f64>::new(k, t.clone(), None);
                if sp.csolve(&tau_f, &y_f, left_n, right_n, false).is_ok() {
                    for x in pts.iter() {
                        for m in 0..k.min(3) {
                            acc.evals_add(2);
                            let (s0, s1, s2) = (exact_eval(&cgen, m, *x).f(), exact_eval(&cgen, m + 1, *x).f(), exact_eval(&cgen, m + 2, *x).f());
                            let xd = Dual::try_new(x.f(), vec!["x".to_string()], vec![1.5]).unwrap();
                            match sp.ppdnev_single_dual(&xd, m) {
                                Ok(d) => {
                                    let gx = d.gradient1(vec!["x".to_string()])[0];
                                    if !close_scaled(d.real(), s0, 1.0, tol * dscale(m)) || !close_scaled(gx, 1.5 * s1, 1.0, tol * dscale(m + 1) * 1.5) {
                                        acc.violate(&format!("abscissa-sensitivity/f64-spline/Dual/m{}", m), idx, cj(), json!({"x": x.f(), "m": m, "want": [s0, 1.5 * s1]}), json!([d.real(), gx]));
                                    }
                                }
                                Err(_) => acc.violate("evaluate/f64-at-Dual/error", idx, cj(), json!({"x": x.f()}), json!("Err")),
                            }
                            let xd2 = Dual2::try_new(x.f(), vec!["x".to_string()], vec![1.5], vec![0.25]).unwrap();
                            match sp.ppdnev_single_dual2(&xd2, m) {
                                Ok(d) => {
                                    let gx = d.gradient1(vec!["x".to_string()])[0];
                                    let hx = d.gradient2(vec!["x".to_string()])[[0, 0]];
                                    let want_h = s2 * 2.25 + s1 * 0.5;
                                    if !close_scaled(d.real(), s0, 1.0, tol * dscale(m)) || !close_scaled(gx, 1.5 * s1, 1.0, tol * dscale(m + 1) * 1.5) || !close_scaled(hx, want_h, 1.0, tol * dscale(m + 2) * 4.0) {
                                        acc.violate(&format!("abscissa-sensitivity/f64-spline/Dual2/m{}", m), idx, cj(), json!({"x": x.f(), "m": m, "want": [s0, 1.5 * s1, want_h]}), json!([d.real(), gx, hx]));
                                    }
                                }
                                Err(_) => acc.violate("evaluate/f64-at-Dual2/error", idx, cj(), json!({"x": x.f()}), json!("Err")),
                            }
                        }
                    }
                }
            }
            if rat_overflowed() {
                // the exact oracle left the i128 range somewhere in this case: nothing it said is believed
                acc.violations.retain(|v| v.index != idx);
                acc.skip();
                acc.bump("skipped: exact arithmetic left the i128 range");
            }
            if idx % 97 == 0 {
                acc.sample(|| json!({"k": k, "t": t, "tau": tau_f, "left_n": left_n, "right_n": right_n, "condition": cnd}));
            }
        }
        Case::Long { k, m } => {
            let (k, m) = (*k, *m);
            let end = (m + 1) as f64;
            let mut t = vec![0.0; k];
            t.extend((1..=m).map(|j| j as f64));
            t.extend(vec![end; k]);
            let n = m + k;
            let (tau, ln): (Vec<f64>, usize) = match k {
                2 => ((0..=m + 1).map(|j| j as f64).collect(), 0),
                3 => {
                    let mut v = vec![0.0];
                    v.extend((0..=m).map(|j| j as f64 + 0.5));
                    v.push(end);
                    (v, 0)
                }
                _ => {
                    let mut v = vec![0.0, 0.0];
                    v.extend((1..=m).map(|j| j as f64));
                    v.extend([end, end]);
                    (v, 2)
                }
            };
            assert_eq!(tau.len(), n);
            acc.nontrivial();
            let mut pts: Vec<f64> = vec![];
            for j in 0..=m {
                for q in 0..4 {
                    pts.push(j as f64 + 0.25 * q as f64);
                }
            }
            pts.push(end);
            // the collocation matrix row by row against the single-function evaluators
            {
                let sp = PPSpline::<f64>::new(k, t.clone(), None);
                let b = sp.bsplmatrix(&tau, ln, ln);
                for j in 0..n {
                    let mut rowsum = 0.0;
                    for i in 0..n {
                        acc.eval();
                        let want = if j == 0 || j == n - 1 {
                            rateslib::splines::bspldnev_single_f64(&tau[j], i, &k, &t, ln, None)
                        } else {
                            rateslib::splines::bsplev_single_f64(&tau[j], i, &k, &t, None)
                        };
                        rowsum += b[[j, i]];
                        if b[[j, i]].to_bits() != want.to_bits() && b[[j, i]] != want {
                            acc.violate("long/collocation-matrix-entry", idx, cj(), json!({"row": j, "col": i, "site": tau[j], "want": want}), json!(b[[j, i]]));
                            return;
                        }
                    }
                    let want_sum = if (j == 0 || j == n - 1) && ln > 0 { 0.0 } else { 1.0 };
                    if (rowsum - want_sum).abs() > 1e-9 {
                        acc.violate("long/collocation-matrix-row-sum", idx, cj(), json!({"row": j, "site": tau[j], "want": want_sum}), json!(rowsum));
                        return;
                    }
                }
            }
            // polynomial reproduction and generic data
            let poly = |d: usize, mm: usize, x: f64| -> f64 {
                if mm > d {
                    return 0.0;
                }
                let mut c = 1.0;
                for q in 0..mm {
                    c *= (d - q) as f64;
                }
                c * (x / end).powi((d - mm) as i32) / end.powi(mm as i32)
            };
            for d in 0..k {
                let y: Vec<f64> = (0..n).map(|j| poly(d, if j == 0 || j == n - 1 { ln } else { 0 }, tau[j])).collect();
                let mut sp = PPSpline::<f64>::new(k, t.clone(), None);
                acc.eval();
                if sp.csolve(&tau, &y, ln, ln, false).is_err() {
                    acc.violate("long/csolve/unexpected-error", idx, cj(), json!({"data": format!("(x/{})^{}", end, d)}), json!("Err"));
                    return;
                }
                for x in pts.iter() {
                    for mm in 0..k {
                        acc.eval();
                        let want = poly(d, mm, *x);
                        match sp.ppdnev_single(x, mm) {
                            Ok(got) if close_scaled(got, want, 1e-8, 1.0) => {}
                            other => {
                                acc.violate(&format!("long/polynomial-reproduction/m{}", mm.min(3)), idx, cj(), json!({"degree": d, "x": x, "m": mm, "want": want}), json!(format!("{:?}", other.ok())));
                                return;
                            }
                        }
                    }
                }
                // the same spline in other units of the abscissa (knots, sites and points multiplied by a power of
                // two; 2^29 puts a unit spacing at the size of several years counted in seconds): derivative data and
                // derivatives scale with the exact inverse power, everything else is unchanged
                for e in [29i32, -20] {
                    let f = 2.0_f64.powi(e);
                    let (ts, taus): (Vec<f64>, Vec<f64>) = (t.iter().map(|v| v * f).collect(), tau.iter().map(|v| v * f).collect());
                    let ys: Vec<f64> = (0..n).map(|j| if j == 0 || j == n - 1 { y[j] / f.powi(ln as i32) } else { y[j] }).collect();
                    let mut ss = PPSpline::<f64>::new(k, ts, None);
                    acc.eval();
                    if ss.csolve(&taus, &ys, ln, ln, false).is_err() {
                        acc.violate("long/rescaled/csolve/unexpected-error", idx, cj(), json!({"data": format!("(x/{})^{}", end, d), "scale": format!("2^{}", e)}), json!("Err"));
                        return;
                    }
                    for x in pts.iter() {
                        for mm in 0..k {
                            acc.eval();
                            let want = poly(d, mm, *x);
                            match ss.ppdnev_single(&(x * f), mm) {
                                Ok(got) if close_scaled(got * f.powi(mm as i32), want, 1e-7, 1.0) => {}
                                other => {
                                    acc.violate(&format!("long/rescaled/polynomial-reproduction/m{}", mm.min(3)), idx, cj(), json!({"degree": d, "x": x, "m": mm, "scale": format!("2^{}", e), "want": want}), json!(format!("{:?}", other.ok().map(|g| g * f.powi(mm as i32)))));
                                    return;
                                }
                            }
                        }
                    }
                }
            }
            let y: Vec<f64> = (0..n).map(|j| gen_rat(j).f() + 0.01 * j as f64).collect();
            let names: Vec<String> = (0..n).map(|j| format!("y{}", j)).collect();
            let mut sf = PPSpline::<f64>::new(k, t.clone(), None);
            let mut sd = PPSpline::<Dual>::new(k, t.clone(), None);
            let mut sd2 = PPSpline::<Dual2>::new(k, t.clone(), None);
            let yd: Vec<Dual> = (0..n).map(|j| Dual::new(y[j], vec![names[j].clone()])).collect();
            let yd2: Vec<Dual2> = (0..n).map(|j| Dual2::new(y[j], vec![names[j].clone()])).collect();
            acc.evals_add(3);
            if sf.csolve(&tau, &y, ln, ln, false).is_err() || sd.csolve(&tau, &yd, ln, ln, false).is_err() || sd2.csolve(&tau, &yd2, ln, ln, false).is_err() {
                acc.violate("long/csolve/unexpected-error", idx, cj(), json!({"data": "generic"}), json!("Err"));
                return;
            }
            // data reproduction and end conditions, in all three types; sensitivity at site j is the unit vector
            for j in 0..n {
                acc.evals_add(3);
                let mm = if j == 0 || j == n - 1 { ln } else { 0 };
                let (a, b, c) = (sf.ppdnev_single(&tau[j], mm), sd.ppdnev_single(&tau[j], mm), sd2.ppdnev_single(&tau[j], mm));
                let ok = match (&a, &b, &c) {
                    (Ok(a), Ok(b), Ok(c)) => {
                        let gb = b.gradient1(names.clone());
                        let gc = c.gradient1(names.clone());
                        close_scaled(*a, y[j], 1e-8, 4.0)
                            && close_scaled(b.real(), y[j], 1e-8, 4.0)
                            && close_scaled(c.real(), y[j], 1e-8, 4.0)
                            && (0..n).all(|i| close_scaled(gb[i], if i == j { 1.0 } else { 0.0 }, 1e-8, 1.0) && close_scaled(gc[i], if i == j { 1.0 } else { 0.0 }, 1e-8, 1.0))
                            && c.gradient2(names.clone()).iter().all(|z| z.abs() < 1e-8)
                    }
                    _ => false,
                };
                if !ok {
                    acc.violate(if mm == 0 { "long/interpolation" } else { "long/end-condition" }, idx, cj(), json!({"site": tau[j], "m": mm, "want": y[j]}), json!(format!("{:?} / {:?}", a.ok(), b.ok())));
                    return;
                }
            }
            // sensitivity to a datum == the spline solved on the corresponding unit data (a selection of data)
            let mut sel = vec![0usize, 1, n / 2, n - 2, n - 1];
            sel.dedup();
            for j in sel {
                let unit: Vec<f64> = (0..n).map(|i| if i == j { 1.0 } else { 0.0 }).collect();
                let mut su = PPSpline::<f64>::new(k, t.clone(), None);
                if su.csolve(&tau, &unit, ln, ln, false).is_err() {
                    acc.violate("long/csolve/unexpected-error", idx, cj(), json!({"data": format!("unit{}", j)}), json!("Err"));
                    return;
                }
                for x in pts.iter() {
                    acc.evals_add(2);
                    let want = su.ppdnev_single(x, 0).unwrap_or(f64::NAN);
                    let g1 = sd.ppdnev_single(x, 0).map(|d| d.gradient1(vec![names[j].clone()])[0]).unwrap_or(f64::NAN);
                    let g2 = sd2.ppdnev_single(x, 0).map(|d| d.gradient1(vec![names[j].clone()])[0]).unwrap_or(f64::NAN);
                    if !close_scaled(g1, want, 1e-8, 1.0) || !close_scaled(g2, want, 1e-8, 1.0) {
                        acc.violate("long/data-sensitivity", idx, cj(), json!({"x": x, "datum": j, "want": want}), json!([g1, g2]));
                        return;
                    }
                }
            }
            // dual abscissa on the float spline: own first and second derivatives
            for x in pts.iter() {
                acc.eval();
                let (s0, s1, s2) = (sf.ppdnev_single(x, 0).unwrap_or(f64::NAN), sf.ppdnev_single(x, 1).unwrap_or(f64::NAN), sf.ppdnev_single(x, 2).unwrap_or(f64::NAN));
                let xd2 = Dual2::try_new(*x, vec!["x".to_string()], vec![1.5], vec![0.25]).unwrap();
                match sf.ppdnev_single_dual2(&xd2, 0) {
                    Ok(d) => {
                        let gx = d.gradient1(vec!["x".to_string()])[0];
                        let hx = d.gradient2(vec!["x".to_string()])[[0, 0]];
                        let want_h = s2 * 2.25 + s1 * 0.5;
                        if !close_scaled(d.real(), s0, 1e-9, 4.0) || !close_scaled(gx, 1.5 * s1, 1e-8, 16.0) || !close_scaled(hx, want_h, 1e-8, 64.0) {
                            acc.violate("long/abscissa-sensitivity", idx, cj(), json!({"x": x, "want": [s0, 1.5 * s1, want_h]}), json!([d.real(), gx, hx]));
                            return;
                        }
                    }
                    Err(_) => {
                        acc.violate("long/abscissa-sensitivity", idx, cj(), json!({"x": x}), json!("Err"));
                        return;
                    }
                }
            }
            acc.outcome(&(k, m, hash_f64s(&sf.c().as_ref().unwrap().to_vec())));
            acc.sample(cj);
        }
        Case::TwoSplines { k, natural } => {
            let (k, natural) = (*k, *natural);
            let n = k + 2;
            let ln = if natural { 2 } else { 0 };
            let tau: Vec<f64> = if natural {
                let mut v = vec![0.0];
                v.extend((0..n - 2).map(|j| 4.0 * j as f64 / (n - 3) as f64));
                v.push(4.0);
                v
            } else {
                (0..n).map(|j| 4.0 * j as f64 / (n - 1) as f64).collect()
            };
            let grid = [0.5, 1.0, 1.5, 2.0, 2.5, 3.0, 3.5];
            let mut tvs: Vec<Vec<f64>> = vec![];
            for a in 0..grid.len() {
                for b in a..grid.len() {
                    if a == b && k < 3 {
                        continue;
                    }
                    let mut t = vec![0.0; k];
                    t.extend([grid[a], grid[b]]);
                    t.extend(vec![4.0; k]);
                    // Schoenberg-Whitney for the value sites (strictly inside the supports, the end points excepted)
                    let vals: Vec<f64> = if natural { tau[1..n - 1].to_vec() } else { tau.clone() };
                    let off = if natural { 1 } else { 0 };
                    let ok = vals.iter().enumerate().all(|(j, x)| {
                        let i = j + off;
                        (t[i] < *x && *x < t[i + k]) || (*x == 0.0 && i == 0) || (*x == 4.0 && i == n - 1) || (natural && ((*x == 0.0 && i == 1) || (*x == 4.0 && i == n - 2)))
                    });
                    if ok {
                        tvs.push(t);
                    }
                }
            }
            let deg = k - 1;
            let poly = |mm: usize, x: f64| -> f64 {
                // p(x) = sum_{d <= deg} (d + 1) (x / 4)^d and its derivatives
                let mut v = 0.0;
                for d in mm..=deg {
                    let mut c = (d + 1) as f64;
                    for q in 0..mm {
                        c *= (d - q) as f64;
                    }
                    v += c * (x / 4.0).powi((d - mm) as i32) / 4.0_f64.powi(mm as i32);
                }
                v
            };
            let y: Vec<f64> = (0..n).map(|j| poly(if natural && (j == 0 || j == n - 1) { 2 } else { 0 }, tau[j])).collect();
            let cj = || serde_json::to_value(case).unwrap();
            // each knot vector on its own first (a knot vector for which the first solve of this case is already off is a
            // different matter and is reported as such)
            let mut usable: Vec<Vec<f64>> = vec![];
            for t in tvs.iter() {
                let mut sp = PPSpline::<f64>::new(k, t.clone(), None);
                // a solve on unrelated sites in between, so that nothing of the previous candidate is left
                let mut other = PPSpline::<f64>::new(2, vec![0.0, 0.0, 1.0, 1.0], None);
                let _ = other.csolve(&[0.0, 1.0], &[1.0, 2.0], 0, 0, false);
                if sp.csolve(&tau, &y, ln, ln, false).is_ok() && (0..=16).all(|q| sp.ppdnev_single(&(q as f64 * 0.25), 0).map_or(false, |v| close_scaled(v, poly(0, q as f64 * 0.25), 1e-7, 8.0))) {
                    usable.push(t.clone());
                }
            }
            for ta in usable.iter() {
                for tb in usable.iter() {
                    if ta == tb {
                        continue;
                    }
                    acc.nontrivial();
                    let mut sa = PPSpline::<f64>::new(k, ta.clone(), None);
                    let mut sb = PPSpline::<f64>::new(k, tb.clone(), None);
                    let mut sbd = PPSpline::<Dual>::new(k, tb.clone(), None);
                    let yd: Vec<Dual> = y.iter().enumerate().map(|(j, v)| Dual::new(*v, vec![format!("y{}", j)])).collect();
                    acc.evals_add(3);
                    let ra = sa.csolve(&tau, &y, ln, ln, false).is_ok();
                    let rb = sb.csolve(&tau, &y, ln, ln, false).is_ok();
                    let rbd = sbd.csolve(&tau, &yd, ln, ln, false).is_ok();
                    if !ra || !rb || !rbd {
                        acc.violate("two-splines/csolve/unexpected-error", idx, cj(), json!({"first": ta, "second": tb}), json!([ra, rb, rbd]));
                        return;
                    }
                    for q in 0..=16 {
                        let x = q as f64 * 0.25;
                        for mm in 0..k.min(3) {
                            acc.evals_add(2);
                            let want = poly(mm, x);
                            let got = sb.ppdnev_single(&x, mm).unwrap_or(f64::NAN);
                            let gotd = sbd.ppdnev_single(&x, mm).map(|d| d.real()).unwrap_or(f64::NAN);
                            if !close_scaled(got, want, 1e-7, 8.0) || !close_scaled(gotd, want, 1e-7, 8.0) {
                                acc.violate(&format!("two-splines/second-object-off-its-polynomial/m{}", mm), idx, cj(), json!({"solved_before": ta, "knots": tb, "x": x, "m": mm, "want": want}), json!([got, gotd]));
                                return;
                            }
                        }
                    }
                }
            }
            acc.outcome(&(k, natural, usable.len()));
            acc.sample(|| json!({"case": cj(), "knot_vectors": usable.len()}));
        }
        Case::Resolve { k, interior } => {
            let k = *k;
            let tr = knots(k, interior);
            let t: Vec<f64> = tr.iter().map(|r| r.f()).collect();
            let n = t.len() - k;
            let even: Vec<f64> = (0..n).map(|j| 4.0 * j as f64 / (n - 1) as f64).collect();
            let mut natural = vec![0.0, 0.0];
            if n >= 5 {
                natural.extend((1..n - 3).map(|j| 4.0 * j as f64 / (n - 3) as f64 * 0.999));
            }
            natural.extend([4.0, 4.0]);
            let shifted: Vec<f64> = even.iter().enumerate().map(|(j, x)| if j == 0 || j == n - 1 { *x } else { x + 0.0625 }).collect();
            let y: Vec<f64> = (0..n).map(|j| gen_rat(j).f()).collect();
            // EVERY ordered pair of (sites, left_n, right_n) configurations from the menu {even, shifted, natural}
            // x {0,1,2}^2 is walked as one chain on one object: the sequence visits every ordered pair once
            // (de Bruijn-style walk: for each a, for each b: a, b)
            let mut menu: Vec<(&Vec<f64>, usize, usize)> = vec![];
            for sites in [&even, &shifted, &natural] {
                if sites.len() != n || (std::ptr::eq(sites, &natural) && !(n >= 5 && k >= 3)) {
                    continue;
                }
                for l in 0..k.min(3) {
                    for r in 0..k.min(3) {
                        menu.push((sites, l, r));
                    }
                }
            }
            // a refused solve (one site too few) is put between the two: it must return Err and must not disturb what
            // the next solve produces
            let short: Vec<f64> = even[..n - 1].to_vec();
            // (sites, left_n, right_n, kind): kind 0 a proper solve, 1 refused for one site too few, 2 refused for a
            // value vector one short on the NEXT configuration's own sites and end conditions
            let mut steps: Vec<(&Vec<f64>, usize, usize, u8)> = vec![];
            for (ai, a) in menu.iter().enumerate() {
                for (bi, b) in menu.iter().enumerate() {
                    steps.push((a.0, a.1, a.2, 0));
                    match (ai + bi) % 4 {
                        0 => steps.push((&short, a.1, b.2, 1)),
                        2 => steps.push((b.0, b.1, b.2, 2)),
                        _ => {}
                    }
                    steps.push((b.0, b.1, b.2, 0));
                }
            }
            let mut reused = PPSpline::<f64>::new(k, t.clone(), None);
            let yd: Vec<Dual> = y.iter().enumerate().map(|(j, v)| Dual::new(*v, vec![format!("y{}", j)])).collect();
            let mut reused_d = PPSpline::<Dual>::new(k, t.clone(), None);
            for (si, (tau, l, r, kind)) in steps.iter().enumerate() {
                if *l >= k || *r >= k {
                    continue;
                }
                if *kind != 0 {
                    // a refused step: one site too few (values cut to match), or the right sites with one value too few
                    if *l >= k || *r >= k {
                        continue;
                    }
                    acc.evals_add(2);
                    let r1 = reused.csolve(tau, &y[..n - 1].to_vec(), *l, *r, false);
                    let r2 = reused_d.csolve(tau, &yd[..n - 1].to_vec(), *l, *r, false);
                    if r1.is_ok() || r2.is_ok() {
                        acc.violate("resolve/mismatched-counts-accepted", idx, cj(), json!({"step": si, "sites": tau, "values": n - 1}), json!("Ok"));
                    }
                    continue;
                }
                acc.evals_add(2);
                acc.nontrivial();
                let mut fresh = PPSpline::<f64>::new(k, t.clone(), None);
                let (a, b) = (reused.csolve(tau, &y, *l, *r, false).is_ok(), fresh.csolve(tau, &y, *l, *r, false).is_ok());
                let same = a == b && (!a || (reused.c().as_ref().unwrap().iter().zip(fresh.c().as_ref().unwrap().iter()).all(|(p, q)| p.to_bits() == q.to_bits() || (p.is_nan() && q.is_nan()))));
                if !same {
                    acc.violate("resolve/f64/differs-from-fresh-object", idx, cj(), json!({"step": si, "sites": tau, "left_n": l, "right_n": r, "fresh": format!("{:?}", fresh.c())}), json!(format!("{:?}", reused.c())));
                }
                let mut fresh_d = PPSpline::<Dual>::new(k, t.clone(), None);
                let (a, b) = (reused_d.csolve(tau, &yd, *l, *r, false).is_ok(), fresh_d.csolve(tau, &yd, *l, *r, false).is_ok());
                let same = a == b && (!a || reused_d == fresh_d);
                if !same {
                    acc.violate("resolve/Dual/differs-from-fresh-object", idx, cj(), json!({"step": si, "sites": tau, "left_n": l, "right_n": r}), json!("coefficients differ"));
                }
                // a clone solved differently must not disturb the object it was taken from
                if a && si % 7 == 0 {
                    let before: Vec<u64> = reused.c().as_ref().unwrap().iter().map(|v| v.to_bits()).collect();
                    let mut cl = reused.clone();
                    let yrev: Vec<f64> = y.iter().rev().cloned().collect();
                    let _ = cl.csolve(tau, &yrev, *l, *r, false);
                    let after: Vec<u64> = reused.c().as_ref().unwrap().iter().map(|v| v.to_bits()).collect();
                    if before != after {
                        acc.violate("resolve/clone-shares-state", idx, cj(), json!({"step": si}), json!("solving a clone changed the coefficients of the original"));
                    }
                }
                acc.outcome(&(si, a, k));
            }
            if idx % 7 == 0 {
                acc.sample(cj);
            }
        }
        Case::Types { k } => {
            let k = *k;
            let tr = knots(k, &[(2, 1)]);
            let t: Vec<f64> = tr.iter().map(|r| r.f()).collect();
            let n = t.len() - k;
            let tau: Vec<f64> = (0..n).map(|j| 4.0 * j as f64 / (n - 1) as f64).collect();
            let y: Vec<f64> = (0..n).map(|j| gen_rat(j).f()).collect();
            let mut s0 = PPSpline::<f64>::new(k, t.clone(), None);
            let mut s1 = PPSpline::<Dual>::new(k, t.clone(), None);
            let mut s2 = PPSpline::<Dual2>::new(k, t.clone(), None);
            // evaluating before solving is an error, not a panic
            acc.evals_add(3);
            if s0.ppdnev_single(&1.0, 0).is_ok() || s0.mapped_value(&Number::F64(1.0)).is_ok() {
                acc.violate("types/evaluate-before-csolve", idx, cj(), json!("Err"), json!("Ok"));
            }
            // count errors
            let bad: Vec<(&str, Vec<f64>, Vec<f64>, bool)> = vec![
                ("too-few-sites", tau[..n - 1].to_vec(), y[..n - 1].to_vec(), false),
                ("too-few-sites-lsq", tau[..n - 1].to_vec(), y[..n - 1].to_vec(), true),
                ("too-many-sites-no-lsq", { let mut v = tau.clone(); v.push(4.0); v }, { let mut v = y.clone(); v.push(1.0); v }, false),
                ("y-shorter", tau.clone(), y[..n - 1].to_vec(), false),
                ("y-longer", tau.clone(), { let mut v = y.clone(); v.push(1.0); v }, false),
                ("y-longer-lsq", { let mut v = tau.clone(); v.push(4.0); v }, y.clone(), true),
            ];
            for (nm, ta, ya, lsq) in bad {
                acc.eval();
                acc.nontrivial();
                let mut s = PPSpline::<f64>::new(k, t.clone(), None);
                if s.csolve(&ta, &ya, 0, 0, lsq).is_ok() {
                    acc.violate(&format!("count-error/{}", nm), idx, cj(), json!("Err"), json!("Ok"));
                }
            }
            let yd: Vec<Dual> = y.iter().enumerate().map(|(j, v)| Dual::new(*v, vec![format!("y{}", j)])).collect();
            let yd2: Vec<Dual2> = y.iter().enumerate().map(|(j, v)| Dual2::new(*v, vec![format!("y{}", j)])).collect();
            if s0.csolve(&tau, &y, 0, 0, false).is_err() || s1.csolve(&tau, &yd, 0, 0, false).is_err() || s2.csolve(&tau, &yd2, 0, 0, false).is_err() {
                acc.violate("types/csolve", idx, cj(), json!("Ok"), json!("Err"));
                return;
            }
            let xs: [Number; 3] = [Number::F64(1.25), Number::Dual(Dual::new(1.25, vec!["x".into()])), Number::Dual2(Dual2::new(1.25, vec!["x".into()]))];
            // expected kind of result: row = spline type, column = abscissa kind; 9 = Err
            let table: [[u8; 3]; 3] = [[0, 1, 2], [1, 1, 9], [2, 9, 2]];
            let kind = |r: &Result<Number, pyo3::PyErr>| -> u8 {
                match r {
                    Ok(Number::F64(_)) => 0,
                    Ok(Number::Dual(_)) => 1,
                    Ok(Number::Dual2(_)) => 2,
                    Err(_) => 9,
                }
            };
            for (c, x) in xs.iter().enumerate() {
                let got = [kind(&s0.mapped_value(x)), kind(&s1.mapped_value(x)), kind(&s2.mapped_value(x))];
                for r in 0..3 {
                    acc.eval();
                    acc.nontrivial();
                    acc.outcome(&(k, r, c, got[r]));
                    if got[r] != table[r][c] {
                        acc.violate(&format!("types/mapped_value/spline{}-abscissa{}", r, c), idx, cj(), json!(table[r][c]), json!(got[r]));
                    }
                }
            }
            // values agree across the table where defined
            let v00 = f64::from(s0.mapped_value(&xs[0]).unwrap());
            for (r, v) in [(1, s1.mapped_value(&xs[0])), (2, s2.mapped_value(&xs[0]))] {
                if let Ok(n) = v {
                    if !close(f64::from(n), v00, 1e-12) {
                        acc.violate(&format!("types/value-differs/spline{}", r), idx, cj(), json!(v00), json!("differs"));
                    }
                }
            }
            acc.sample(cj);
        }
    }
}

fn subsets(items: &[i128], n: usize) -> Vec<Vec<i128>> {
    fn rec(items: &[i128], n: usize, start: usize, cur: &mut Vec<i128>, out: &mut Vec<Vec<i128>>) {
        if cur.len() == n {
            out.push(cur.clone());
            return;
        }
        for i in start..items.len() {
            cur.push(items[i]);
            rec(items, n, i + 1, cur, out);
            cur.pop();
        }
    }
    let mut out = vec![];
    rec(items, n, 0, &mut vec![], &mut out);
    out
}

pub fn cases(tier: Tier) -> Vec<Case> {
    let kmax = tier.pick(4, 6);
    let mut out = vec![];
    for k in 2..=kmax {
        out.push(Case::TwoSplines { k, natural: false });
        if k == 4 {
            out.push(Case::TwoSplines { k, natural: true });
        }
        out.push(Case::Types { k });
        for interior in interior_configs(k) {
            if interior.iter().map(|(_, m)| *m).sum::<usize>() <= 3 {
                out.push(Case::Resolve { k, interior });
            }
        }
        for interior in interior_configs(k) {
            let tot: usize = interior.iter().map(|(_, m)| *m).sum();
            // (orders 5 and 6 with three interior knots are 320 000 further cases of 9 x 9 exact systems: left out)
            if tot > if k >= 5 { 2 } else { 3 } {
                continue;
            }
            let n = k + tot;
            // candidate sites: break points and span mid points (eighths)
            let mut br: Vec<i128> = vec![0];
            for (p, _) in interior.iter() {
                br.push(GRID8[*p]);
            }
            br.push(32);
            let mut cand: Vec<i128> = br.clone();
            for w in br.windows(2) {
                cand.push((w[0] + w[1]) / 2);
                if tier == Tier::Thorough || br.len() <= 3 {
                    cand.push(w[0] + (w[1] - w[0]) / 4);
                    cand.push(w[0] + 3 * (w[1] - w[0]) / 4);
                }
            }
            cand.sort();
            cand.dedup();
            let ends: Vec<(usize, usize)> = vec![(0, 0), (1, 1), (2, 2), (0, 2), (1, 0)];
            for tau in subsets(&cand, n) {
                for (l, r) in ends.iter() {
                    if *l >= k || *r >= k {
                        continue;
                    }
                    out.push(Case::Solve { k, interior: interior.clone(), tau8: tau.clone(), left_n: *l, right_n: *r });
                }
            }
            // natural layout: repeated end sites with second-derivative conditions
            if k >= 3 && n >= 4 {
                let inner: Vec<i128> = cand.iter().cloned().filter(|x| *x != 0 && *x != 32).collect();
                for mid in subsets(&inner, n - 4) {
                    let mut tau = vec![0, 0];
                    tau.extend(mid);
                    tau.extend([32, 32]);
                    out.push(Case::Solve { k, interior: interior.clone(), tau8: tau.clone(), left_n: 2, right_n: 2 });
                    out.push(Case::Solve { k, interior: interior.clone(), tau8: tau, left_n: 1, right_n: 2 });
                }
            }
        }
    }
    for k in 2..=4usize {
        for m in [5usize, 13, 27, 28, 29, 30, 31, 32, 60] {
            out.push(Case::Long { k, m });
        }
    }
    out
}

pub fn run(ctx: &Ctx, replay_file: Option<String>) -> ! {
    if let Some(f) = replay_file {
        replay::<Case, _>(ctx, &f, check);
    }
    let cs = cases(ctx.tier);
    if std::env::var("VERIF_COUNT_ONLY").is_ok() {
        let mut m: std::collections::BTreeMap<String, usize> = Default::default();
        for c in cs.iter() {
            let k = match c {
                Case::Solve { k, tau8, .. } => format!("Solve k={} n={}", k, tau8.len()),
                Case::Types { .. } => "Types".into(),
                Case::Resolve { k, .. } => format!("Resolve k={}", k),
                Case::TwoSplines { k, .. } => format!("TwoSplines k={}", k),
                Case::Long { .. } => "Long".into(),
            };
            *m.entry(k).or_default() += 1;
        }
        eprintln!("{:#?}", m);
        std::process::exit(0);
    }
    let acc = explore(&cs, check);
    let meta = Meta::exploration(
        "order k = 2..4 (6); every knot vector of C14 with total interior multiplicity <= 3 (<= 2 for orders 5 and 6); data sites = EVERY n-subset \
         of the candidate grid (break points, span mid points, and quarter points where the grid is small / in the \
         thorough tier) whose exact collocation matrix is non-singular with condition < 1e6 (Schoenberg-Whitney), plus \
         the natural layout with repeated end sites; end conditions (left_n, right_n) in {(0,0),(1,1),(2,2),(0,2),(1,0)} \
         and (2,2)/(1,2) for the natural layout; data = the n unit vectors, a generic vector and the monomials x^d, d<k. \
         Oracle: the EXACT spline (rational inverse of the exact collocation matrix times the data; the model is \
         checked to reproduce the monomials exactly): every value and derivative m<k on every break point and quarter \
         point (which covers interpolation, end conditions and polynomial reproduction everywhere in the domain); the interior sites listed reversed / rotated / with the outer two swapped give the same coefficients; Dual \
         and Dual2 data: sensitivity to datum j = the unit-data spline, zero Hessian; Dual/Dual2 abscissas on float, \
         Dual and Dual2 splines: first / second derivative of the spline as sensitivities (chain rule with a non-unit \
         gradient and a non-zero Hessian on the abscissa), and on a Dual2 spline the mixed datum-abscissa block = slope of the unit-data spline; 3x3 type table of mapped_value; count mismatches and \
         evaluation before solving are errors; one spline object taken through every ordered pair of (sites, end conditions) configurations, with a refused solve in between on every other pair, equals a fresh object solved once, bit for bit. Long splines (orders 2..4 with 5, 13, 27..32, 60 interior integer knots, i.e. up to 64 basis functions; order 4 in the natural layout): the collocation matrix entry by entry against the single-function evaluators, reproduction of the polynomials of degree < k in value and every derivative, data reproduction and end conditions in all three number types with unit-vector sensitivities at the sites, data sensitivities against the float spline solved on unit data, Dual2 abscissa on the float spline (tolerance oracle, 1e-8). Non-trivial: asymmetric end conditions or the natural layout.",
        json!({"max_order": ctx.tier.pick(4, 6), "cases": cs.len()}),
    )
    .assume("exact rational B-spline model (harness/src/bspline.rs)");
    finish(ctx, acc, meta)
}
