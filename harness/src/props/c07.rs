//! C07 Built-in holiday calendars agree with their published rules.
use crate::calmodel::*;
use crate::common::*;
use rateslib::calendars::{get_calendar_by_name, DateRoll};
use serde::{Deserialize, Serialize};
use serde_json::json;
use std::collections::{BTreeMap, BTreeSet};

#[derive(Clone, Debug, Serialize, Deserialize)]
pub struct Case {
    pub cal: String,
    /// rules | all-bus | fed-vs-nyc | documented | doc-names | fixings
    pub part: String,
}

#[derive(Clone, Copy)]
enum Obs {
    None,
    SundayToMonday,
    NearestWorkday,
    NextMonday,
    NextMondayOrTuesday,
}

#[derive(Clone, Copy)]
enum Kind {
    /// month, day, observance
    Fixed(i64, i64, Obs),
    /// anchor (month, day), weekday 0=Mon, n: n>0 n-th on/after anchor, n<0 |n|-th on/before anchor
    Nth(i64, i64, i64, i64),
    /// days after Easter Sunday
    Easter(i64),
    /// one-off date
    OneOff(i64, i64, i64),
}

#[derive(Clone, Copy)]
struct Rule {
    name: &'static str,
    kind: Kind,
    /// inclusive filter on the final (observed) date
    start: Option<(i64, i64, i64)>,
    end: Option<(i64, i64, i64)>,
}

const fn r(name: &'static str, kind: Kind) -> Rule {
    Rule { name, kind, start: None, end: None }
}
const fn rs(name: &'static str, kind: Kind, s: (i64, i64, i64)) -> Rule {
    Rule { name, kind, start: Some(s), end: None }
}
const fn re(name: &'static str, kind: Kind, e: (i64, i64, i64)) -> Rule {
    Rule { name, kind, start: None, end: Some(e) }
}

fn observe(z: i64, o: Obs) -> i64 {
    let wd = weekday(z);
    match o {
        Obs::None => z,
        Obs::SundayToMonday => {
            if wd == 6 {
                z + 1
            } else {
                z
            }
        }
        Obs::NearestWorkday => match wd {
            5 => z - 1,
            6 => z + 1,
            _ => z,
        },
        Obs::NextMonday => match wd {
            5 => z + 2,
            6 => z + 1,
            _ => z,
        },
        Obs::NextMondayOrTuesday => match wd {
            5 | 6 => z + 2,
            0 => z + 1,
            _ => z,
        },
    }
}

fn rule_date(rule: &Rule, y: i64) -> Option<i64> {
    let z = match rule.kind {
        Kind::Fixed(m, d, o) => observe(days_from_civil(y, m, d), o),
        Kind::Nth(m, d, wd, n) => {
            let a = days_from_civil(y, m, d);
            if n > 0 {
                let first = a + (wd - weekday(a)).rem_euclid(7);
                first + 7 * (n - 1)
            } else {
                let last = a - (weekday(a) - wd).rem_euclid(7);
                last - 7 * (-n - 1)
            }
        }
        Kind::Easter(off) => easter(y) + off,
        Kind::OneOff(yy, m, d) => {
            if yy != y {
                return None;
            }
            days_from_civil(yy, m, d)
        }
    };
    if let Some((a, b, c)) = rule.start {
        if z < days_from_civil(a, b, c) {
            return None;
        }
    }
    if let Some((a, b, c)) = rule.end {
        if z > days_from_civil(a, b, c) {
            return None;
        }
    }
    Some(z)
}

const MO: i64 = 0;
const TH: i64 = 3;
const FR: i64 = 4;

fn rules_for(cal: &str) -> Vec<Rule> {
    use Kind::*;
    let us = |good_friday: bool| -> Vec<Rule> {
        let mut v = vec![
            r("new-year", Fixed(1, 1, Obs::SundayToMonday)),
            rs("mlk", Nth(1, 1, MO, 3), (1986, 1, 1)),
            r("presidents", Nth(2, 1, MO, 3)),
            r("memorial", Nth(5, 31, MO, -1)),
            rs("juneteenth", Fixed(6, 19, Obs::SundayToMonday), (2022, 1, 1)),
            r("independence", Fixed(7, 4, Obs::NearestWorkday)),
            r("labour", Nth(9, 1, MO, 1)),
            r("columbus", Nth(10, 1, MO, 2)),
            r("veterans", Fixed(11, 11, Obs::SundayToMonday)),
            r("thanksgiving", Nth(11, 1, TH, 4)),
            r("christmas", Fixed(12, 25, Obs::NearestWorkday)),
            r("ghw-bush-funeral", OneOff(2018, 12, 5)),
        ];
        if good_friday {
            v.push(r("good-friday", Easter(-2)));
        }
        v
    };
    match cal {
        "tgt" => vec![
            r("new-year", Fixed(1, 1, Obs::None)),
            r("good-friday", Easter(-2)),
            r("easter-monday", Easter(1)),
            r("labour", Fixed(5, 1, Obs::None)),
            r("christmas", Fixed(12, 25, Obs::None)),
            r("boxing", Fixed(12, 26, Obs::None)),
        ],
        "nyc" => us(true),
        "fed" => us(false),
        "ldn" => vec![
            r("new-year", Fixed(1, 1, Obs::NextMonday)),
            r("good-friday", Easter(-2)),
            r("easter-monday", Easter(1)),
            re("early-may-pre-2020", Nth(5, 1, MO, 1), (2020, 1, 1)),
            r("early-may-2020", OneOff(2020, 5, 8)),
            rs("early-may-post-2020", Nth(5, 1, MO, 1), (2021, 1, 1)),
            re("spring-pre-2022", Nth(5, 31, MO, -1), (2022, 5, 1)),
            rs("spring-post-2022", Nth(5, 31, MO, -1), (2022, 7, 1)),
            r("jubilee-thu", OneOff(2022, 6, 2)),
            r("jubilee-fri", OneOff(2022, 6, 3)),
            r("queen-funeral", OneOff(2022, 9, 19)),
            r("coronation", OneOff(2023, 5, 8)),
            r("summer", Nth(8, 31, MO, -1)),
            r("christmas", Fixed(12, 25, Obs::NextMonday)),
            r("boxing", Fixed(12, 26, Obs::NextMondayOrTuesday)),
        ],
        "stk" => vec![
            r("new-year", Fixed(1, 1, Obs::None)),
            r("epiphany", Fixed(1, 6, Obs::None)),
            r("good-friday", Easter(-2)),
            r("easter-monday", Easter(1)),
            r("labour", Fixed(5, 1, Obs::None)),
            r("ascension", Easter(39)),
            r("national", Fixed(6, 6, Obs::None)),
            r("midsummer", Nth(6, 25, FR, -1)),
            r("christmas-eve", Fixed(12, 24, Obs::None)),
            r("christmas", Fixed(12, 25, Obs::None)),
            r("boxing", Fixed(12, 26, Obs::None)),
            r("new-years-eve", Fixed(12, 31, Obs::None)),
        ],
        "osl" => vec![
            r("new-year", Fixed(1, 1, Obs::None)),
            r("maundy-thursday", Easter(-3)),
            r("good-friday", Easter(-2)),
            r("easter-monday", Easter(1)),
            r("labour", Fixed(5, 1, Obs::None)),
            r("constitution", Fixed(5, 17, Obs::None)),
            r("ascension", Easter(39)),
            r("whit-monday", Easter(50)),
            r("christmas-eve", Fixed(12, 24, Obs::None)),
            r("christmas", Fixed(12, 25, Obs::None)),
            r("boxing", Fixed(12, 26, Obs::None)),
        ],
        "zur" => vec![
            r("new-year", Fixed(1, 1, Obs::None)),
            r("berchtoldstag", Fixed(1, 2, Obs::None)),
            r("good-friday", Easter(-2)),
            r("easter-monday", Easter(1)),
            r("labour", Fixed(5, 1, Obs::None)),
            r("ascension", Easter(39)),
            r("whit-monday", Easter(50)),
            r("national", Fixed(8, 1, Obs::None)),
            r("christmas", Fixed(12, 25, Obs::None)),
            r("boxing", Fixed(12, 26, Obs::None)),
        ],
        // documented fixed-date and Easter-linked holidays of the remaining calendars (one-directional)
        "tro" => vec![
            r("new-year", Fixed(1, 1, Obs::None)),
            r("good-friday", Easter(-2)),
            r("national", Fixed(7, 1, Obs::None)),
            rs("truth-and-reconciliation", Fixed(9, 30, Obs::None), (2021, 1, 1)),
            r("remembrance", Fixed(11, 11, Obs::None)),
            r("christmas", Fixed(12, 25, Obs::None)),
            r("boxing", Fixed(12, 26, Obs::None)),
        ],
        "tyo" => vec![
            r("jan-1", Fixed(1, 1, Obs::None)),
            r("jan-2", Fixed(1, 2, Obs::None)),
            r("jan-3", Fixed(1, 3, Obs::None)),
            r("foundation", Fixed(2, 11, Obs::None)),
            rs("emperor-naruhito", Fixed(2, 23, Obs::None), (2020, 1, 1)),
            r("showa", Fixed(4, 29, Obs::None)),
            r("constitution", Fixed(5, 3, Obs::None)),
            r("greenery", Fixed(5, 4, Obs::None)),
            r("children", Fixed(5, 5, Obs::None)),
            r("culture", Fixed(11, 3, Obs::None)),
            r("labor-thanksgiving", Fixed(11, 23, Obs::None)),
            re("emperor-akihito", Fixed(12, 23, Obs::None), (2018, 12, 31)),
            r("dec-31", Fixed(12, 31, Obs::None)),
        ],
        "syd" => vec![
            r("new-year", Fixed(1, 1, Obs::None)),
            r("australia", Fixed(1, 26, Obs::None)),
            r("good-friday", Easter(-2)),
            r("easter-monday", Easter(1)),
            r("anzac", Fixed(4, 25, Obs::None)),
            r("christmas", Fixed(12, 25, Obs::None)),
            r("boxing", Fixed(12, 26, Obs::None)),
        ],
        "wlg" => vec![
            r("new-year", Fixed(1, 1, Obs::None)),
            r("day-after-new-year", Fixed(1, 2, Obs::None)),
            r("waitangi", Fixed(2, 6, Obs::None)),
            r("good-friday", Easter(-2)),
            r("easter-monday", Easter(1)),
            r("anzac", Fixed(4, 25, Obs::None)),
            r("christmas", Fixed(12, 25, Obs::None)),
            r("boxing", Fixed(12, 26, Obs::None)),
        ],
        "mum" => vec![
            r("republic", Fixed(1, 26, Obs::None)),
            r("good-friday", Easter(-2)),
            r("ambedkar", Fixed(4, 14, Obs::None)),
            r("may-day", Fixed(5, 1, Obs::None)),
            r("independence", Fixed(8, 15, Obs::None)),
            r("gandhi", Fixed(10, 2, Obs::None)),
            r("christmas", Fixed(12, 25, Obs::None)),
        ],
        _ => vec![],
    }
}

/// model: day -> rule name, for all years 1970..2200
fn model_holidays(cal: &str) -> BTreeMap<i64, &'static str> {
    let mut m = BTreeMap::new();
    for y in 1969..=2201 {
        for rule in rules_for(cal) {
            if let Some(z) = rule_date(&rule, y) {
                if z >= DAY_MIN && z <= day_max() {
                    m.entry(z).or_insert(rule.name);
                }
            }
        }
    }
    m
}

pub const FULL: [&str; 7] = ["tgt", "nyc", "fed", "ldn", "stk", "osl", "zur"];
pub const PARTIAL: [&str; 5] = ["tro", "tyo", "syd", "wlg", "mum"];
pub const FIXINGS: [(&str, &str); 9] = [("usd", "nyc"), ("gbp", "ldn"), ("cad", "tro"), ("eur", "tgt"), ("jpy", "tyo"), ("sek", "stk"), ("nok", "osl"), ("aud", "syd"), ("inr", "mum")];

fn repo_root() -> String {
    std::env::var("VERIF_REPO").unwrap_or_else(|_| "/repo".to_string())
}

pub fn check(case: &Case, idx: u64, acc: &mut Acc) {
    let cj = || serde_json::to_value(case).unwrap();
    match case.part.as_str() {
        "rules" => {
            let cal = get_calendar_by_name(&case.cal).unwrap();
            let model = model_holidays(&case.cal);
            for z in DAY_MIN..=day_max() {
                let d = to_ndt(z);
                let wd = weekday(z);
                acc.eval();
                if wd >= 5 {
                    if cal.is_bus_day(&d) {
                        acc.violate(&format!("{}/weekend-is-business-day", case.cal), idx, cj(), json!({"date": fmt_day(z), "want": "non-business"}), json!("business"));
                    }
                    continue;
                }
                let want = model.get(&z);
                let got = cal.is_holiday(&d);
                if want.is_some() {
                    acc.nontrivial();
                    acc.outcome(&(case.cal.clone(), z));
                }
                match (want, got) {
                    (Some(name), false) => acc.violate(&format!("{}/{}/missing", case.cal, name), idx, cj(), json!({"date": fmt_day(z), "rule": name, "want": "holiday"}), json!("not a holiday")),
                    (None, true) => {
                        // name the rule family when it is a Good Friday, to make the finding specific
                        let gf = z == easter(civil_from_days(z).0) - 2;
                        acc.violate(
                            &format!("{}/{}", case.cal, if gf { "good-friday/unexpected" } else { "unexpected-holiday" }),
                            idx,
                            cj(),
                            json!({"date": fmt_day(z), "want": "not a holiday under the published rules"}),
                            json!("holiday"),
                        );
                    }
                    _ => {}
                }
                if cal.is_bus_day(&d) != !got {
                    acc.violate(&format!("{}/weekday-business-flag", case.cal), idx, cj(), json!({"date": fmt_day(z)}), json!(cal.is_bus_day(&d)));
                }
            }
        }
        "sequence" => {
            // history independence of name resolution: on ONE thread, resolve every built-in name three times (in
            // order, again, reversed) and build named calendars "a", "a,b", "a", "b" for every ordered pair of the
            // fully modelled calendars; every object obtained must answer as its name says, whatever came before
            use rateslib::calendars::NamedCal;
            let all: Vec<&str> = FULL.iter().chain(PARTIAL.iter()).cloned().chain(["all", "bus"]).collect();
            let models: BTreeMap<&str, BTreeMap<i64, &'static str>> = FULL.iter().map(|c| (*c, model_holidays(c))).collect();
            let mut first_seen: BTreeMap<String, Vec<i64>> = BTreeMap::new();
            let mut order: Vec<&str> = all.clone();
            order.extend(all.iter().cloned());
            order.extend(all.iter().rev().cloned());
            for (k, name) in order.iter().enumerate() {
                acc.eval();
                acc.nontrivial();
                if k >= all.len() {
                    // look-ups that fail (or are spelt differently) in between must leave nothing behind; their own
                    // outcome is not judged here
                    match k % 3 {
                        0 => {
                            let _ = get_calendar_by_name(&name.to_uppercase());
                        }
                        1 => {
                            let _ = get_calendar_by_name("zzz");
                            let _ = get_calendar_by_name(&name.to_uppercase());
                        }
                        _ => {
                            let _ = NamedCal::try_new(&format!("{},zzz", name));
                            let _ = get_calendar_by_name("zzz");
                        }
                    }
                }
                let cal = match get_calendar_by_name(name) {
                    Ok(c) => c,
                    Err(_) => {
                        acc.violate("sequence/name-does-not-resolve", idx, cj(), json!({"fetch": k, "name": name}), json!("Err"));
                        continue;
                    }
                };
                let hols: Vec<i64> = (DAY_MIN..=day_max()).filter(|z| weekday(*z) < 5 && cal.is_holiday(&to_ndt(*z))).collect();
                if let Some(m) = models.get(name) {
                    let want: Vec<i64> = m.keys().cloned().filter(|z| weekday(*z) < 5).collect();
                    if hols != want {
                        let diff = hols.iter().find(|z| !want.contains(z)).or(want.iter().find(|z| !hols.contains(z))).cloned().unwrap_or(0);
                        acc.violate(&format!("sequence/{}/differs-from-rules-after-other-names", name), idx, cj(), json!({"fetch": k, "first_differing_date": fmt_day(diff)}), json!(hols.len()));
                    }
                }
                match first_seen.get(*name) {
                    None => {
                        first_seen.insert(name.to_string(), hols);
                    }
                    Some(f) => {
                        if *f != hols {
                            acc.violate(&format!("sequence/{}/differs-from-first-resolution", name), idx, cj(), json!({"fetch": k}), json!(hols.len()));
                        }
                    }
                }
            }
            // calendars resolved on ANOTHER thread (its own first use of every name) answer as the rules say, and a
            // calendar resolved there is the calendar resolved here
            {
                let names: Vec<String> = FULL.iter().map(|s| s.to_string()).collect();
                let got: Vec<(String, Vec<i64>)> = std::thread::spawn(move || {
                    names
                        .iter()
                        .rev()
                        .map(|n| {
                            let c = get_calendar_by_name(n).unwrap();
                            (n.clone(), (DAY_MIN..=day_max()).filter(|z| weekday(*z) < 5 && c.is_holiday(&to_ndt(*z))).collect())
                        })
                        .collect()
                })
                .join()
                .expect("resolver thread");
                for (n, hols) in got.iter() {
                    acc.eval();
                    let want: Vec<i64> = models[n.as_str()].keys().cloned().filter(|z| weekday(*z) < 5).collect();
                    if *hols != want {
                        acc.violate(&format!("sequence/{}/differs-on-another-thread", n), idx, cj(), json!(want.len()), json!(hols.len()));
                    }
                }
            }
            for a in FULL {
                for b in FULL {
                    if a == b {
                        continue;
                    }
                    let union_want: BTreeSet<i64> = models[a].keys().chain(models[b].keys()).cloned().filter(|z| weekday(*z) < 5).collect();
                    for (step, text) in [a.to_string(), format!("{},{}", a, b), a.to_string(), b.to_string(), format!("{},{}", b, a)].iter().enumerate() {
                        acc.eval();
                        let nc = match NamedCal::try_new(text) {
                            Ok(c) => c,
                            Err(_) => {
                                acc.violate("sequence/named-calendar-does-not-build", idx, cj(), json!({"text": text}), json!("Err"));
                                continue;
                            }
                        };
                        let want: BTreeSet<i64> = match step {
                            0 | 2 => models[a].keys().cloned().filter(|z| weekday(*z) < 5).collect(),
                            3 => models[b].keys().cloned().filter(|z| weekday(*z) < 5).collect(),
                            _ => union_want.clone(),
                        };
                        // every modelled holiday and a band of dates around each are compared (all dates would be 42 x 5 x 84k)
                        let mut bad = None;
                        for z in union_want.iter() {
                            if nc.is_holiday(&to_ndt(*z)) != want.contains(z) {
                                bad = Some(*z);
                                break;
                            }
                        }
                        if let Some(z) = bad {
                            acc.violate(&format!("sequence/named/{}", if step == 1 || step == 4 { "pair" } else { "single-after-pair" }), idx, cj(), json!({"text": text, "built_after": format!("{},{}", a, b), "date": fmt_day(z), "want_holiday": want.contains(&z)}), json!(!want.contains(&z)));
                        }
                    }
                    // long composite names (5 and 6 calendars, 19 .. 23 bytes) that differ from one resolved just before
                    // in their FIRST calendar only
                    for tail in [["tgt", "ldn", "nyc", "stk"], ["nyc", "stk", "osl", "zur"]] {
                        if tail.iter().any(|t| *t == a || *t == b) {
                            continue;
                        }
                        for text in [format!("{},{}", a, tail.join(",")), format!("{},{}", b, tail.join(",")), format!("{},{},{}", a, b, tail.join(",")), format!("{},{},{}", b, a, tail.join(","))] {
                            acc.eval();
                            let parts: Vec<&str> = text.split(',').collect();
                            let want: BTreeSet<i64> = parts.iter().flat_map(|c| models[*c].keys().cloned()).filter(|z| weekday(*z) < 5).collect();
                            let every: BTreeSet<i64> = FULL.iter().flat_map(|c| models[*c].keys().cloned()).filter(|z| weekday(*z) < 5).collect();
                            match NamedCal::try_new(&text) {
                                Err(_) => acc.violate("sequence/named/long-name-does-not-build", idx, cj(), json!({"text": text}), json!("Err")),
                                Ok(nc) => {
                                    if let Some(z) = every.iter().find(|z| nc.is_holiday(&to_ndt(**z)) != want.contains(*z)) {
                                        acc.violate("sequence/named/long-name", idx, cj(), json!({"text": text, "date": fmt_day(*z), "want_holiday": want.contains(z)}), json!(!want.contains(z)));
                                    }
                                }
                            }
                        }
                    }
                    // the same pair with the second calendar as settlement calendar, in lower, upper and mixed case
                    let (ua, ub) = (a.to_uppercase(), b.to_uppercase());
                    for text in [format!("{}|{}", a, b), format!("{}|{}", ua, ub), format!("{}|{}", a, ub), format!("{}|{}", ua, b), format!("{}|{}{}", a, &ub[..1], &b[1..])] {
                        acc.eval();
                        match NamedCal::try_new(&text) {
                            Err(_) => acc.violate("sequence/named/piped-does-not-build", idx, cj(), json!({"text": text}), json!("Err")),
                            Ok(nc) => {
                                let bad = union_want.iter().find(|z| {
                                    let d = to_ndt(**z);
                                    nc.is_holiday(&d) != models[a].contains_key(*z) || nc.is_settlement(&d) == models[b].contains_key(*z)
                                });
                                if let Some(z) = bad {
                                    acc.violate("sequence/named/piped", idx, cj(), json!({"text": text, "date": fmt_day(*z), "want_holiday": models[a].contains_key(z), "want_settlement": !models[b].contains_key(z)}), json!({"holiday": nc.is_holiday(&to_ndt(*z)), "settlement": nc.is_settlement(&to_ndt(*z))}));
                                }
                            }
                        }
                    }
                }
            }
        }
        "concurrent-first-use" => {
            // SUPPLEMENTARY, NOT EXHAUSTIVE: 24 threads released together make the process's very first name
            // resolutions. Every documented name must resolve on every thread and the fully modelled calendars must
            // carry their last holidays of the range. (A race in lazily built shared tables can only show here; the
            // interleavings are the scheduler's, they are not enumerated.)
            use rateslib::calendars::NamedCal;
            use std::sync::{Arc, Barrier};
            let all: Vec<String> = FULL.iter().chain(PARTIAL.iter()).cloned().chain(["all", "bus"]).map(|s| s.to_string()).collect();
            let nthreads = 24usize;
            let barrier = Arc::new(Barrier::new(nthreads));
            let late: BTreeMap<String, Vec<i64>> = FULL.iter().map(|c| (c.to_string(), model_holidays(c).keys().cloned().filter(|z| weekday(*z) < 5 && *z > days_from_civil(2149, 6, 6)).collect())).collect();
            let handles: Vec<_> = (0..nthreads)
                .map(|tid| {
                    let (all, barrier, late) = (all.clone(), barrier.clone(), late.clone());
                    std::thread::spawn(move || {
                        barrier.wait();
                        let mut fails: Vec<String> = vec![];
                        for k in 0..all.len() {
                            let name = &all[(k + tid) % all.len()];
                            match NamedCal::try_new(name) {
                                Err(_) => fails.push(format!("thread {}: NamedCal::try_new({:?}) is an error", tid, name)),
                                Ok(c) => {
                                    if let Some(hs) = late.get(name) {
                                        if let Some(z) = hs.iter().find(|z| !c.is_holiday(&to_ndt(**z))) {
                                            fails.push(format!("thread {}: {:?} lacks its holiday {}", tid, name, fmt_day(*z)));
                                        }
                                    }
                                }
                            }
                            if get_calendar_by_name(name).is_err() {
                                fails.push(format!("thread {}: get_calendar_by_name({:?}) is an error", tid, name));
                            }
                        }
                        fails
                    })
                })
                .collect();
            let mut fails: Vec<String> = vec![];
            for h in handles {
                fails.extend(h.join().expect("worker"));
            }
            acc.evals_add((nthreads * all.len()) as u64);
            acc.nontrivial();
            if !fails.is_empty() {
                acc.violate("concurrent-first-use", idx, cj(), json!("every documented name resolves on every thread, with all its holidays"), json!(fails.iter().take(6).collect::<Vec<_>>()));
            }
        }
        "all-bus" => {
            let cal = get_calendar_by_name(&case.cal).unwrap();
            for z in DAY_MIN..=day_max() {
                let d = to_ndt(z);
                acc.eval();
                let want_bus = if case.cal == "all" { true } else { weekday(z) < 5 };
                if !want_bus {
                    acc.nontrivial();
                }
                if cal.is_holiday(&d) || cal.is_bus_day(&d) != want_bus {
                    acc.violate(&format!("{}/not-plain", case.cal), idx, cj(), json!({"date": fmt_day(z), "want_business": want_bus, "want_holiday": false}), json!({"business": cal.is_bus_day(&d), "holiday": cal.is_holiday(&d)}));
                }
            }
        }
        "fed-vs-nyc" => {
            let fed = get_calendar_by_name("fed").unwrap();
            let nyc = get_calendar_by_name("nyc").unwrap();
            for z in DAY_MIN..=day_max() {
                let d = to_ndt(z);
                acc.eval();
                let gf = z == easter(civil_from_days(z).0) - 2;
                if gf {
                    acc.nontrivial();
                }
                let want = nyc.is_holiday(&d) && !gf;
                if fed.is_holiday(&d) != want {
                    acc.violate(if gf { "fed/good-friday" } else { "fed/differs-from-nyc" }, idx, cj(), json!({"date": fmt_day(z), "want_holiday": want}), json!(fed.is_holiday(&d)));
                }
                if gf && !nyc.is_holiday(&d) {
                    acc.violate("nyc/good-friday/missing", idx, cj(), json!({"date": fmt_day(z)}), json!(false));
                }
            }
        }
        "documented" => {
            let cal = get_calendar_by_name(&case.cal).unwrap();
            let model = model_holidays(&case.cal);
            let olympic: BTreeSet<i64> = [days_from_civil(2020, 8, 11), days_from_civil(2021, 8, 11)].into_iter().collect();
            let mut extra = model.clone();
            if case.cal == "tyo" {
                for y in 2016..=2200 {
                    let z = days_from_civil(y, 8, 11);
                    if !olympic.contains(&z) {
                        extra.insert(z, "mountain");
                    }
                }
            }
            for (z, name) in extra.iter() {
                if weekday(*z) >= 5 {
                    continue;
                }
                acc.eval();
                acc.nontrivial();
                acc.outcome(&(case.cal.clone(), *z));
                if !cal.is_holiday(&to_ndt(*z)) {
                    acc.violate(&format!("{}/{}/missing", case.cal, name), idx, cj(), json!({"date": fmt_day(*z), "rule": name, "want": "holiday"}), json!("not a holiday"));
                }
            }
            // weekends are non-business
            for z in DAY_MIN..=day_max() {
                if weekday(z) >= 5 && cal.is_bus_day(&to_ndt(z)) {
                    acc.violate(&format!("{}/weekend-is-business-day", case.cal), idx, cj(), json!({"date": fmt_day(z)}), json!("business"));
                }
            }
        }
        "doc-names" => {
            let path = format!("{}/python/rateslib/calendars/rs.py", repo_root());
            let txt = std::fs::read_to_string(&path).unwrap_or_else(|e| machinery_fail(&format!("cannot read {}: {}", path, e)));
            let mut found = 0;
            for line in txt.lines() {
                let t = line.trim_start();
                if let Some(rest) = t.strip_prefix("- *\"") {
                    if let Some(end) = rest.find("\"*") {
                        let name = &rest[..end];
                        found += 1;
                        acc.eval();
                        acc.nontrivial();
                        acc.outcome(&name.to_string());
                        if get_calendar_by_name(name).is_err() {
                            acc.violate(&format!("doc-name/{}", name), idx, cj(), json!({"name": name, "want": "resolves"}), json!("Err"));
                        }
                    }
                }
            }
            if found < 14 {
                machinery_fail(&format!("only {} documented names found in {}", found, path));
            }
        }
        "fixings" => {
            let (ccy, calname) = FIXINGS.iter().find(|(_, c)| *c == case.cal).unwrap();
            let path = format!("{}/python/rateslib/data/{}_rfr.csv", repo_root(), ccy);
            let txt = std::fs::read_to_string(&path).unwrap_or_else(|e| machinery_fail(&format!("cannot read {}: {}", path, e)));
            let mut pubs: BTreeSet<i64> = BTreeSet::new();
            for line in txt.lines().skip(1) {
                let f = line.split(',').next().unwrap_or("").trim().trim_start_matches('\u{feff}');
                let p: Vec<&str> = f.split('-').collect();
                if p.len() == 3 {
                    if let (Ok(d), Ok(m), Ok(y)) = (p[0].parse::<i64>(), p[1].parse::<i64>(), p[2].parse::<i64>()) {
                        pubs.insert(days_from_civil(y, m, d));
                    }
                }
            }
            if pubs.len() < 100 {
                machinery_fail(&format!("{}: only {} publication dates parsed", path, pubs.len()));
            }
            let cal = get_calendar_by_name(calname).unwrap();
            let (lo, hi) = (*pubs.iter().next().unwrap(), *pubs.iter().next_back().unwrap());
            for z in lo..=hi {
                acc.eval();
                let bus = cal.is_bus_day(&to_ndt(z));
                if !bus && weekday(z) < 5 {
                    acc.nontrivial();
                }
                if bus != pubs.contains(&z) {
                    acc.violate(
                        &format!("fixings/{}/{}", calname, if bus { "business-day-without-publication" } else { "publication-on-non-business-day" }),
                        idx,
                        cj(),
                        json!({"date": fmt_day(z), "published": pubs.contains(&z)}),
                        json!({"business_day": bus}),
                    );
                }
            }
            acc.outcome(&(calname.to_string(), lo, hi));
        }
        other => machinery_fail(&format!("unknown part {}", other)),
    }
    acc.sample(cj);
}

pub fn cases() -> Vec<Case> {
    let mut out = vec![];
    for c in FULL {
        out.push(Case { cal: c.to_string(), part: "rules".into() });
    }
    for c in ["all", "bus"] {
        out.push(Case { cal: c.to_string(), part: "all-bus".into() });
    }
    out.push(Case { cal: "fed".into(), part: "fed-vs-nyc".into() });
    for c in PARTIAL {
        out.push(Case { cal: c.to_string(), part: "documented".into() });
    }
    out.push(Case { cal: "*".into(), part: "doc-names".into() });
    out.push(Case { cal: "*".into(), part: "sequence".into() });
    for (_, c) in FIXINGS {
        out.push(Case { cal: c.to_string(), part: "fixings".into() });
    }
    out
}

pub fn run(ctx: &Ctx, replay_file: Option<String>) -> ! {
    if let Err(e) = crosscheck_chrono() {
        machinery_fail(&format!("chrono vs civil-date model: {}", e));
    }
    if let Some(f) = replay_file {
        replay::<Case, _>(ctx, &f, check);
    }
    let cs = cases();
    // the concurrency smoke pass must be the process's first use of the calendars: it runs before the exploration
    let mut first = Acc::new();
    check(&Case { cal: "*".into(), part: "concurrent-first-use".into() }, 0, &mut first);
    let acc = first.merge(explore(&cs, check));
    let meta = Meta::exploration(
        "EVERY (calendar, date) pair: 14 built-in calendars x all 84 371 dates 1970-01-01..2200-12-31 (both tiers are \
         complete). tgt nyc fed ldn stk osl zur: on every Mon-Fri is_holiday <=> a rule of the transcribed generator \
         script (fixed date + observance function, n-th/last weekday from an anchor, Easter offset, start/end years, \
         one-offs) fires; weekends non-business; weekday non-holidays are business days. all/bus have no holidays. \
         fed == nyc minus Good Friday, date for date. tro tyo syd wlg mum: every weekday occurrence of each documented \
         fixed-date / Easter-linked holiday is a holiday (one-directional). Every name in the get_calendar docstring \
         resolves. Supplementary and NOT exhaustive: before anything else 24 threads released together make the process's first name resolutions (every name must resolve, late holidays present). History independence: on one thread every name is resolved three times (in order, again, reversed) and named calendars 'a', 'a,b', 'a', 'b', 'b,a' are built for every ordered pair of the seven fully modelled calendars (and 'a|b' in lower, upper and mixed case, and names of five and six calendars that differ in their first calendar only); with failing and differently spelt look-ups in between from the second pass on; every object obtained must still answer as its rules say. For the nine (fixing csv, calendar) pairs the calendar's business days over [first, last \
         publication] are exactly the publication dates. Non-trivial: weekday holidays / documented names / weekday \
         non-business days in a fixing period.",
        json!({"calendars": 14, "dates": 84371, "fixing_files": 9}),
    )
    .assume("holiday rules transcribed from rust/calendars/named/*_script.py and the RULES consts (pandas Holiday semantics: observance applied to the fixed date, start/end filters applied to the observed date)")
    .assume("anonymous Gregorian Easter algorithm; civil-date model");
    finish(ctx, acc, meta)
}
