use crate::common::*;

pub mod c19;

pub fn dispatch(ctx: &Ctx, replay: Option<String>) -> ! {
    match ctx.id.as_str() {
        "C19" => c19::run(ctx, replay),
        other => machinery_fail(&format!("unknown property id {}", other)),
    }
}
