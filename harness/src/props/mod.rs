use crate::common::*;

pub mod c01;
pub mod c02;
pub mod c03;
pub mod c04;
pub mod c05;
pub mod c06;
pub mod c07;
pub mod c08;
pub mod c09;
pub mod c10;
pub mod c11;
pub mod c12;
pub mod c13;
pub mod c14;
pub mod c15;
pub mod c16;
pub mod c17;
pub mod c18;
pub mod c19;
pub mod c20;

pub fn dispatch(ctx: &Ctx, replay: Option<String>) -> ! {
    match ctx.id.as_str() {
        "C01" => c01::run(ctx, replay),
        "C02" => c02::run(ctx, replay),
        "C03" => c03::run(ctx, replay),
        "C04" => c04::run(ctx, replay),
        "C05" => c05::run(ctx, replay),
        "C06" => c06::run(ctx, replay),
        "C07" => c07::run(ctx, replay),
        "C08" => c08::run(ctx, replay),
        "C09" => c09::run(ctx, replay),
        "C10" => c10::run(ctx, replay),
        "C11" => c11::run(ctx, replay),
        "C12" => c12::run(ctx, replay),
        "C13" => c13::run(ctx, replay),
        "C14" => c14::run(ctx, replay),
        "C15" => c15::run(ctx, replay),
        "C16" => c16::run(ctx, replay),
        "C17" => c17::run(ctx, replay),
        "C18" => c18::run(ctx, replay),
        "C19" => c19::run(ctx, replay),
        "C20" => c20::run(ctx, replay),
        other => machinery_fail(&format!("unknown property id {}", other)),
    }
}
