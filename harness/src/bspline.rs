//! Exact rational B-spline model: Cox-de Boor recursion on polynomials with i128 rational coefficients
//! per knot span, symbolic differentiation, right-limit evaluation (left limit at the right end point).
#![allow(dead_code)]

use crate::props::c09::gcd;

#[derive(Clone, Copy, Debug, PartialEq)]
pub struct Rat {
    pub n: i128,
    pub d: i128,
}
thread_local! {
    /// set when an exact computation left the i128 range; callers must then discard the case
    pub static RAT_OVERFLOW: std::cell::Cell<bool> = const { std::cell::Cell::new(false) };
}
pub fn rat_overflowed() -> bool {
    RAT_OVERFLOW.with(|f| f.get())
}
pub fn rat_reset() {
    RAT_OVERFLOW.with(|f| f.set(false))
}
fn ovf() -> Rat {
    RAT_OVERFLOW.with(|f| f.set(true));
    Rat { n: 0, d: 1 }
}

impl Rat {
    pub fn new(n: i128, d: i128) -> Rat {
        assert!(d != 0);
        let g = gcd(n, d).max(1);
        let s = if d < 0 { -1 } else { 1 };
        Rat { n: s * (n / g), d: s * (d / g) }
    }
    pub fn int(n: i128) -> Rat {
        Rat { n, d: 1 }
    }
    pub fn zero() -> Rat {
        Rat::int(0)
    }
    fn lin(self, o: Rat, sign: i128) -> Rat {
        // self + sign * o over the lcm-free common denominator, checked
        let g = gcd(self.d, o.d).max(1);
        let (a, b) = (o.d / g, self.d / g);
        match (self.n.checked_mul(a), o.n.checked_mul(b), self.d.checked_mul(a)) {
            (Some(x), Some(y), Some(dd)) => match x.checked_add(sign * y) {
                Some(nn) => Rat::new(nn, dd),
                None => ovf(),
            },
            _ => ovf(),
        }
    }
    pub fn add(self, o: Rat) -> Rat {
        self.lin(o, 1)
    }
    pub fn sub(self, o: Rat) -> Rat {
        self.lin(o, -1)
    }
    pub fn mul(self, o: Rat) -> Rat {
        // cross-reduce first
        let g1 = gcd(self.n, o.d).max(1);
        let g2 = gcd(o.n, self.d).max(1);
        match ((self.n / g1).checked_mul(o.n / g2), (self.d / g2).checked_mul(o.d / g1)) {
            (Some(nn), Some(dd)) => Rat::new(nn, dd),
            _ => ovf(),
        }
    }
    pub fn div(self, o: Rat) -> Rat {
        if o.n == 0 {
            return ovf();
        }
        self.mul(Rat::new(o.d, o.n))
    }
    pub fn is_zero(self) -> bool {
        self.n == 0
    }
    pub fn lt(self, o: Rat) -> bool {
        self.sub(o).n < 0
    }
    pub fn le(self, o: Rat) -> bool {
        self.sub(o).n <= 0
    }
    pub fn f(self) -> f64 {
        self.n as f64 / self.d as f64
    }
}

/// polynomial in x, coefficient of x^p at index p
#[derive(Clone, Debug)]
pub struct Poly(pub Vec<Rat>);
impl Poly {
    pub fn zero() -> Poly {
        Poly(vec![])
    }
    pub fn one() -> Poly {
        Poly(vec![Rat::int(1)])
    }
    pub fn add(&self, o: &Poly) -> Poly {
        let n = self.0.len().max(o.0.len());
        Poly((0..n).map(|i| self.0.get(i).copied().unwrap_or(Rat::zero()).add(o.0.get(i).copied().unwrap_or(Rat::zero()))).collect())
    }
    /// multiply by (a + b x)
    pub fn mul_lin(&self, a: Rat, b: Rat) -> Poly {
        let mut out = vec![Rat::zero(); self.0.len() + 1];
        for (i, c) in self.0.iter().enumerate() {
            out[i] = out[i].add(c.mul(a));
            out[i + 1] = out[i + 1].add(c.mul(b));
        }
        Poly(out)
    }
    pub fn deriv(&self) -> Poly {
        if self.0.len() <= 1 {
            return Poly::zero();
        }
        Poly((1..self.0.len()).map(|i| self.0[i].mul(Rat::int(i as i128))).collect())
    }
    pub fn eval(&self, x: Rat) -> Rat {
        let mut acc = Rat::zero();
        for c in self.0.iter().rev() {
            acc = acc.mul(x).add(*c);
        }
        acc
    }
}

pub struct Basis {
    pub k: usize,
    pub t: Vec<Rat>,
    /// distinct break points
    pub u: Vec<Rat>,
    /// polys[i][s]: B_{i,k} on span [u_s, u_{s+1})
    pub polys: Vec<Vec<Poly>>,
}

impl Basis {
    pub fn new(k: usize, t: &[Rat]) -> Basis {
        let mut u: Vec<Rat> = vec![];
        for x in t {
            if u.last().map_or(true, |l| *l != *x) {
                u.push(*x);
            }
        }
        let ns = u.len() - 1;
        let nt = t.len();
        // order 1
        let mut cur: Vec<Vec<Poly>> = (0..nt - 1)
            .map(|i| (0..ns).map(|s| if t[i].le(u[s]) && u[s].lt(t[i + 1]) { Poly::one() } else { Poly::zero() }).collect())
            .collect();
        for kk in 2..=k {
            let mut next: Vec<Vec<Poly>> = vec![];
            for i in 0..(nt - kk) {
                let mut row = vec![];
                for s in 0..ns {
                    let mut p = Poly::zero();
                    let d1 = t[i + kk - 1].sub(t[i]);
                    if !d1.is_zero() {
                        // (x - t_i)/d1
                        p = p.add(&cur[i][s].mul_lin(Rat::zero().sub(t[i]).div(d1), Rat::int(1).div(d1)));
                    }
                    let d2 = t[i + kk].sub(t[i + 1]);
                    if !d2.is_zero() {
                        // (t_{i+k} - x)/d2
                        p = p.add(&cur[i + 1][s].mul_lin(t[i + kk].div(d2), Rat::int(-1).div(d2)));
                    }
                    row.push(p);
                }
                next.push(row);
            }
            cur = next;
        }
        Basis { k, t: t.to_vec(), u, polys: cur }
    }
    pub fn n(&self) -> usize {
        self.t.len() - self.k
    }
    /// span used for x: right limit, left limit at the right end point
    pub fn span_of(&self, x: Rat) -> Option<usize> {
        let last = *self.u.last().unwrap();
        if x.lt(self.u[0]) || last.lt(x) {
            return None;
        }
        if x == last {
            return Some(self.u.len() - 2);
        }
        (0..self.u.len() - 1).find(|s| self.u[*s].le(x) && x.lt(self.u[*s + 1]))
    }
    /// m-th derivative of basis function i at x
    pub fn eval(&self, i: usize, m: usize, x: Rat) -> Rat {
        match self.span_of(x) {
            None => Rat::zero(),
            Some(s) => {
                let mut p = self.polys[i][s].clone();
                for _ in 0..m {
                    p = p.deriv();
                }
                p.eval(x)
            }
        }
    }
}

pub const GRID8: [i128; 5] = [0, 8, 12, 24, 32]; // the grid {0, 1, 1.5, 3, 4} in eighths

/// knot vector (in eighths) with k-fold ends and the given interior (position index 1..=3, multiplicity)
pub fn knots(k: usize, interior: &[(usize, usize)]) -> Vec<Rat> {
    let mut t = vec![Rat::new(GRID8[0], 8); k];
    for (pos, mult) in interior {
        for _ in 0..*mult {
            t.push(Rat::new(GRID8[*pos], 8));
        }
    }
    t.extend(vec![Rat::new(GRID8[4], 8); k]);
    t
}

/// all admissible interior configurations for order k: every subset of the 3 interior grid positions,
/// every multiplicity 1..=max(1, k-1) per chosen knot
pub fn interior_configs(k: usize) -> Vec<Vec<(usize, usize)>> {
    let maxm = (k.max(2)) - 1;
    let mut out = vec![];
    for mask in 0..8u8 {
        let pos: Vec<usize> = (1..=3).filter(|p| mask & (1 << (p - 1)) != 0).collect();
        let combos = maxm.pow(pos.len() as u32);
        for c in 0..combos {
            let mut cc = c;
            out.push(pos.iter().map(|p| { let m = cc % maxm + 1; cc /= maxm; (*p, m) }).collect());
        }
    }
    out
}

/// evaluation points: every break point and the 1/4, 1/2, 3/4 points of every span
pub fn eval_points(u: &[Rat]) -> Vec<Rat> {
    let mut p = vec![];
    for s in 0..u.len() {
        p.push(u[s]);
        if s + 1 < u.len() {
            let d = u[s + 1].sub(u[s]);
            for q in 1..4 {
                p.push(u[s].add(d.mul(Rat::new(q, 4))));
            }
        }
    }
    p
}
