//! Expression-program explorer shared by C01 (Dual) and C02 (Dual2 paired with Dual).
//!
//! A program is an operator applied to already-built programs (breadth-first closure of a pool);
//! every program of every level is executed on the real type and compared, in lock step, with the
//! reference `RefDual`, with the plain-f64 evaluation, and (for <= 2 operators) with finite
//! differences of the plain program (which validates the reference rules themselves).
#![allow(dead_code)]

use crate::common::*;
use crate::refdual::*;
use num_traits::{Pow, Signed};
use rateslib::dual::{Dual, Dual2, Gradient1, Gradient2, MathFuncs, Vars};
use rayon::prelude::*;
use serde::{Deserialize, Serialize};
use serde_json::json;

pub const LITS: [f64; 3] = [0.5, -1.5, 2.0];
pub const NUN: u8 = 10; // neg pow2 pow3 pow-1 pow.5 exp log ncdf incdf abs
pub const UN_NAMES: [&str; 10] = ["neg", "pow2", "pow3", "pow-1", "pow0.5", "exp", "log", "norm_cdf", "inv_norm_cdf", "abs"];
pub const BIN_NAMES: [&str; 4] = ["add", "sub", "mul", "div"];

pub fn uni() -> Vec<String> {
    vec!["x".to_string(), "y".to_string(), "w".to_string()]
}

#[derive(Clone, Copy, Debug, Serialize, Deserialize, PartialEq)]
pub enum Node {
    Leaf(u8),
    Un(u8, u32),
    BinDD(u8, u32, u32),
    BinDF(u8, u32, u8),
    BinFD(u8, u8, u32),
}

#[derive(Clone, Debug, Serialize, Deserialize)]
pub enum Expr {
    Leaf(u8),
    Lit(f64),
    Un(String, Box<Expr>),
    Bin(String, Box<Expr>, Box<Expr>),
}

#[derive(Clone, Debug, Serialize, Deserialize)]
pub struct Case {
    pub expr: Expr,
    /// when present: replay the history-independence pass - evaluate, sequentially and each from fresh
    /// leaves with all temporaries dropped, the first `n + 1` programs of the canonical (<= 2 operator) order
    #[serde(default)]
    pub fresh_sequence_upto: Option<u64>,
    /// leaf value table (0 ordinary, 1 widely different magnitudes)
    #[serde(default)]
    pub leafset: u8,
    /// when present: the many-names pass (size, stored order) of largeops.rs
    #[serde(default)]
    pub large: Option<(usize, u8)>,
}

pub trait RN: Clone + Send + Sync {
    const SECOND: bool;
    fn make_leaves() -> Vec<Self>;
    fn un(&self, op: u8, own: bool) -> Self;
    fn bin(a: &Self, b: &Self, op: u8, form: u8) -> Self;
    fn bin_df(a: &Self, f: f64, op: u8, form: u8) -> Self;
    fn bin_fd(f: f64, b: &Self, op: u8, form: u8) -> Self;
    fn constant(f: f64) -> Self;
    fn value(&self) -> f64;
    fn judge(&self, rf: &RefDual, pv: f64) -> Result<(), (String, String)>;
    fn ohash(&self) -> u64;
}

macro_rules! impl_raw_ops {
    ($T:ty, $un:ident, $bin:ident, $bdf:ident, $bfd:ident) => {
        fn $un(x: &$T, op: u8, own: bool) -> $T {
            match (op, own) {
                (0, false) => -x,
                (0, true) => -(x.clone()),
                (1, false) => x.pow(2.0),
                (1, true) => x.clone().pow(2.0),
                (2, false) => x.pow(3.0),
                (2, true) => x.clone().pow(3.0),
                (3, false) => x.pow(-1.0),
                (3, true) => x.clone().pow(-1.0),
                (4, false) => x.pow(0.5),
                (4, true) => x.clone().pow(0.5),
                (5, _) => x.exp(),
                (6, _) => x.log(),
                (7, _) => x.norm_cdf(),
                (8, _) => x.inv_norm_cdf(),
                _ => x.abs(),
            }
        }
        fn $bin(a: &$T, b: &$T, op: u8, form: u8) -> $T {
            match (op, form) {
                (0, 0) => a + b,
                (0, 1) => a + b.clone(),
                (0, 2) => a.clone() + b,
                (0, _) => a.clone() + b.clone(),
                (1, 0) => a - b,
                (1, 1) => a - b.clone(),
                (1, 2) => a.clone() - b,
                (1, _) => a.clone() - b.clone(),
                (2, 0) => a * b,
                (2, 1) => a * b.clone(),
                (2, 2) => a.clone() * b,
                (2, _) => a.clone() * b.clone(),
                (_, 0) => a / b,
                (_, 1) => a / b.clone(),
                (_, 2) => a.clone() / b,
                (_, _) => a.clone() / b.clone(),
            }
        }
        fn $bdf(a: &$T, f: f64, op: u8, form: u8) -> $T {
            match (op, form) {
                (0, 0) => a + &f,
                (0, 1) => a + f,
                (0, 2) => a.clone() + &f,
                (0, _) => a.clone() + f,
                (1, 0) => a - &f,
                (1, 1) => a - f,
                (1, 2) => a.clone() - &f,
                (1, _) => a.clone() - f,
                (2, 0) => a * &f,
                (2, 1) => a * f,
                (2, 2) => a.clone() * &f,
                (2, _) => a.clone() * f,
                (_, 0) => a / &f,
                (_, 1) => a / f,
                (_, 2) => a.clone() / &f,
                (_, _) => a.clone() / f,
            }
        }
        fn $bfd(f: f64, b: &$T, op: u8, form: u8) -> $T {
            match (op, form) {
                (0, 0) => &f + b,
                (0, 1) => &f + b.clone(),
                (0, 2) => f + b,
                (0, _) => f + b.clone(),
                (1, 0) => &f - b,
                (1, 1) => &f - b.clone(),
                (1, 2) => f - b,
                (1, _) => f - b.clone(),
                (2, 0) => &f * b,
                (2, 1) => &f * b.clone(),
                (2, 2) => f * b,
                (2, _) => f * b.clone(),
                (_, 0) => &f / b,
                (_, 1) => &f / b.clone(),
                (_, 2) => f / b,
                (_, _) => f / b.clone(),
            }
        }
    };
}

impl_raw_ops!(Dual, un1, bin1, bdf1, bfd1);
impl_raw_ops!(Dual2, un2, bin2, bdf2, bfd2);

pub const TOL_V: f64 = 1e-12;
pub const TOL_G: f64 = 1e-9;
pub const TOL_H: f64 = 1e-8;

fn s(x: &str) -> String {
    x.to_string()
}

/// first-order oracle: value vs plain f64, gradient read back by name in a shuffled order with an
/// absent name, shapes.
fn judge_dual(d: &Dual, rf: &RefDual, pv: f64) -> Result<(), (String, String)> {
    if !scaled_close(d.real(), pv, TOL_V, rf.mag.v) {
        return Err((s("value"), format!("value {:e} != plain f64 evaluation {:e}", d.real(), pv)));
    }
    if d.dual().len() != d.vars().len() {
        return Err((s("shape"), format!("dual.len() {} != vars.len() {}", d.dual().len(), d.vars().len())));
    }
    let g = d.gradient1(vec![s("w"), s("q"), s("y"), s("x")]);
    let want = [rf.val.g[2], 0.0, rf.val.g[1], rf.val.g[0]];
    let mag = [rf.mag.g[2], 0.0, rf.mag.g[1], rf.mag.g[0]];
    let nm = ["w", "q(absent)", "y", "x"];
    for i in 0..4 {
        if !scaled_close(g[i], want[i], TOL_G, mag[i]) {
            return Err((s("gradient"), format!("d/d{} = {:e} != true partial {:e}", nm[i], g[i], want[i])));
        }
    }
    for v in d.vars().iter() {
        if !["x", "y", "w"].contains(&v.as_str()) {
            return Err((s("names"), format!("unexpected variable {:?}", v)));
        }
    }
    Ok(())
}

fn judge_dual2(d: &Dual2, rf: &RefDual, pv: f64) -> Result<(), (String, String)> {
    if !scaled_close(d.real(), pv, TOL_V, rf.mag.v) {
        return Err((s("value"), format!("value {:e} != plain f64 evaluation {:e}", d.real(), pv)));
    }
    let n = d.vars().len();
    if d.dual().len() != n || d.dual2().shape() != [n, n] {
        return Err((s("shape"), format!("vars {} dual {} dual2 {:?}", n, d.dual().len(), d.dual2().shape())));
    }
    let order = [2usize, 3, 1, 0]; // w q y x ; 3 == absent
    let names = vec![s("w"), s("q"), s("y"), s("x")];
    let g = d.gradient1(names.clone());
    for (k, i) in order.iter().enumerate() {
        let (w, m) = if *i == 3 { (0.0, 0.0) } else { (rf.val.g[*i], rf.mag.g[*i]) };
        if !scaled_close(g[k], w, TOL_G, m) {
            return Err((s("gradient"), format!("d/d{} = {:e} != true partial {:e}", names[k], g[k], w)));
        }
    }
    let h = d.gradient2(names.clone());
    for (k, i) in order.iter().enumerate() {
        for (l, j) in order.iter().enumerate() {
            let (w, m) = if *i == 3 || *j == 3 { (0.0, 0.0) } else { (rf.val.h[*i][*j], rf.mag.h[*i][*j]) };
            if !scaled_close(h[[k, l]], w, TOL_H, m) {
                return Err((
                    if k == l { s("hessian-diagonal") } else { s("hessian-cross") },
                    format!("d2/d{}d{} = {:e} != true second partial {:e}", names[k], names[l], h[[k, l]], w),
                ));
            }
            let m2 = m.max(w.abs());
            if !close_scaled(h[[k, l]], h[[l, k]], 1e-12, m2.max(f64::MIN_POSITIVE)) && h[[k, l]] != h[[l, k]] {
                return Err((s("hessian-symmetry"), format!("H[{},{}]={:e} but H[{},{}]={:e}", names[k], names[l], h[[k, l]], names[l], names[k], h[[l, k]])));
            }
        }
    }
    Ok(())
}

impl RN for Dual {
    const SECOND: bool = false;
    fn make_leaves() -> Vec<Dual> {
        let t = LT[leafset()];
        let l3 = Dual::try_new(t[3], vec![s("y"), s("x")], vec![t[5], t[6]]).unwrap();
        let l5 = Dual::new_from(&l3, t[0], vec![s("x")]);
        vec![
            Dual::new(t[0], vec![s("x")]),
            Dual::new(t[1], vec![s("y")]),
            Dual::new(t[2], vec![s("w")]),
            l3,
            Dual::new(t[4], vec![]),
            l5,
            Dual::new(0.0, vec![s("y")]),
            Dual::new(1.0, vec![s("x")]),
        ]
    }
    fn un(&self, op: u8, own: bool) -> Self {
        un1(self, op, own)
    }
    fn bin(a: &Self, b: &Self, op: u8, form: u8) -> Self {
        bin1(a, b, op, form)
    }
    fn bin_df(a: &Self, f: f64, op: u8, form: u8) -> Self {
        bdf1(a, f, op, form)
    }
    fn bin_fd(f: f64, b: &Self, op: u8, form: u8) -> Self {
        bfd1(f, b, op, form)
    }
    fn constant(f: f64) -> Self {
        Dual::new(f, vec![])
    }
    fn value(&self) -> f64 {
        self.real()
    }
    fn judge(&self, rf: &RefDual, pv: f64) -> Result<(), (String, String)> {
        judge_dual(self, rf, pv)
    }
    fn ohash(&self) -> u64 {
        let g = self.gradient1(uni());
        hash_f64s(&[self.real(), g[0], g[1], g[2]])
    }
}

/// second-order number run in lock step with the first-order run of the same program
#[derive(Clone)]
pub struct Pair {
    pub d2: Dual2,
    pub d1: Dual,
}


impl RN for Pair {
    const SECOND: bool = true;
    fn make_leaves() -> Vec<Pair> {
        let d1 = Dual::make_leaves();
        // leaf 3: names [y, x]; stored half-Hessian in that order
        let t = LT[leafset()];
        let l3 = Dual2::try_new(t[3], vec![s("y"), s("x")], vec![t[5], t[6]], vec![0.5 * t[7], 0.5 * t[8], 0.5 * t[8], 0.5 * t[9]]).unwrap();
        let l5 = Dual2::new_from(&l3, t[0], vec![s("x")]);
        let d2 = vec![
            Dual2::new(t[0], vec![s("x")]),
            Dual2::new(t[1], vec![s("y")]),
            Dual2::new(t[2], vec![s("w")]),
            l3,
            Dual2::new(t[4], vec![]),
            l5,
            Dual2::new(0.0, vec![s("y")]),
            Dual2::new(1.0, vec![s("x")]),
        ];
        d2.into_iter().zip(d1).map(|(d2, d1)| Pair { d2, d1 }).collect()
    }
    fn un(&self, op: u8, own: bool) -> Self {
        Pair { d2: un2(&self.d2, op, own), d1: un1(&self.d1, op, own) }
    }
    fn bin(a: &Self, b: &Self, op: u8, form: u8) -> Self {
        Pair { d2: bin2(&a.d2, &b.d2, op, form), d1: bin1(&a.d1, &b.d1, op, form) }
    }
    fn bin_df(a: &Self, f: f64, op: u8, form: u8) -> Self {
        Pair { d2: bdf2(&a.d2, f, op, form), d1: bdf1(&a.d1, f, op, form) }
    }
    fn bin_fd(f: f64, b: &Self, op: u8, form: u8) -> Self {
        Pair { d2: bfd2(f, &b.d2, op, form), d1: bfd1(f, &b.d1, op, form) }
    }
    fn constant(f: f64) -> Self {
        Pair { d2: Dual2::new(f, vec![]), d1: Dual::new(f, vec![]) }
    }
    fn value(&self) -> f64 {
        self.d2.real()
    }
    fn judge(&self, rf: &RefDual, pv: f64) -> Result<(), (String, String)> {
        judge_dual2(&self.d2, rf, pv)?;
        // same value and gradient as the first-order type
        let r1 = rf.drop_hessian();
        judge_dual(&self.d1, &r1, pv).map_err(|(k, m)| (format!("first-order-run/{}", k), m))?;
        let u = uni();
        let (g2, g1) = (self.d2.gradient1(u.clone()), self.d1.gradient1(u.clone()));
        if !scaled_close(self.d2.real(), self.d1.real(), TOL_V, rf.mag.v) {
            return Err((s("order-consistency/value"), format!("Dual2 value {:e} vs Dual value {:e}", self.d2.real(), self.d1.real())));
        }
        for i in 0..3 {
            if !scaled_close(g2[i], g1[i], TOL_G, rf.mag.g[i]) {
                return Err((s("order-consistency/gradient"), format!("d/d{}: Dual2 {:e} vs Dual {:e}", u[i], g2[i], g1[i])));
            }
        }
        // converting down loses nothing but the Hessian (exact)
        for conv in [Dual::from(self.d2.clone()), Dual::from(&self.d2)] {
            let names_same = conv.vars().iter().eq(self.d2.vars().iter());
            let grads_same = conv.dual().iter().zip(self.d2.dual().iter()).all(|(a, b)| a.to_bits() == b.to_bits())
                && conv.dual().len() == self.d2.dual().len();
            if !(names_same && grads_same && conv.real().to_bits() == self.d2.real().to_bits()) {
                return Err((s("convert-down"), format!("Dual::from(Dual2) = {:?} from {:?}", conv, self.d2)));
            }
        }
        Ok(())
    }
    fn ohash(&self) -> u64 {
        let g = self.d2.gradient1(uni());
        let h = self.d2.gradient2(uni());
        hash_f64s(&[self.d2.real(), g[0], g[1], g[2], h[[0, 0]], h[[0, 1]], h[[0, 2]], h[[1, 1]], h[[1, 2]], h[[2, 2]]])
    }
}

// ---- reference leaves & plain evaluation ---------------------------------------------------

/// leaf value tables: 0 = ordinary magnitudes, 1 = widely different magnitudes
pub static LEAFSET: std::sync::atomic::AtomicU8 = std::sync::atomic::AtomicU8::new(0);
pub fn leafset() -> usize {
    LEAFSET.load(std::sync::atomic::Ordering::Relaxed) as usize
}
pub fn set_leafset(k: u8) {
    LEAFSET.store(k, std::sync::atomic::Ordering::Relaxed)
}
/// per table: x, y, w, v, const, d v/dy, d v/dx, H_yy, H_yx, H_xx of the two-name leaf
pub const LT: [[f64; 10]; 2] = [
    [0.7, 1.3, -0.6, 2.1, 0.9, 2.0, -1.0, 0.5, -0.25, 1.5],
    [1.5e6, 2.5e-6, -4.0e3, 7.0e-3, 3.0e5, 2.0e3, -1.0e-9, 5.0e8, -2.5e-4, 1.5e-13],
];
pub fn x0() -> [f64; 3] {
    let t = LT[leafset()];
    [t[0], t[1], t[2]]
}

fn ref_leaf(i: u8, second: bool) -> RefDual {
    let t = LT[leafset()];
    match i {
        0 => RefDual::leaf(t[0], &[(0, 1.0)]),
        1 => RefDual::leaf(t[1], &[(1, 1.0)]),
        2 => RefDual::leaf(t[2], &[(2, 1.0)]),
        3 => {
            let r = RefDual::leaf(t[3], &[(1, t[5]), (0, t[6])]);
            if second {
                r.with_hess(&[(1, 1, t[7]), (1, 0, t[8]), (0, 0, t[9])])
            } else {
                r
            }
        }
        4 => RefDual::constant(t[4]),
        5 => RefDual::leaf(t[0], &[(1, 0.0), (0, 1.0)]),
        6 => RefDual::leaf(0.0, &[(1, 1.0)]),
        _ => RefDual::leaf(1.0, &[(0, 1.0)]),
    }
}

/// leaves as plain functions of the three independent variables
fn plain_leaf(i: u8, p: &[f64; 3], second: bool) -> f64 {
    let t = LT[leafset()];
    match i {
        0 => p[0],
        1 => p[1],
        2 => p[2],
        3 => {
            let (dx, dy) = (p[0] - t[0], p[1] - t[1]);
            let mut v = t[3] + t[5] * dy + t[6] * dx;
            if second {
                v += 0.5 * (t[7] * dy * dy + 2.0 * t[8] * dx * dy + t[9] * dx * dx);
            }
            v
        }
        4 => t[4],
        5 => p[0],
        6 => p[1] - t[1],
        _ => p[0] - t[0] + 1.0,
    }
}

fn plain_un(op: u8, a: f64) -> f64 {
    match op {
        0 => -a,
        1 => a.powf(2.0),
        2 => a.powf(3.0),
        3 => a.powf(-1.0),
        4 => a.powf(0.5),
        5 => a.exp(),
        6 => a.ln(),
        7 => phi_cdf(a),
        8 => phi_inv(a),
        _ => a.abs(),
    }
}
fn plain_bin(op: u8, a: f64, b: f64) -> f64 {
    match op {
        0 => a + b,
        1 => a - b,
        2 => a * b,
        _ => a / b,
    }
}
fn ref_un(op: u8, a: &RefDual) -> RefDual {
    match op {
        0 => a.neg(),
        1 => a.powf(2.0),
        2 => a.powf(3.0),
        3 => a.powf(-1.0),
        4 => a.powf(0.5),
        5 => a.exp(),
        6 => a.ln(),
        7 => a.norm_cdf(),
        8 => a.inv_norm_cdf(),
        _ => a.abs(),
    }
}
fn ref_bin(op: u8, a: &RefDual, b: &RefDual) -> RefDual {
    match op {
        0 => a.add(b),
        1 => a.sub(b),
        2 => a.mul(b),
        _ => a.div(b),
    }
}

/// operand is not the product of catastrophic cancellation (needed where the operator has a
/// singular or non-differentiable point at 0 / at the ends of (0,1))
fn solid(r: &RefDual) -> bool {
    r.val.v.abs() > 1e-6 * r.mag.v && r.val.v.abs() > 1e-9
}
fn un_domain(op: u8, a: &RefDual) -> bool {
    let v = a.val.v;
    match op {
        3 => solid(a),
        4 | 6 => v > 0.0 && solid(a),
        8 => v > 0.0 && v < 1.0 && solid(a) && (1.0 - v) > 1e-6 * (1.0 + a.mag.v),
        9 => solid(a),
        5 => v < 600.0,
        _ => true,
    }
}

pub struct Ent<T> {
    pub node: Node,
    pub real: T,
    pub rf: RefDual,
    pub pv: f64,
}

pub struct Pool<T> {
    pub ents: Vec<Ent<T>>,
    pub lvl: Vec<(usize, usize)>, // [start, end) of each level
}

impl<T: RN> Pool<T> {
    pub fn expr(&self, n: &Node) -> Expr {
        match n {
            Node::Leaf(i) => Expr::Leaf(*i),
            Node::Un(op, a) => Expr::Un(UN_NAMES[*op as usize].to_string(), Box::new(self.expr(&self.ents[*a as usize].node))),
            Node::BinDD(op, a, b) => Expr::Bin(
                BIN_NAMES[*op as usize].to_string(),
                Box::new(self.expr(&self.ents[*a as usize].node)),
                Box::new(self.expr(&self.ents[*b as usize].node)),
            ),
            Node::BinDF(op, a, l) => Expr::Bin(
                BIN_NAMES[*op as usize].to_string(),
                Box::new(self.expr(&self.ents[*a as usize].node)),
                Box::new(Expr::Lit(LITS[*l as usize])),
            ),
            Node::BinFD(op, l, b) => Expr::Bin(
                BIN_NAMES[*op as usize].to_string(),
                Box::new(Expr::Lit(LITS[*l as usize])),
                Box::new(self.expr(&self.ents[*b as usize].node)),
            ),
        }
    }
    fn plain(&self, n: &Node, p: &[f64; 3]) -> f64 {
        match n {
            Node::Leaf(i) => plain_leaf(*i, p, T::SECOND),
            Node::Un(op, a) => plain_un(*op, self.plain(&self.ents[*a as usize].node, p)),
            Node::BinDD(op, a, b) => plain_bin(*op, self.plain(&self.ents[*a as usize].node, p), self.plain(&self.ents[*b as usize].node, p)),
            Node::BinDF(op, a, l) => plain_bin(*op, self.plain(&self.ents[*a as usize].node, p), LITS[*l as usize]),
            Node::BinFD(op, l, b) => plain_bin(*op, LITS[*l as usize], self.plain(&self.ents[*b as usize].node, p)),
        }
    }
}

/// decode the i-th task of level k (k operators)
fn task_count<T>(pool: &Pool<T>, k: usize) -> u64 {
    let n = |l: usize| (pool.lvl[l].1 - pool.lvl[l].0) as u64;
    let mut c = NUN as u64 * n(k - 1);
    for i in 0..k {
        let j = k - 1 - i;
        c += 4 * n(i) * n(j);
    }
    c += 2 * 4 * LITS.len() as u64 * n(k - 1);
    c
}

fn task_at<T>(pool: &Pool<T>, k: usize, mut i: u64) -> Node {
    let n = |l: usize| (pool.lvl[l].1 - pool.lvl[l].0) as u64;
    let s = |l: usize| pool.lvl[l].0 as u64;
    let c = NUN as u64 * n(k - 1);
    if i < c {
        return Node::Un((i % NUN as u64) as u8, (s(k - 1) + i / NUN as u64) as u32);
    }
    i -= c;
    for a in 0..k {
        let b = k - 1 - a;
        let c = 4 * n(a) * n(b);
        if i < c {
            let op = (i % 4) as u8;
            let r = i / 4;
            return Node::BinDD(op, (s(a) + r / n(b)) as u32, (s(b) + r % n(b)) as u32);
        }
        i -= c;
    }
    let c = 4 * LITS.len() as u64 * n(k - 1);
    if i < c {
        let op = (i % 4) as u8;
        let r = i / 4;
        return Node::BinDF(op, (s(k - 1) + r / 3) as u32, (r % 3) as u8);
    }
    i -= c;
    let op = (i % 4) as u8;
    let r = i / 4;
    Node::BinFD(op, (r % 3) as u8, (s(k - 1) + r / 3) as u32)
}

struct Built<T> {
    real: T,
    rf: RefDual,
    pv: f64,
}

/// Build + check one program whose root is `node`. Returns the canonical result for the pool.
fn build_and_check<T: RN>(pool: &Pool<T>, node: &Node, k: usize, expand_forms: bool, prop: &str, idx: u64, acc: &mut Acc) -> Option<Built<T>> {
    let e = |i: &u32| &pool.ents[*i as usize];
    // reference + domain
    let (rf, pv) = match node {
        Node::Leaf(_) => unreachable!(),
        Node::Un(op, a) => {
            let a = e(a);
            if !un_domain(*op, &a.rf) {
                acc.skip();
                return None;
            }
            (ref_un(*op, &a.rf), plain_un(*op, a.pv))
        }
        Node::BinDD(op, a, b) => {
            let (a, b) = (e(a), e(b));
            if *op == 3 && !solid(&b.rf) {
                acc.skip();
                return None;
            }
            (ref_bin(*op, &a.rf, &b.rf), plain_bin(*op, a.pv, b.pv))
        }
        Node::BinDF(op, a, l) => {
            let a = e(a);
            let f = LITS[*l as usize];
            (ref_bin(*op, &a.rf, &RefDual::constant(f)), plain_bin(*op, a.pv, f))
        }
        Node::BinFD(op, l, b) => {
            let b = e(b);
            let f = LITS[*l as usize];
            if *op == 3 && !solid(&b.rf) {
                acc.skip();
                return None;
            }
            (ref_bin(*op, &RefDual::constant(f), &b.rf), plain_bin(*op, f, b.pv))
        }
    };
    if !finite(&rf) || !pv.is_finite() || rf.mag.v > 1e150 {
        acc.skip();
        return None;
    }
    let nforms: u8 = match node {
        Node::Un(op, _) => {
            if expand_forms && *op <= 4 {
                2
            } else {
                1
            }
        }
        _ => {
            if expand_forms {
                4
            } else {
                1
            }
        }
    };
    let run = |form: u8| -> T {
        match node {
            Node::Leaf(_) => unreachable!(),
            Node::Un(op, a) => e(a).real.un(*op, form == 1),
            Node::BinDD(op, a, b) => T::bin(&e(a).real, &e(b).real, *op, form),
            Node::BinDF(op, a, l) => T::bin_df(&e(a).real, LITS[*l as usize], *op, form),
            Node::BinFD(op, l, b) => T::bin_fd(LITS[*l as usize], &e(b).real, *op, form),
        }
    };
    let opname = match node {
        Node::Un(op, _) => UN_NAMES[*op as usize].to_string(),
        Node::BinDD(op, _, _) => format!("{}/dual-dual", BIN_NAMES[*op as usize]),
        Node::BinDF(op, _, _) => format!("{}/dual-float", BIN_NAMES[*op as usize]),
        Node::BinFD(op, _, _) => format!("{}/float-dual", BIN_NAMES[*op as usize]),
        _ => String::new(),
    };
    let mut canonical: Option<T> = None;
    for form in 0..nforms {
        acc.eval();
        match guarded(|| run(form)) {
            Err(msg) => {
                acc.violate(&format!("{}/panic/{}", prop, opname), idx, json!({"expr": pool.expr(node), "form": form, "leafset": leafset()}), json!("a value"), json!(msg));
            }
            Ok(got) => {
                if let Err((kind, msg)) = got.judge(&rf, pv) {
                    acc.violate(
                        &format!("{}/{}/{}{}", prop, kind, opname, if form == 0 { "" } else { "/owned-form" }),
                        idx,
                        json!({"expr": pool.expr(node), "form": form, "leafset": leafset()}),
                        json!({"value": pv, "gradient_xyw": [rf.val.g[0], rf.val.g[1], rf.val.g[2]]}),
                        json!(msg),
                    );
                }
                if form == 0 {
                    canonical = Some(got);
                }
            }
        }
    }
    // float in either position == promoting the float to a constant dual
    match node {
        Node::BinDF(op, a, l) => {
            acc.eval();
            let c = T::constant(LITS[*l as usize]);
            if let Ok(got) = guarded(|| T::bin(&e(a).real, &c, *op, 0)) {
                if let Err((kind, msg)) = got.judge(&rf, pv) {
                    acc.violate(&format!("{}/promoted-constant/{}/{}", prop, kind, opname), idx, json!({"expr": pool.expr(node), "promoted": true, "leafset": leafset()}), json!(pv), json!(msg));
                }
            }
        }
        Node::BinFD(op, l, b) => {
            acc.eval();
            let c = T::constant(LITS[*l as usize]);
            if let Ok(got) = guarded(|| T::bin(&c, &e(b).real, *op, 0)) {
                if let Err((kind, msg)) = got.judge(&rf, pv) {
                    acc.violate(&format!("{}/promoted-constant/{}/{}", prop, kind, opname), idx, json!({"expr": pool.expr(node), "promoted": true, "leafset": leafset()}), json!(pv), json!(msg));
                }
            }
        }
        _ => {}
    }
    let real = canonical?;
    if k >= 2 && rf.mask.count_ones() >= 2 {
        let cross = T::SECOND && (rf.val.h[0][1] != 0.0 || rf.val.h[0][2] != 0.0 || rf.val.h[1][2] != 0.0);
        if !T::SECOND || cross {
            acc.nontrivial();
        }
    }
    acc.outcome(&real.ohash());
    Some(Built { real, rf, pv })
}

/// finite-difference validation of the REFERENCE rules on all programs of <= 2 operators
fn fd_validate<T: RN>(pool: &Pool<T>, upto_level: usize) -> (u64, Option<String>) {
    let mut n = 0u64;
    for e in pool.ents[..pool.lvl[upto_level].1].iter() {
        let f = |p: &[f64; 3]| pool.plain(&e.node, p);
        // skip points where some operand sits near a kink / pole: detect by large local curvature
        let hmax = (0..3).map(|i| (0..3).map(|j| e.rf.val.h[i][j].abs()).fold(0.0, f64::max)).fold(0.0, f64::max);
        let gmax = (0..3).map(|i| e.rf.val.g[i].abs()).fold(0.0, f64::max);
        if hmax > 1e4 * (1.0 + gmax) || e.rf.mag.v > 1e6 {
            continue;
        }
        let h = 1e-5;
        for i in 0..3 {
            let mut pp = x0();
            let mut pm = x0();
            pp[i] += h;
            pm[i] -= h;
            let fd = (f(&pp) - f(&pm)) / (2.0 * h);
            if !fd.is_finite() {
                continue;
            }
            n += 1;
            let tol = 2e-4 * (1.0 + e.rf.val.g[i].abs() + e.rf.mag.g[i] + hmax + e.rf.mag.v);
            if (fd - e.rf.val.g[i]).abs() > tol {
                return (n, Some(format!("reference gradient disagrees with finite differences for {:?}: d/d{} ref {:e} fd {:e}", pool.expr(&e.node), i, e.rf.val.g[i], fd)));
            }
        }
        if T::SECOND {
            let h = 1e-4;
            for i in 0..3 {
                for j in i..3 {
                    let g = |si: f64, sj: f64| {
                        let mut p = x0();
                        p[i] += si * h;
                        p[j] += sj * h;
                        f(&p)
                    };
                    let fd = if i == j {
                        (g(1.0, 0.0) - 2.0 * f(&x0()) + g(-1.0, 0.0)) / (h * h)
                    } else {
                        (g(1.0, 1.0) - g(1.0, -1.0) - g(-1.0, 1.0) + g(-1.0, -1.0)) / (4.0 * h * h)
                    };
                    if !fd.is_finite() {
                        continue;
                    }
                    n += 1;
                    let tol = 5e-3 * (1.0 + e.rf.val.h[i][j].abs() + e.rf.mag.h[i][j] + e.rf.mag.v + gmax);
                    if (fd - e.rf.val.h[i][j]).abs() > tol {
                        return (n, Some(format!("reference Hessian disagrees with finite differences for {:?}: [{},{}] ref {:e} fd {:e}", pool.expr(&e.node), i, j, e.rf.val.h[i][j], fd)));
                    }
                }
            }
        }
    }
    (n, None)
}

/// Explore every program with <= kfull operators with all ownership forms at the root, then levels
/// kfull+1 ..= kmax in the canonical (borrowed) form only. Levels < kmax are stored as sub-programs.
/// the second value table (magnitudes from 1e-13 to 1e8): every program of <= `k` operators, all forms
pub fn explore_magnitudes<T: RN>(prop: &str, k: usize) -> (Acc, serde_json::Value) {
    set_leafset(1);
    let r = explore_programs::<T>(&format!("{}/magnitudes", prop), k, k, 99);
    set_leafset(0);
    r
}

pub fn explore_programs<T: RN>(prop: &str, kfull: usize, kmax: usize, fd_level: usize) -> (Acc, serde_json::Value) {
    let leaves = T::make_leaves();
    let mut pool: Pool<T> = Pool { ents: vec![], lvl: vec![] };
    for (i, l) in leaves.into_iter().enumerate() {
        let rf = ref_leaf(i as u8, T::SECOND);
        let pv = rf.val.v;
        pool.ents.push(Ent { node: Node::Leaf(i as u8), real: l, rf, pv });
    }
    pool.lvl.push((0, pool.ents.len()));
    let mut total = Acc::new();
    // leaves themselves must satisfy the oracle (binds the reference leaves to the real ones)
    for e in pool.ents.iter() {
        total.eval();
        if let Err((kind, msg)) = e.real.judge(&e.rf, e.pv) {
            machinery_fail(&format!("leaf {:?} does not match its reference: {} {}", e.node, kind, msg));
        }
    }
    let mut level_sizes = vec![pool.ents.len() as u64];
    let mut level_tasks = vec![pool.ents.len() as u64];
    let mut fd_checked = 0u64;
    for k in 1..=kmax {
        let ntask = task_count(&pool, k);
        let keep = k < kmax;
        let expand = k <= kfull;
        let pref = &pool;
        let (acc, newents): (Acc, Vec<Ent<T>>) = (0..ntask)
            .into_par_iter()
            .fold(
                || (Acc::new(), Vec::new()),
                |(mut acc, mut v), i| {
                    let node = task_at(pref, k, i);
                    if let Some(b) = build_and_check(pref, &node, k, expand, prop, i, &mut acc) {
                        if i % 1_000_003 == 0 || (k == 1 && i % 97 == 0) {
                            let ex = pref.expr(&node);
                            acc.sample(|| json!({"program": ex, "value": b.pv}));
                        }
                        if keep {
                            v.push(Ent { node, real: b.real, rf: b.rf, pv: b.pv });
                        }
                    }
                    (acc, v)
                },
            )
            .reduce(
                || (Acc::new(), Vec::new()),
                |(a, mut va), (b, vb)| {
                    va.extend(vb);
                    (a.merge(b), va)
                },
            );
        total = total.merge(acc);
        let start = pool.ents.len();
        pool.ents.extend(newents);
        pool.lvl.push((start, pool.ents.len()));
        level_sizes.push((pool.ents.len() - start) as u64);
        level_tasks.push(ntask);
        if k == fd_level {
            let (n, err) = fd_validate(&pool, k);
            fd_checked = n;
            if let Some(e) = err {
                machinery_fail(&format!("oracle self-check failed: {}", e));
            }
        }
        eprintln!("  level {}: {} candidate programs, {} kept as sub-programs", k, ntask, pool.ents.len() - start);
    }
    // ---- history independence: every program of <= 2 operators again, evaluated sequentially on ONE thread,
    // each from freshly constructed leaves with every temporary dropped afterwards (so that anything the
    // library remembers between calls - a cache keyed on addresses, a reused buffer - meets re-used storage)
    let upto = pool.lvl[2.min(kmax.saturating_sub(1)).max(1)].1;
    let (hacc, hcount) = fresh_pass::<T>(prop, &pool, upto, None);
    total = total.merge(hacc);
    let bound = json!({
        "fresh_sequential_re-evaluations": hcount,
        "max_operators_all_forms": kfull,
        "max_operators_canonical_form": kmax,
        "candidate_programs_per_level": level_tasks,
        "in_domain_programs_kept_per_level": level_sizes,
        "reference_rules_fd_checked_components": fd_checked,
        "leaves": ["x=0.7[x]", "y=1.3[y]", "w=-0.6[w]", "v=2.1[y,x] grad(2,-1)", "const 0.9 (no vars)", "x=0.7 on the Arc of v", "0.0[y]", "1.0[x]"],
        "float_literals": LITS,
    });
    (total, bound)
}

/// sequential fresh re-evaluation of pool entries [first program .. upto); `stop_after`: replay mode
fn fresh_pass<T: RN>(prop: &str, pool: &Pool<T>, upto: usize, stop_after: Option<u64>) -> (Acc, u64) {
    let mut acc = Acc::new();
    let mut n = 0u64;
    let start = pool.lvl[0].1;
    for (seq, e) in pool.ents[start..upto].iter().enumerate() {
        if let Some(s) = stop_after {
            if seq as u64 > s {
                break;
            }
        }
        let ex = pool.expr(&e.node);
        let before = acc.violations.len();
        let leaves = T::make_leaves();
        let r = guarded(|| {
            let mut local = Acc::new();
            let _ = eval_expr::<T>(&ex, &leaves, true, &mut local, &format!("{}/after-other-evaluations", prop));
            local
        });
        drop(leaves);
        n += 1;
        acc.eval();
        match r {
            Ok(local) => {
                for v in local.violations {
                    acc.violate(&v.key, seq as u64, json!({"expr": ex, "fresh_sequence_upto": seq, "leafset": leafset()}), v.expected, json!(format!("as evaluation #{} in a sequence of fresh evaluations: {}", seq, v.observed)));
                }
            }
            Err(m) => acc.violate(&format!("{}/after-other-evaluations/panic", prop), seq as u64, json!({"expr": ex, "fresh_sequence_upto": seq, "leafset": leafset()}), json!("a value"), json!(m)),
        }
        if acc.violations.len() > before + 8 {
            break;
        }
    }
    (acc, n)
}

// ---- replay of one expression tree -----------------------------------------------------------

fn eval_expr<T: RN>(ex: &Expr, leaves: &[T], forms: bool, acc: &mut Acc, prop: &str) -> Option<(Option<T>, RefDual, f64, Option<f64>)> {
    // returns (real or None for literal, rf, pv, literal)
    match ex {
        Expr::Leaf(i) => {
            let rf = ref_leaf(*i, T::SECOND);
            Some((Some(leaves[*i as usize].clone()), rf, rf.val.v, None))
        }
        Expr::Lit(f) => Some((None, RefDual::constant(*f), *f, Some(*f))),
        Expr::Un(name, a) => {
            let op = UN_NAMES.iter().position(|n| n == name)? as u8;
            let (ra, rfa, pva, _) = eval_expr(a, leaves, false, acc, prop)?;
            let ra = ra?;
            if !un_domain(op, &rfa) {
                return None;
            }
            let rf = ref_un(op, &rfa);
            let pv = plain_un(op, pva);
            let nf = if forms && op <= 4 { 2 } else { 1 };
            let mut out = None;
            for form in 0..nf {
                match guarded(|| ra.un(op, form == 1)) {
                    Ok(got) => {
                        if forms {
                            if let Err((kind, msg)) = got.judge(&rf, pv) {
                                acc.violate(&format!("{}/{}/{}{}", prop, kind, name, if form == 0 { "" } else { "/owned-form" }), 0, json!(null), json!(pv), json!(msg));
                            }
                        }
                        if form == 0 {
                            out = Some(got);
                        }
                    }
                    Err(m) => acc.violate(&format!("{}/panic/{}", prop, name), 0, json!(null), json!("a value"), json!(m)),
                }
            }
            Some((out, rf, pv, None))
        }
        Expr::Bin(name, a, b) => {
            let op = BIN_NAMES.iter().position(|n| n == name)? as u8;
            let (ra, rfa, pva, la) = eval_expr(a, leaves, false, acc, prop)?;
            let (rb, rfb, pvb, lb) = eval_expr(b, leaves, false, acc, prop)?;
            if op == 3 && lb.is_none() && !solid(&rfb) {
                return None;
            }
            let rf = ref_bin(op, &rfa, &rfb);
            let pv = plain_bin(op, pva, pvb);
            let nf = if forms { 4 } else { 1 };
            let mut out = None;
            let kindname = match (la, lb) {
                (None, None) => "dual-dual",
                (None, Some(_)) => "dual-float",
                _ => "float-dual",
            };
            for form in 0..nf {
                let r = guarded(|| match (la, lb) {
                    (None, None) => T::bin(ra.as_ref().unwrap(), rb.as_ref().unwrap(), op, form),
                    (None, Some(f)) => T::bin_df(ra.as_ref().unwrap(), f, op, form),
                    (Some(f), None) => T::bin_fd(f, rb.as_ref().unwrap(), op, form),
                    _ => T::constant(plain_bin(op, la.unwrap(), lb.unwrap())),
                });
                match r {
                    Ok(got) => {
                        if forms {
                            if let Err((kind, msg)) = got.judge(&rf, pv) {
                                acc.violate(&format!("{}/{}/{}/{}{}", prop, kind, name, kindname, if form == 0 { "" } else { "/owned-form" }), 0, json!(null), json!(pv), json!(msg));
                            }
                        }
                        if form == 0 {
                            out = Some(got);
                        }
                    }
                    Err(m) => acc.violate(&format!("{}/panic/{}", prop, name), 0, json!(null), json!("a value"), json!(m)),
                }
            }
            Some((out, rf, pv, None))
        }
    }
}

/// A menu of DEEP formulas (10 .. 60 operators), every intermediate stage judged as a program of its own:
/// the breadth-first space ends at 3-4 operators, these chains exercise repeated re-alignment of variable
/// lists, long products of derivative scalings and accumulated magnitudes.
pub fn deep_formulas() -> Vec<(String, Vec<Expr>)> {
    fn l(i: u8) -> Expr {
        Expr::Leaf(i)
    }
    fn c(f: f64) -> Expr {
        Expr::Lit(f)
    }
    fn un(n: &str, a: Expr) -> Expr {
        Expr::Un(n.to_string(), Box::new(a))
    }
    fn bin(n: &str, a: Expr, b: Expr) -> Expr {
        Expr::Bin(n.to_string(), Box::new(a), Box::new(b))
    }
    let (x, y, w, v, k) = (l(0), l(1), l(2), l(3), l(4));
    let mut out: Vec<(String, Vec<Expr>)> = vec![];
    // 1 Horner scheme in y
    {
        let coef = [x.clone(), w.clone(), v.clone(), c(0.5), k.clone()];
        let mut acc = x.clone();
        let mut stages = vec![];
        for i in 0..14 {
            acc = bin("add", bin("mul", acc, y.clone()), coef[i % 5].clone());
            stages.push(acc.clone());
        }
        out.push(("horner".into(), stages));
    }
    // 2 continued fraction
    {
        let coef = [x.clone(), y.clone(), v.clone()];
        let mut acc = y.clone();
        let mut stages = vec![];
        for i in 0..12 {
            let inv = if i % 2 == 0 { un("pow-1", acc) } else { bin("div", c(1.0), acc) };
            acc = bin("add", coef[i % 3].clone(), inv);
            stages.push(acc.clone());
        }
        out.push(("continued-fraction".into(), stages));
    }
    // 3 exp / log tower
    {
        let mut acc = x.clone();
        let mut stages = vec![];
        for i in 0..8 {
            acc = un("log", bin("add", un("exp", acc), if i % 2 == 0 { y.clone() } else { v.clone() }));
            stages.push(acc.clone());
        }
        out.push(("exp-log-tower".into(), stages));
    }
    // 4 normal cdf / inverse cdf ping-pong
    {
        let mut acc = bin("mul", x.clone(), c(0.3));
        let mut stages = vec![];
        for _ in 0..6 {
            acc = bin("add", un("inv_norm_cdf", bin("add", bin("mul", un("norm_cdf", acc), c(0.9)), c(0.05))), bin("mul", w.clone(), c(0.1)));
            stages.push(acc.clone());
        }
        out.push(("cdf-ping-pong".into(), stages));
    }
    // 5 powers
    {
        let mut acc = v.clone();
        let mut stages = vec![];
        for i in 0..8 {
            acc = un("pow0.5", bin("add", un("pow2", acc), x.clone()));
            acc = if i % 2 == 0 { bin("div", acc, y.clone()) } else { bin("mul", acc, y.clone()) };
            stages.push(acc.clone());
        }
        out.push(("power-chain".into(), stages));
    }
    // 6 a long sum of products (24 terms)
    {
        let ls = [x.clone(), y.clone(), w.clone(), v.clone()];
        let mut acc = bin("mul", ls[0].clone(), c(1.0));
        let mut stages = vec![];
        for i in 1..24 {
            let term = bin("mul", ls[i % 4].clone(), if i % 3 == 0 { ls[(i + 1) % 4].clone() } else { c(1.0 / (i as f64 + 1.0)) });
            acc = if i % 5 == 4 { bin("sub", acc, term) } else { bin("add", acc, term) };
            stages.push(acc.clone());
        }
        out.push(("long-sum".into(), stages));
    }
    // 7 Black-Scholes call: S = v, K = y, sigma = x, r = 0.05 * const, T = 1.5
    {
        let t = 1.5_f64;
        let r = bin("mul", k.clone(), c(0.05));
        let sig_rt = bin("mul", x.clone(), c(t.sqrt()));
        let d1 = bin("div", bin("add", un("log", bin("div", v.clone(), y.clone())), bin("mul", bin("add", r.clone(), bin("mul", un("pow2", x.clone()), c(0.5))), c(t))), sig_rt.clone());
        let d2 = bin("sub", d1.clone(), sig_rt.clone());
        let disc = un("exp", bin("mul", un("neg", r.clone()), c(t)));
        let price = bin("sub", bin("mul", v.clone(), un("norm_cdf", d1.clone())), bin("mul", bin("mul", y.clone(), disc.clone()), un("norm_cdf", d2.clone())));
        out.push(("black-scholes".into(), vec![d1, d2, disc, price]));
    }
    // 8 balanced tree of depth 5 over the leaves
    {
        let ls = [x.clone(), y.clone(), v.clone(), k.clone(), l(5), l(7)];
        let ops = ["add", "mul", "add", "div", "mul"];
        let mut level: Vec<Expr> = (0..32).map(|i| ls[i % 6].clone()).collect();
        let mut stages = vec![];
        let mut d = 0;
        while level.len() > 1 {
            level = level.chunks(2).enumerate().map(|(j, p)| bin(ops[(d + j) % 5], p[0].clone(), p[1].clone())).collect();
            stages.push(level[0].clone());
            d += 1;
        }
        out.push(("balanced-tree".into(), stages));
    }
    // 9 sign games
    {
        let mut acc = w.clone();
        let mut stages = vec![];
        for i in 0..10 {
            acc = un("abs", bin("sub", bin("mul", un("neg", acc), y.clone()), x.clone()));
            if i % 3 == 2 {
                acc = un("pow3", bin("mul", acc, c(0.25)));
            }
            stages.push(acc.clone());
        }
        out.push(("sign-chain".into(), stages));
    }
    out
}

pub fn explore_deep<T: RN>(prop: &str) -> (Acc, serde_json::Value) {
    let mut total = Acc::new();
    let mut count = 0u64;
    let mut skipped = 0u64;
    for ls in 0..2u8 {
        set_leafset(ls);
        let leaves = T::make_leaves();
        for (name, stages) in deep_formulas() {
            for (si, ex) in stages.iter().enumerate() {
                let mut scratch = Acc::new();
                total.eval();
                match guarded(|| {
                    let mut a = Acc::new();
                    let r = eval_expr::<T>(ex, &leaves, true, &mut a, &format!("{}/deep", prop));
                    (a, r.is_some())
                }) {
                    Ok((a, evaluated)) => {
                        scratch = a;
                        if evaluated {
                            total.nontrivial();
                            count += 1;
                        } else {
                            total.skip();
                            skipped += 1;
                        }
                    }
                    Err(m) => total.violate(&format!("{}/deep/panic", prop), count, json!({"expr": ex, "leafset": ls}), json!("a value"), json!(m)),
                }
                for v in scratch.violations {
                    total.violate(&v.key, (si as u64) << 8 | ls as u64, json!({"expr": ex, "leafset": ls}), v.expected, json!(format!("stage {} of {}: {}", si + 1, name, v.observed)));
                }
                if si + 1 == stages.len() && ls == 0 {
                    total.sample(|| json!({"formula": name, "stages": stages.len(), "expr": ex}));
                }
            }
        }
    }
    set_leafset(0);
    (total, json!({"formulas": deep_formulas().len(), "stages_evaluated": count, "stages_outside_domain": skipped, "leaf_tables": 2}))
}

pub fn replay_case<T: RN>(prop: &str, case: &Case, _idx: u64, acc: &mut Acc) {
    set_leafset(case.leafset);
    if let Some((which, 201)) = case.large {
        crate::largeops::awkward_power(which, T::SECOND, prop, serde_json::to_value(case).unwrap(), _idx, acc);
        return;
    }
    if let Some((which, 200)) = case.large {
        crate::largeops::awkward_unary(which, T::SECOND, prop, serde_json::to_value(case).unwrap(), _idx, acc);
        return;
    }
    if let Some((size, stored)) = case.large {
        crate::largeops::large_unary(size, stored, T::SECOND, prop, serde_json::to_value(case).unwrap(), _idx, acc);
        return;
    }
    if let Some(n) = case.fresh_sequence_upto {
        // rebuild the (deterministic) pool of <= 2-operator programs, then replay the sequential pass
        let leaves = T::make_leaves();
        let mut pool: Pool<T> = Pool { ents: vec![], lvl: vec![] };
        for (i, l) in leaves.into_iter().enumerate() {
            let rf = ref_leaf(i as u8, T::SECOND);
            pool.ents.push(Ent { node: Node::Leaf(i as u8), real: l, rf, pv: rf.val.v });
        }
        pool.lvl.push((0, pool.ents.len()));
        for k in 1..=2usize {
            let ntask = task_count(&pool, k);
            let mut newents = vec![];
            let mut scratch = Acc::new();
            for i in 0..ntask {
                let node = task_at(&pool, k, i);
                if let Some(b) = build_and_check(&pool, &node, k, false, prop, i, &mut scratch) {
                    newents.push(Ent { node, real: b.real, rf: b.rf, pv: b.pv });
                }
            }
            let start = pool.ents.len();
            pool.ents.extend(newents);
            pool.lvl.push((start, pool.ents.len()));
        }
        let (a, _) = fresh_pass::<T>(prop, &pool, pool.lvl[2].1, Some(n));
        for v in a.violations {
            acc.violate(&v.key, v.index, v.case, v.expected, v.observed);
        }
        return;
    }
    let leaves = T::make_leaves();
    let _ = eval_expr::<T>(&case.expr, &leaves, true, acc, prop);
}
