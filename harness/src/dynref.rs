//! Dense reference dual arithmetic with a dynamic number of variables (value, gradient, full Hessian).
#![allow(dead_code)]

#[derive(Clone, Debug)]
pub struct DR {
    pub v: f64,
    pub g: Vec<f64>,
    pub h: Vec<f64>,
}
impl DR {
    pub fn zero(nv: usize) -> DR {
        DR { v: 0.0, g: vec![0.0; nv], h: vec![0.0; nv * nv] }
    }
    pub fn leaf(nv: usize, v: f64, var: Option<(usize, f64)>) -> DR {
        let mut d = DR::zero(nv);
        d.v = v;
        if let Some((i, g)) = var {
            d.g[i] = g;
        }
        d
    }
    pub fn abs(&self) -> DR {
        DR { v: self.v.abs(), g: self.g.iter().map(|x| x.abs()).collect(), h: self.h.iter().map(|x| x.abs()).collect() }
    }
    pub fn add(&self, o: &DR, s: f64) -> DR {
        DR {
            v: self.v + s * o.v,
            g: self.g.iter().zip(o.g.iter()).map(|(a, b)| a + s * b).collect(),
            h: self.h.iter().zip(o.h.iter()).map(|(a, b)| a + s * b).collect(),
        }
    }
    pub fn mul(&self, o: &DR) -> DR {
        let nv = self.g.len();
        let mut r = DR::zero(nv);
        r.v = self.v * o.v;
        for i in 0..nv {
            r.g[i] = self.g[i] * o.v + o.g[i] * self.v;
        }
        for i in 0..nv {
            for j in 0..nv {
                r.h[i * nv + j] = self.h[i * nv + j] * o.v + o.h[i * nv + j] * self.v + self.g[i] * o.g[j] + self.g[j] * o.g[i];
            }
        }
        r
    }
}


impl DR {
    pub fn recip(&self) -> DR {
        let nv = self.g.len();
        let x = self.v;
        let (f1, f2) = (-1.0 / (x * x), 2.0 / (x * x * x));
        let mut r = DR::zero(nv);
        r.v = 1.0 / x;
        for i in 0..nv {
            r.g[i] = f1 * self.g[i];
        }
        for i in 0..nv {
            for j in 0..nv {
                r.h[i * nv + j] = f1 * self.h[i * nv + j] + f2 * self.g[i] * self.g[j];
            }
        }
        r
    }
}
