//! Reference model for dual numbers: value, gradient and FULL Hessian indexed by variable *name*
//! (names are positions in a per-property universe of at most `N` names), plus a parallel
//! "magnitude" copy (the same formulas evaluated on absolute values) that gives every component
//! its own natural rounding scale.  Shares no code with rateslib.
#![allow(dead_code)]

use ndarray::Array2;
use rateslib::dual::{Dual, Dual2, Gradient1, Gradient2, Vars};
use statrs::distribution::{ContinuousCDF, Normal};

pub const N: usize = 6;

#[derive(Clone, Copy, Debug)]
pub struct Comp {
    pub v: f64,
    pub g: [f64; N],
    pub h: [[f64; N]; N],
}

impl Comp {
    pub fn zero() -> Self {
        Comp { v: 0.0, g: [0.0; N], h: [[0.0; N]; N] }
    }
    fn abs(&self) -> Self {
        let mut c = *self;
        c.v = c.v.abs();
        for i in 0..N {
            c.g[i] = c.g[i].abs();
            for j in 0..N {
                c.h[i][j] = c.h[i][j].abs();
            }
        }
        c
    }
}

#[derive(Clone, Copy, Debug)]
pub struct RefDual {
    pub val: Comp,
    pub mag: Comp,
    /// bit i set <=> name i is carried (possibly with zero derivative)
    pub mask: u8,
}

fn add_c(a: &Comp, b: &Comp, sb: f64) -> Comp {
    let mut c = Comp::zero();
    c.v = a.v + sb * b.v;
    for i in 0..N {
        c.g[i] = a.g[i] + sb * b.g[i];
        for j in 0..N {
            c.h[i][j] = a.h[i][j] + sb * b.h[i][j];
        }
    }
    c
}

fn mul_c(a: &Comp, b: &Comp) -> Comp {
    let mut c = Comp::zero();
    c.v = a.v * b.v;
    for i in 0..N {
        c.g[i] = a.g[i] * b.v + b.g[i] * a.v;
        for j in 0..N {
            c.h[i][j] = a.h[i][j] * b.v + b.h[i][j] * a.v + a.g[i] * b.g[j] + a.g[j] * b.g[i];
        }
    }
    c
}

fn chain_c(a: &Comp, f0: f64, f1: f64, f2: f64) -> Comp {
    let mut c = Comp::zero();
    c.v = f0;
    for i in 0..N {
        c.g[i] = f1 * a.g[i];
        for j in 0..N {
            c.h[i][j] = f1 * a.h[i][j] + f2 * a.g[i] * a.g[j];
        }
    }
    c
}

pub fn phi_cdf(x: f64) -> f64 {
    Normal::new(0.0, 1.0).unwrap().cdf(x)
}
pub fn phi_inv(x: f64) -> f64 {
    Normal::new(0.0, 1.0).unwrap().inverse_cdf(x)
}
pub fn phi_pdf(x: f64) -> f64 {
    (-0.5 * x * x).exp() / (2.0 * std::f64::consts::PI).sqrt()
}

impl RefDual {
    pub fn constant(v: f64) -> Self {
        let mut c = Comp::zero();
        c.v = v;
        RefDual { val: c, mag: c.abs(), mask: 0 }
    }
    /// value `v`, carrying names (index, derivative).
    pub fn leaf(v: f64, grads: &[(usize, f64)]) -> Self {
        let mut c = Comp::zero();
        c.v = v;
        let mut mask = 0u8;
        for (i, d) in grads {
            c.g[*i] = *d;
            mask |= 1 << i;
        }
        RefDual { val: c, mag: c.abs(), mask }
    }
    pub fn with_hess(mut self, entries: &[(usize, usize, f64)]) -> Self {
        for (i, j, x) in entries {
            self.val.h[*i][*j] = *x;
            self.val.h[*j][*i] = *x;
        }
        self.mag = self.val.abs();
        self
    }
    pub fn v(&self) -> f64 {
        self.val.v
    }
    pub fn add(&self, o: &RefDual) -> RefDual {
        RefDual { val: add_c(&self.val, &o.val, 1.0), mag: add_c(&self.mag, &o.mag, 1.0), mask: self.mask | o.mask }
    }
    pub fn sub(&self, o: &RefDual) -> RefDual {
        RefDual { val: add_c(&self.val, &o.val, -1.0), mag: add_c(&self.mag, &o.mag, 1.0), mask: self.mask | o.mask }
    }
    pub fn mul(&self, o: &RefDual) -> RefDual {
        RefDual { val: mul_c(&self.val, &o.val), mag: mul_c(&self.mag, &o.mag), mask: self.mask | o.mask }
    }
    pub fn neg(&self) -> RefDual {
        RefDual { val: chain_c(&self.val, -self.val.v, -1.0, 0.0), mag: self.mag, mask: self.mask }
    }
    /// generic unary rule from (f, f1, f2, f3) = the function and its first three derivatives at the
    /// value. The magnitude copy bounds the effect of the rounding already present in the argument
    /// (size ~ eps * mag.v) to SECOND order, so that points where f1 or f2 vanish (x^2, x^3 at an
    /// argument that cancelled to zero) still get a non-zero scale.
    pub fn unary3(&self, f0: f64, f1: f64, f2: f64, f3: f64) -> RefDual {
        let val = chain_c(&self.val, f0, f1, f2);
        let mv = self.mag.v;
        let a1 = f1.abs() + f2.abs() * mv + 0.5 * f3.abs() * mv * mv;
        let a2 = f2.abs() + f3.abs() * mv;
        let mut mag = Comp::zero();
        mag.v = f0.abs() + f1.abs() * mv + 0.5 * f2.abs() * mv * mv + f3.abs() * mv * mv * mv / 6.0;
        for i in 0..N {
            mag.g[i] = a1 * self.mag.g[i];
            for j in 0..N {
                mag.h[i][j] = a1 * self.mag.h[i][j] + a2 * self.mag.g[i] * self.mag.g[j];
            }
        }
        RefDual { val, mag, mask: self.mask }
    }
    pub fn unary(&self, f0: f64, f1: f64, f2: f64) -> RefDual {
        self.unary3(f0, f1, f2, 0.0)
    }
    pub fn powf(&self, p: f64) -> RefDual {
        let x = self.val.v;
        // a vanishing coefficient means the derivative is identically zero (avoid 0 * inf at x = 0)
        let pc = |c: f64, e: f64| if c == 0.0 { 0.0 } else { c * x.powf(e) };
        self.unary3(x.powf(p), pc(p, p - 1.0), pc(p * (p - 1.0), p - 2.0), pc(p * (p - 1.0) * (p - 2.0), p - 3.0))
    }
    pub fn recip(&self) -> RefDual {
        let x = self.val.v;
        self.unary3(1.0 / x, -1.0 / (x * x), 2.0 / (x * x * x), -6.0 / (x * x * x * x))
    }
    pub fn div(&self, o: &RefDual) -> RefDual {
        self.mul(&o.recip())
    }
    pub fn exp(&self) -> RefDual {
        let e = self.val.v.exp();
        self.unary3(e, e, e, e)
    }
    pub fn ln(&self) -> RefDual {
        let x = self.val.v;
        self.unary3(x.ln(), 1.0 / x, -1.0 / (x * x), 2.0 / (x * x * x))
    }
    pub fn norm_cdf(&self) -> RefDual {
        let x = self.val.v;
        let pdf = phi_pdf(x);
        self.unary3(phi_cdf(x), pdf, -x * pdf, (x * x - 1.0) * pdf)
    }
    pub fn inv_norm_cdf(&self) -> RefDual {
        let u = self.val.v;
        let y = phi_inv(u);
        let d1 = 1.0 / phi_pdf(y);
        // second derivative y (y1)^2 ; third derivative (y1)^3 (1 + 2 y^2)
        self.unary3(y, d1, y * d1 * d1, d1 * d1 * d1 * (1.0 + 2.0 * y * y))
    }
    pub fn abs(&self) -> RefDual {
        if self.val.v >= 0.0 {
            *self
        } else {
            self.neg()
        }
    }
    /// a % b = a - b * trunc(a / b)
    pub fn rem(&self, o: &RefDual) -> RefDual {
        let q = (self.val.v / o.val.v).trunc();
        self.sub(&RefDual::constant(q).mul(o))
    }
    pub fn drop_hessian(&self) -> RefDual {
        let mut r = *self;
        r.val.h = [[0.0; N]; N];
        r.mag.h = [[0.0; N]; N];
        r
    }

    // ---- binding to the real types -------------------------------------------------------

    pub fn from_dual(d: &Dual, uni: &[String]) -> Result<RefDual, String> {
        let mut c = Comp::zero();
        c.v = d.real();
        let mut mask = 0u8;
        if d.dual().len() != d.vars().len() {
            return Err(format!("dual.len()={} != vars.len()={}", d.dual().len(), d.vars().len()));
        }
        for (k, name) in d.vars().iter().enumerate() {
            let i = uni.iter().position(|u| u == name).ok_or(format!("name {:?} outside universe", name))?;
            if mask & (1 << i) != 0 {
                return Err(format!("name {:?} carried twice", name));
            }
            mask |= 1 << i;
            c.g[i] = d.dual()[k];
        }
        Ok(RefDual { val: c, mag: c.abs(), mask })
    }

    pub fn from_dual2(d: &Dual2, uni: &[String]) -> Result<RefDual, String> {
        let mut c = Comp::zero();
        c.v = d.real();
        let mut mask = 0u8;
        let n = d.vars().len();
        if d.dual().len() != n || d.dual2().shape() != [n, n] {
            return Err(format!(
                "shape mismatch: vars {} dual {} dual2 {:?}",
                n,
                d.dual().len(),
                d.dual2().shape()
            ));
        }
        let mut idx = vec![];
        for name in d.vars().iter() {
            let i = uni.iter().position(|u| u == name).ok_or(format!("name {:?} outside universe", name))?;
            if mask & (1 << i) != 0 {
                return Err(format!("name {:?} carried twice", name));
            }
            mask |= 1 << i;
            idx.push(i);
        }
        for (k, &i) in idx.iter().enumerate() {
            c.g[i] = d.dual()[k];
            for (l, &j) in idx.iter().enumerate() {
                // stored array is half the Hessian; the true second partial is stored[k,l]+stored[l,k]
                c.h[i][j] = d.dual2()[[k, l]] + d.dual2()[[l, k]];
            }
        }
        Ok(RefDual { val: c, mag: c.abs(), mask })
    }

    pub fn names<'a>(&self, uni: &'a [String]) -> Vec<&'a String> {
        (0..uni.len()).filter(|i| self.mask & (1 << i) != 0).map(|i| &uni[i]).collect()
    }
}

/// Compare a real first-order result with the reference: value and every first derivative read
/// back BY NAME through `gradient1` over the whole universe (absent names must be exactly 0 in
/// the reference and are compared the same way).
pub fn cmp_dual(real: &Dual, r: &RefDual, uni: &[String], tol_v: f64, tol_g: f64) -> Result<(), String> {
    if !scaled_close(real.real(), r.val.v, tol_v, r.mag.v) {
        return Err(format!("value {:e} != ref {:e}", real.real(), r.val.v));
    }
    if real.dual().len() != real.vars().len() {
        return Err(format!("dual.len()={} != vars.len()={}", real.dual().len(), real.vars().len()));
    }
    let g = real.gradient1(uni.to_vec());
    for i in 0..uni.len() {
        if !scaled_close(g[i], r.val.g[i], tol_g, r.mag.g[i]) {
            return Err(format!("d/d{} = {:e} != ref {:e}", uni[i], g[i], r.val.g[i]));
        }
    }
    Ok(())
}

pub fn cmp_dual2(real: &Dual2, r: &RefDual, uni: &[String], tol_v: f64, tol_g: f64, tol_h: f64) -> Result<(), String> {
    if !scaled_close(real.real(), r.val.v, tol_v, r.mag.v) {
        return Err(format!("value {:e} != ref {:e}", real.real(), r.val.v));
    }
    let n = real.vars().len();
    if real.dual().len() != n || real.dual2().shape() != [n, n] {
        return Err(format!("shape mismatch: vars {} dual {} dual2 {:?}", n, real.dual().len(), real.dual2().shape()));
    }
    let g = real.gradient1(uni.to_vec());
    for i in 0..uni.len() {
        if !scaled_close(g[i], r.val.g[i], tol_g, r.mag.g[i]) {
            return Err(format!("d/d{} = {:e} != ref {:e}", uni[i], g[i], r.val.g[i]));
        }
    }
    let h: Array2<f64> = real.gradient2(uni.to_vec());
    for i in 0..uni.len() {
        for j in 0..uni.len() {
            if !scaled_close(h[[i, j]], r.val.h[i][j], tol_h, r.mag.h[i][j]) {
                return Err(format!("d2/d{}d{} = {:e} != ref {:e}", uni[i], uni[j], h[[i, j]], r.val.h[i][j]));
            }
        }
    }
    Ok(())
}

#[inline]
pub fn scaled_close(a: f64, b: f64, tol: f64, scale: f64) -> bool {
    if a == b {
        return true;
    }
    if !a.is_finite() || !b.is_finite() {
        return false;
    }
    (a - b).abs() <= tol * scale.abs().max(b.abs())
}

pub fn finite(r: &RefDual) -> bool {
    if !r.val.v.is_finite() || !r.mag.v.is_finite() {
        return false;
    }
    for i in 0..N {
        if !r.val.g[i].is_finite() || !r.mag.g[i].is_finite() {
            return false;
        }
        for j in 0..N {
            if !r.val.h[i][j].is_finite() || !r.mag.h[i][j].is_finite() {
                return false;
            }
        }
    }
    true
}
