//! Civil-date model (no chrono), calendar bitmaps and the specification-level searches used as
//! the oracle for C04/C05/C06/C08 (and the date base for C07).
#![allow(dead_code)]

use chrono::{Datelike, NaiveDate, NaiveDateTime};
use rateslib::calendars::{DateRoll, Modifier};

// ---- civil dates (Howard Hinnant's algorithms), day 0 = 1970-01-01 ------------------------

pub fn days_from_civil(y: i64, m: i64, d: i64) -> i64 {
    let y = if m <= 2 { y - 1 } else { y };
    let era = if y >= 0 { y } else { y - 399 } / 400;
    let yoe = y - era * 400;
    let doy = (153 * (if m > 2 { m - 3 } else { m + 9 }) + 2) / 5 + d - 1;
    let doe = yoe * 365 + yoe / 4 - yoe / 100 + doy;
    era * 146097 + doe - 719468
}

pub fn civil_from_days(z: i64) -> (i64, i64, i64) {
    let z = z + 719468;
    let era = if z >= 0 { z } else { z - 146096 } / 146097;
    let doe = z - era * 146097;
    let yoe = (doe - doe / 1460 + doe / 36524 - doe / 146096) / 365;
    let y = yoe + era * 400;
    let doy = doe - (365 * yoe + yoe / 4 - yoe / 100);
    let mp = (5 * doy + 2) / 153;
    let d = doy - (153 * mp + 2) / 5 + 1;
    let m = if mp < 10 { mp + 3 } else { mp - 9 };
    (if m <= 2 { y + 1 } else { y }, m, d)
}

/// 0 = Monday .. 6 = Sunday
pub fn weekday(z: i64) -> i64 {
    (z + 3).rem_euclid(7)
}

pub fn is_leap(y: i64) -> bool {
    (y % 4 == 0 && y % 100 != 0) || y % 400 == 0
}

pub fn month_len(y: i64, m: i64) -> i64 {
    match m {
        1 | 3 | 5 | 7 | 8 | 10 | 12 => 31,
        4 | 6 | 9 | 11 => 30,
        _ => {
            if is_leap(y) {
                29
            } else {
                28
            }
        }
    }
}

/// Gregorian Easter Sunday (anonymous algorithm), as a day number
pub fn easter(y: i64) -> i64 {
    let a = y % 19;
    let b = y / 100;
    let c = y % 100;
    let d = b / 4;
    let e = b % 4;
    let f = (b + 8) / 25;
    let g = (b - f + 1) / 3;
    let h = (19 * a + b - d - g + 15) % 30;
    let i = c / 4;
    let k = c % 4;
    let l = (32 + 2 * e + 2 * i - h - k) % 7;
    let m = (a + 11 * h + 22 * l) / 451;
    let month = (h + l - 7 * m + 114) / 31;
    let day = (h + l - 7 * m + 114) % 31 + 1;
    days_from_civil(y, month, day)
}

pub const DAY_MIN: i64 = 0; // 1970-01-01
pub fn day_max() -> i64 {
    days_from_civil(2200, 12, 31)
}

pub fn to_ndt(z: i64) -> NaiveDateTime {
    let (y, m, d) = civil_from_days(z);
    NaiveDate::from_ymd_opt(y as i32, m as u32, d as u32).unwrap().and_hms_opt(0, 0, 0).unwrap()
}

pub fn from_ndt(d: &NaiveDateTime) -> i64 {
    days_from_civil(d.year() as i64, d.month() as i64, d.day() as i64)
}

pub fn fmt_day(z: i64) -> String {
    let (y, m, d) = civil_from_days(z);
    format!("{:04}-{:02}-{:02}", y, m, d)
}

/// chrono is trusted only after agreeing with the civil-date model on every day 1969..2201
pub fn crosscheck_chrono() -> Result<u64, String> {
    let lo = days_from_civil(1969, 1, 1);
    let hi = days_from_civil(2201, 12, 31);
    let mut n = 0;
    let mut cur = NaiveDate::from_ymd_opt(1969, 1, 1).unwrap();
    for z in lo..=hi {
        let (y, m, d) = civil_from_days(z);
        if cur.year() as i64 != y || cur.month() as i64 != m || cur.day() as i64 != d {
            return Err(format!("chrono {:?} vs civil {}-{}-{}", cur, y, m, d));
        }
        if cur.weekday().num_days_from_monday() as i64 != weekday(z) {
            return Err(format!("weekday mismatch at {:?}", cur));
        }
        if days_from_civil(y, m, d) != z {
            return Err(format!("civil round trip at {}", z));
        }
        n += 1;
        cur = cur.succ_opt().unwrap();
    }
    Ok(n)
}

// ---- bitmaps of a real calendar's own predicates ---------------------------------------------

pub struct Bitmap {
    pub lo: i64,
    pub bus: Vec<bool>,
    pub settle: Vec<bool>,
}

impl Bitmap {
    pub fn of<C: DateRoll>(cal: &C, lo: i64, hi: i64) -> Bitmap {
        let mut bus = Vec::with_capacity((hi - lo + 1) as usize);
        let mut settle = Vec::with_capacity((hi - lo + 1) as usize);
        for z in lo..=hi {
            let d = to_ndt(z);
            bus.push(cal.is_bus_day(&d));
            settle.push(cal.is_settlement(&d));
        }
        Bitmap { lo, bus, settle }
    }
    /// bitmap from a MODEL of the calendar (independent of the real predicates)
    pub fn from_fn(lo: i64, hi: i64, f: impl Fn(i64) -> (bool, bool)) -> Bitmap {
        let mut bus = Vec::with_capacity((hi - lo + 1) as usize);
        let mut settle = Vec::with_capacity((hi - lo + 1) as usize);
        for z in lo..=hi {
            let (b, s) = f(z);
            bus.push(b);
            settle.push(s);
        }
        Bitmap { lo, bus, settle }
    }
    pub fn hi(&self) -> i64 {
        self.lo + self.bus.len() as i64 - 1
    }
    #[inline]
    pub fn is_bus(&self, z: i64) -> bool {
        self.bus[(z - self.lo) as usize]
    }
    #[inline]
    pub fn is_settle(&self, z: i64) -> bool {
        self.settle[(z - self.lo) as usize]
    }
    #[inline]
    pub fn elig(&self, z: i64, settlement: bool) -> bool {
        self.is_bus(z) && (!settlement || self.is_settle(z))
    }
    /// first eligible date on or after z (None if the bitmap is exhausted)
    pub fn following(&self, z: i64, settlement: bool) -> Option<i64> {
        let mut e = z;
        while e <= self.hi() {
            if self.elig(e, settlement) {
                return Some(e);
            }
            e += 1;
        }
        None
    }
    pub fn previous(&self, z: i64, settlement: bool) -> Option<i64> {
        let mut e = z;
        while e >= self.lo {
            if self.elig(e, settlement) {
                return Some(e);
            }
            e -= 1;
        }
        None
    }
    /// specification of `roll`
    pub fn roll(&self, z: i64, m: &Modifier, settlement: bool) -> Option<i64> {
        let ym = |d: i64| {
            let (y, mo, _) = civil_from_days(d);
            (y, mo)
        };
        match m {
            Modifier::Act => Some(z),
            Modifier::F => self.following(z, settlement),
            Modifier::P => self.previous(z, settlement),
            Modifier::ModF => {
                let f = self.following(z, settlement)?;
                if ym(f) != ym(z) {
                    self.previous(z, settlement)
                } else {
                    Some(f)
                }
            }
            Modifier::ModP => {
                let p = self.previous(z, settlement)?;
                if ym(p) != ym(z) {
                    self.following(z, settlement)
                } else {
                    Some(p)
                }
            }
        }
    }
    /// the |n|-th business day strictly after (n>0) / before (n<0) z; z itself for n == 0
    pub fn nth_bus(&self, z: i64, n: i64) -> Option<i64> {
        let mut e = z;
        let mut c = 0;
        while c < n.abs() {
            e += n.signum();
            if e < self.lo || e > self.hi() {
                return None;
            }
            if self.is_bus(e) {
                c += 1;
            }
        }
        Some(e)
    }
    /// specification of add_bus_days from a business day
    pub fn add_bus_days(&self, z: i64, n: i64, settlement: bool) -> Option<i64> {
        let e = self.nth_bus(z, n)?;
        if !settlement {
            Some(e)
        } else if n < 0 {
            self.previous(e, true)
        } else {
            self.following(e, true)
        }
    }
}

pub const MODS: [Modifier; 5] = [Modifier::Act, Modifier::F, Modifier::ModF, Modifier::P, Modifier::ModP];
pub fn mod_name(m: &Modifier) -> &'static str {
    match m {
        Modifier::Act => "Act",
        Modifier::F => "F",
        Modifier::ModF => "ModF",
        Modifier::P => "P",
        Modifier::ModP => "ModP",
    }
}

pub const BUILTIN: [&str; 14] = ["all", "bus", "tgt", "ldn", "nyc", "fed", "stk", "osl", "zur", "tro", "tyo", "syd", "wlg", "mum"];
