#!/usr/bin/env bash
# run every seed under $1 (default /tmp/seed) through seed_trial.py, append results to $2
ROOT="${1:-/tmp/seed}"; OUT="${2:-/tmp/seed/results.jsonl}"
: > "$OUT"
for d in "$ROOT"/C*/m*; do
  [ -f "$d/patch.diff" ] || continue
  python3 /verif/tools/seed_trial.py "$d" >> "$OUT" 2>&1
done
echo done >> "$OUT"
