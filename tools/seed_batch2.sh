#!/usr/bin/env bash
# second-round seeds: each seed is tried against the whole family of checks of its property (+ C16, C20)
ROOT="${1:-/tmp/seed2}"; OUT="${2:-/tmp/seed2/results.jsonl}"
fam() {
  case "$1" in
    C01|C02|C03|C17|C18|C19) echo "C01,C02,C03,C17,C18,C19,C16,C20";;
    C04|C05|C06|C07|C08) echo "C04,C05,C06,C07,C08,C16,C20";;
    C09|C10) echo "C09,C10,C16,C20";;
    C11|C12) echo "C11,C12,C16,C20";;
    C13|C14|C15) echo "C13,C14,C15,C16,C20";;
    C16|C20) echo "C16,C20,C10,C12,C03";;
  esac
}
: > "$OUT"
for d in "$ROOT"/C*/m*; do
  [ -f "$d/patch.diff" ] || continue
  id=$(basename $(dirname "$d"))
  python3 /verif/tools/seed_trial.py "$d" --checks "$(fam $id)" --wt "${WT:-/tmp/wt/confirm}" >> "$OUT" 2>&1
done
echo done >> "$OUT"
