#!/usr/bin/env python3
"""tools/seed_trial.py <seed_dir> [--wt DIR] [--checks ID,ID] [--tier quick]
Confirms a seeded change (suite passes with it; its demo fails with it and passes without) in a scratch
worktree of /repo, then points the checks at that worktree (VERIF_REPO) to see whether they detect it.
Prints one JSON line."""
import json, os, subprocess, sys, shutil, glob, time

def sh(cmd, cwd=None, env=None, timeout=3600):
    e = dict(os.environ); e.update(env or {})
    p = subprocess.run(cmd, shell=True, cwd=cwd, env=e, capture_output=True, text=True, timeout=timeout)
    return p.returncode, p.stdout + p.stderr

def main():
    sd = sys.argv[1].rstrip('/')
    wt = '/tmp/wt/confirm'
    checks = None
    tier = 'quick'
    confirm = True
    a = sys.argv[2:]
    while a:
        if a[0] == '--wt': wt = a[1]; a = a[2:]
        elif a[0] == '--checks': checks = a[1].split(','); a = a[2:]
        elif a[0] == '--tier': tier = a[1]; a = a[2:]
        elif a[0] == '--no-confirm': confirm = False; a = a[1:]
        else: a = a[1:]
    meta = json.load(open(os.path.join(sd, 'meta.json')))
    prop = meta.get('property') or os.path.basename(os.path.dirname(sd))
    checks = checks or [prop]
    patch = os.path.join(sd, 'patch.diff')
    demos = glob.glob(os.path.join(sd, 'demo_*.rs'))
    res = {'seed': sd, 'property': prop}
    if not os.path.isdir(wt):
        rc, out = sh(f'git -C /repo worktree add -q --detach {wt} HEAD')
        if rc: print(out); sys.exit(2)
    sh('git checkout -q --detach $(git -C /repo rev-parse HEAD) && git checkout -- . && rm -rf tests', cwd=wt)
    env = {'CARGO_NET_OFFLINE': 'true'}
    if confirm:
        os.makedirs(os.path.join(wt, 'tests'), exist_ok=True)
        names = []
        for d in demos:
            shutil.copy(d, os.path.join(wt, 'tests'))
            names.append(os.path.splitext(os.path.basename(d))[0])
        tests = ' '.join(f'--test {n}' for n in names)
        rc, out = sh(f'cargo test --offline {tests}', cwd=wt, env=env)
        res['demo_passes_without'] = (rc == 0)
        rc, out = sh(f'git apply {patch}', cwd=wt)
        if rc:
            res['error'] = 'patch does not apply: ' + out[-300:]
            print(json.dumps(res)); return
        rc, out = sh(f'cargo test --offline {tests}', cwd=wt, env=env)
        res['demo_fails_with'] = (rc != 0)
        shutil.rmtree(os.path.join(wt, 'tests'))
        rc, out = sh('cargo test --workspace --no-fail-fast --offline', cwd=wt, env=env)
        oks = [l for l in out.splitlines() if l.startswith('test result:')]
        res['suite_passes_with'] = (rc == 0)
        res['suite_summary'] = oks
    else:
        rc, out = sh(f'git apply {patch}', cwd=wt)
        if rc:
            res['error'] = 'patch does not apply: ' + out[-300:]
            print(json.dumps(res)); return
    det = {}
    for c in checks:
        t0 = time.time()
        rc, out = sh(f'./check {c} --tier {tier}', cwd='/verif', env={'VERIF_REPO': wt})
        viol = [l for l in out.splitlines() if l.startswith('VIOLATION')]
        det[c] = {'rc': rc, 'violations': [v.split('replay=')[-1].split('/')[-1] for v in viol][:8], 'wall_s': round(time.time() - t0, 1)}
        if rc == 2: det[c]['tail'] = out[-600:]
    res['detection'] = det
    sh('git checkout -- . && rm -rf tests', cwd=wt)
    print(json.dumps(res))

if __name__ == '__main__':
    main()
