#!/usr/bin/env python3
"""Print the DESIGN.md section 11.2 table from the evidence files of the last run (quick tier) and, when given,
a file of thorough-tier wall times ("C01 rc=0 wall=264s ..." lines as written by a batch run)."""
import json, re, sys, os

BOUND = {
 "C01": "all programs <= 3 operators, all operand forms at the root / + all 4-operator programs in borrowed form; magnitude leaf table to 2 / 3 operators; 9 deep formulas (143 stages); 10 unary functions on 7 .. 257 names and at 10 awkward magnitudes; 12 unusual powers",
 "C02": "<= 2 operators all forms + 3 borrowed / <= 3 all forms + 4 borrowed; magnitude table, deep formulas and many-names pass as C01, at second order",
 "C03": "3 names (79 operands per side, both value pairs, 3 storage relations) + 4-name subset / 4 names, with negative-zero twins; layouts of 9 .. 257 names in 10 relations, one pair on 66 000 and one on 1 100 names, all operators, ==, remainder, sums, float operands; sequential pass over 65 x 65 layout pairs; non-standard memory layouts; bitwise layout differential on 5 derivative tables x 5 layouts; colliding name texts and self-comparison of numbers with NaN parts",
 "C04": "window 8 / 11, 3 anchors, every boundary position; 19 named calendars x all dates (piped ones also inside CalType); 127 x 5 masks (an eighth of them also with split working weeks); closure runs 12 .. 70, 365 .. 800 and 65 535 .. 65 600 days; dates with a time of day; three-member unions in every order; settlement closures of 100 100 / 146 500 days; one closure of 1 050 000 days",
 "C05": "window 5 / 7 on 4 x 4 week-mask pairs, every i8; runs of 12, 35, 64, 367, 430, 65 600 closures; unions moved between threads; holiday supply in four forms (sorted, reversed, interleaved, doubled); every fifth mask case with split working weeks; named calendars, piped ones also inside CalType; ranges with times of day on both ends; years -1 .. 1; start instants inside a leap second",
 "C06": "unions of 1-3 members in every order; 1 806 x 3 name strings / + all 44 310 strings over 14 names; mask-versus-listed weekends; non-ASCII capitals; non-blocking settlement calendars; one-day differences in every year 1970-2200 / + every day of every 4th year",
 "C07": "complete in both tiers; plus one sequential name-resolution history (14 names x 3 passes with failing look-ups, 42 ordered pairs x 10 named calendars incl. piped names in three letter cases and names of five and six calendars, another thread) and a supplementary concurrent first use",
 "C08": "every start date; offsets -40..40 / -130..130; all roll kinds; offsets to +-2 771; month pairs (a seventh of / all first months x all second months)",
 "C09": "all labelled trees n <= 5 (+ n = 6 with 2 orderings) / n <= 6; every shape <= 9 / 12; five shapes on 10 .. 13 currencies; rejection space on 4 / 4-5 currencies and on the broken large shapes; settlement instants half a second apart; clones",
 "C10": "29 / 52 markets to fixpoint with the settlement date as part of the state (rolled between 2 / 3 dates); sensitivities n <= 4 / 5 and a menu on 8 .. 13 currencies; large-market histories of length 2 / 3; clone independence in every transition; quotes whose variable carries another quote's automatic name; every history of length 5 / 6 on the two smallest markets without merging states; updates naming a pair twice",
 "C11": "n <= 5 / 6 nodes, all supply permutations; index_left lists <= 9 / 11 and long lists <= 48 / 130; 7 .. 300 nodes on six grids, 1 023 .. 2 100 evenly spaced; look-ups 1 ms either side of every node; pairs of curves with equal ends looked up in blocks and strictly alternating over every pair of queries",
 "C12": "3 600 / more initial curves to fixpoint; 9 .. 210 nodes on six grids through the switches 1, 2, 1, 0, 2; every ordered pair of 40 (curve id, node count) configurations; clone independence; nodes on shared variables in permuted order through every switch sequence of length 3 / 4, names compared literally",
 "C13": "all patterns <= 3x3, every 7th 4x4 / all 65 536; permutations 4..5 / 6, generator set <= 8, four permutations of 9 .. 33; two row-scale vectors; tiny entry at six magnitudes and four extreme scales; curved entries; graded systems 3 .. 12 in both row orders; square systems with least squares allowed; tall <= 12x6",
 "C14": "k <= 6 / 7 on the 5-position grid; 7 .. 64 interior knots for k <= 5; ten power-of-two scalings (2^-1060 .. 2^900), five translations with both signs of zero, far translation by 2^53; vector route in three point orders; doubles next to every knot; caught aborts first; knot vectors spanning 2^-40 .. 2^20 against a plain recursion",
 "C15": "k <= 4 / 6 exact-rational space (sites also with the interior reversed / rotated / swapped); every ordered pair of re-solve configurations with two kinds of refused solve in between; long splines up to 64 coefficients, also in abscissa units x 2^29 and x 2^-20; ordered pairs of different splines on the same sites",
 "C16": "2^13 / 2^18 consecutive doubles x 10 anchors; structures; unions up to 14 members; objects of 5 .. 257 names / nodes / coefficients; epoch-straddling curves; every loaded object one step further; settlement instants with nanoseconds",
 "C17": "4 names, every requested list; sizes 3 .. 33 with the selection x order x padding request menu; four numbers with non-finite entries x every requested list; 70 000 names; results kept alive; names differing by case or by white space at their ends only; stationary variables with cross curvature",
 "C18": "3 / 6 values x 6 contents; every raising history of length <= 3; sums of three over 7 values x 27 kind triples; long mixed sums",
 "C19": "9 / 16 values x 4 contents; sums <= 4 / 5 over a pool of 8 and long sums 7 .. 130; sums over terms that share storage; quotients to 1e27, operands down to subnormal",
 "C20": "JSON single mutations for 17 documents, pairs for documents <= 26 / 44 nodes; constructors incl. 8 .. 100 names; k <= 4 / 5 for csolve, and the smallest splines (k <= 3, <= 3 basis functions); behaviour of every loaded calendar; long names with a multi-byte character at every byte offset to 130",
}

def fmt(n):
    if n is None:
        return "-"
    if n >= 1e6:
        return "%.2ge%d" % (n / 10 ** (len(str(int(n))) - 1), len(str(int(n))) - 1)
    return str(int(n))

root = os.path.dirname(os.path.dirname(os.path.abspath(__file__)))
thor = {}
if len(sys.argv) > 1:
    for line in open(sys.argv[1]):
        m = re.match(r"(C\d\d) rc=(\d+) wall=(\d+)s", line)
        if m:
            thor[m.group(1)] = int(m.group(3))
print("| id | bound actually built (quick / thorough) | evaluations | non-trivial | outcomes | states / transitions | wall quick | wall thorough |")
print("|---|---|---|---|---|---|---|---|")
for i in range(1, 21):
    pid = "C%02d" % i
    try:
        d = json.load(open(os.path.join(root, "evidence", pid + ".json")))
    except Exception:
        continue
    c = d["coverage"]
    st = "-"
    if c.get("states"):
        st = "%s / %s" % (fmt(c.get("states")), fmt(c.get("transitions")))
    tw = "%d s" % thor[pid] if pid in thor else "-"
    print("| %s | %s | %s | %s | %s | %s | %.0f s | %s |" % (pid, BOUND[pid], fmt(c.get("evaluations")), fmt(c.get("distinct_nontrivial")), fmt((c.get("distinct_outcomes") or {}).get("count")), st, d.get("wall_s", 0), tw))
