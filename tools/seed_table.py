#!/usr/bin/env python3
"""Prints the markdown table of seeded changes and which checks reported them (from seeded/*/*/meta.json)."""
import json, glob, os
rows=[]
for f in sorted(glob.glob('/verif/seeded/*/*/meta.json')):
    m=json.load(open(f))
    pid=m['property']; name=os.path.basename(os.path.dirname(f))
    det=m.get('detection',{})
    if 'check' in det:
        caught=[det['check']] if det.get('exit_code')==1 else []
        missed=[] if caught else [det['check']]
    else:
        caught=[k for k,v in det.items() if v.get('exit_code')==1]
        missed=[k for k,v in det.items() if v.get('exit_code')==0]
    s=(m.get('summary') or '').replace('|','/').replace('\n',' ')
    if len(s)>150: s=s[:147]+'...'
    rows.append(f"| {pid}/{name} | {s} | {', '.join(caught) or '-'} | {', '.join(missed) or '-'} |")
print("| seed | change | reported by | ran and silent |")
print("|---|---|---|---|")
print("\n".join(rows))
