#!/usr/bin/env python3
"""Regenerates /verif/MANIFEST.json from the table below (kept in one place so it stays valid)."""
import json, os, subprocess
ROOT = os.path.dirname(os.path.dirname(os.path.abspath(__file__)))

# id -> (category, technique, level text, level note, design_ref)
CHECKS = {
 "C19": ("exploration",
         "bounded-exhaustive enumeration of operand pairs/sequences on the real code vs a by-name reference model",
         "Every pair over a signed value table x derivative contents x operand form (dual-dual, dual-float, float-dual; Dual, Dual2, Number) is executed on the real operators and compared with float comparison / RefDual; every sequence up to length 4-5 for sum. Complete within that alphabet, silent on other magnitudes.",
         "Trusted: harness RefDual model (harness/src/refdual.rs); float semantics of the platform.",
         "DESIGN.md §4 C19"),
}
PENDING = {}

def main():
    props = [json.loads(l) for l in open(os.path.join(ROOT, "properties.jsonl"))]
    checks = []
    na = []
    for p in props:
        pid = p["id"]
        if pid in CHECKS:
            cat, tech, text, note, ref = CHECKS[pid]
            checks.append({
                "property_id": pid,
                "quick_cmd": f"./check {pid} --tier quick",
                "thorough_cmd": f"./check {pid} --tier thorough",
                "evidence_file": f"/verif/evidence/{pid}.json",
                "replay_cmd_template": f"./check {pid} --replay {{path}}",
                "engine": "rlverif",
                "level_claimed": {"category": cat, "text": text, "design_ref": ref},
                "level_note": note,
                "technique": tech,
            })
        else:
            na.append({"property_id": pid, "reason": PENDING.get(pid, "check under construction in this session (design in DESIGN.md §4); not claimed until it runs")})
    hooks_commits = subprocess.run(["git", "-C", "/repo", "log", "--format=%H", "--grep=^verif hooks"], capture_output=True, text=True).stdout.split()
    m = {
        "version": 1,
        "setup_cmd": "./check --build-only",
        "hooks": {
            "guard": "cfg(rateslib_verif)",
            "enable": "RUSTFLAGS=\"--cfg rateslib_verif\" (set by ./check; the harness crate depends on rateslib by path = /repo)",
            "baseline_off_cmd": "cd /repo && cargo test --workspace --no-fail-fast --offline",
            "source_commits": hooks_commits,
            "add_only": True,
        },
        "engines": [
            {"name": "rlverif", "path": "/verif/harness", "serves_properties": sorted(CHECKS.keys()),
             "kind_free_text": "Rust harness linking the real rateslib crate: E1 bounded-exhaustive stateless explorer against in-harness reference models; E2 explicit-state BFS (stateright) over the real mutators to a fixpoint"},
        ],
        "checks": checks,
        "not_applicable": na,
        "notes": "All checks are decided by exhaustive enumeration of a stated finite space (no sampling). known_findings.json lists fixed/open defects; see DESIGN.md.",
    }
    json.dump(m, open(os.path.join(ROOT, "MANIFEST.json"), "w"), indent=1)
    print("MANIFEST.json:", len(checks), "checks,", len(na), "not claimed")

if __name__ == "__main__":
    main()
