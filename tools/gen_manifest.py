#!/usr/bin/env python3
"""Regenerates /verif/MANIFEST.json from the table below (kept in one place so it stays valid)."""
import json, os, subprocess
ROOT = os.path.dirname(os.path.dirname(os.path.abspath(__file__)))

# id -> (category, technique, level text, level note, design_ref)
CHECKS = {
 "C16": ("exploration",
         "bounded-exhaustive enumeration of windows of consecutive doubles x float positions x types x three channels, and of structured objects, on the real (de)serialisers; bitwise oracle",
         "2^13 (2^18) consecutive doubles after each of 10 anchors plus extremes, placed in every float position of every type, through JSON, the tagged entry point and bincode; structures: all week masks, union shapes, named strings, 6x3x3x11x5x2 curves (slice in quick), FX markets with histories, splines.",
         "Trusted: bitwise comparison; only finite doubles; windows around ten anchors.",
         "DESIGN.md §4 C16"),
 "C20": ("exploration",
         "bounded-exhaustive enumeration of constructor arguments, every i8 day count, every in-range month offset, csolve layouts and ALL single (and pairs of) JSON mutations, executed in a child process with crash attribution",
         "Every argument combination of the listed small domains is executed under catch_unwind in a child process; a panic, an abnormal exit, or an Ok value violating its shape invariants is a violation. JSON: all single mutations of one valid document per type for both entry points, all pairs for documents up to 26 (44) nodes.",
         "Trusted: the invariant predicates in harness/src/props/c20.rs; one valid document per type.",
         "DESIGN.md §4 C20"),

 "C13": ("exploration",
         "bounded-exhaustive enumeration of sparsity patterns, row permutations and tall shapes x number types x taggings on the real dsolve/fdsolve; residual recomputed in a reference dual arithmetic",
         "Every zero/non-zero pattern up to 3x3 (4x4 complete in thorough), every row permutation of 4..5 (6)-dimensional systems, generator permutations up to 8x8, every tall shape up to 12x6, for f64 / Dual / Dual2 / Number and four variable taggings; the residual must vanish in value and every first and second derivative component.",
         "Trusted: dense reference dual arithmetic; generic value table; only well-conditioned systems are judged.",
         "DESIGN.md §4 C13"),
 "C14": ("exploration",
         "bounded-exhaustive enumeration of knot vectors x basis index x derivative order x knot/quarter evaluation points on the real basis functions vs an exact rational Cox-de Boor model",
         "Orders 1..6 (7), every subset of three interior positions with every multiplicity vector up to k-1, every basis function, m = 0..k+1, every break point incl. both end points and quarter points: non-negativity (exact), support (exact), partition of unity, derivatives.",
         "Trusted: exact rational polynomial-piece model (itself checked to be a partition of unity).",
         "DESIGN.md §4 C14"),
 "C15": ("exploration",
         "bounded-exhaustive enumeration of knot vectors x admissible site sets x end conditions x data vectors x number types on the real csolve/evaluation vs the exact rational spline",
         "Orders 2..4 (6), all knot vectors with total interior multiplicity <= 3, every admissible n-subset of a candidate site grid plus natural layouts, five end-condition pairs, unit/generic/monomial data; values and all derivatives, data and abscissa sensitivities for all three spline types, the mapped_value type table and count errors.",
         "Trusted: exact rational inverse of the exact collocation matrix (model checked to reproduce monomials exactly).",
         "DESIGN.md §4 C15"),

 "C11": ("exploration",
         "bounded-exhaustive enumeration of node sets x every supply permutation x boundary queries on the real curves (both constructors) vs closed forms; exhaustive short sorted lists for index_left",
         "5 rules x all gap vectors over 4 spacings for 2..5 (6) nodes x 3 value sets x every supply permutation x both constructors x node / node+-1d / quarter points / far-outside queries; index_left on every non-decreasing list of length 2..9 (11) over 5 values x 11 queries.",
         "Trusted: two-point closed forms in harness/src/curvemodel.rs.",
         "DESIGN.md §4 C11"),
 "C12": ("model_checking",
         "explicit-state BFS (stateright) to a fixpoint over the real curve object under set_ad_order from every constructor/kind of initial curve; RefDual derivatives of the closed forms",
         "The state graph under set_ad_order(0|1|2) is explored to its fixpoint from 3 600 (thorough: more) initial curves, so every switch sequence of any length is covered; every state is checked for node tags, value invariance and exact first/second sensitivities (zero outside the interval used), and index_value.",
         "Trusted: closed forms + RefDual; fixed node value tables.",
         "DESIGN.md §4 C12"),

 "C07": ("exploration",
         "exhaustive enumeration of every (built-in calendar, date 1970-2200) pair on the real tables vs transcribed published rules; fixing histories vs business days",
         "Complete in both tiers: 14 calendars x 84 371 dates against rule models transcribed from the generator scripts (two-directional for tgt nyc fed ldn stk osl zur, one-directional documented holidays for tro tyo syd wlg mum), fed == nyc minus Good Friday, documented names resolve, nine fixing files reproduce exactly.",
         "Trusted: transcription of the pandas rule semantics in harness/src/props/c07.rs; Easter algorithm; civil-date model.",
         "DESIGN.md §4 C07"),
 "C09": ("exploration",
         "bounded-exhaustive enumeration of labelled trees (Pruefer) x orientations x quote orderings x bases on the real FXRates vs exact rational path products; exhaustive short quote sequences for rejection",
         "All labelled trees on 2..5 (6) currencies with every orientation, ordering and base; every free-tree shape up to 9 (12) currencies with an ordering/orientation menu; every quote sequence of length <= 4 over 4 (5) currencies with bases and settlement patterns for accept/reject.",
         "Trusted: exact i128 rational path products; union-find tree test.",
         "DESIGN.md §4 C09"),
 "C10": ("model_checking",
         "explicit-state BFS (stateright) to a fixpoint over the real FXRates object under update / refused-update / set_ad_order / settlement-roll actions, plus stateless depth-bounded exhaustive enumeration of every action sequence (no state matching) on the two smallest markets, plus bounded-exhaustive closed-form sensitivities",
         "The state graph of the real object (state = its complete content) is explored to the fixpoint for every tree market on 2-3 currencies and a chain/star on 4, so histories of every length over the action menu are covered; every transition is an execution of the real mutator and every state is compared with a market built directly from the latest quotes (the settlement date is part of the state). Because state matching can hide state the key does not see, every history of length 5 (6) over 11 / 8 actions on a one-quote / two-quote market is also executed without matching. Sensitivities: all trees <= 4 (5) currencies x quote forms x orders against closed forms.",
         "Trusted: 2-3 value table per quote; closed-form derivatives of a product of powers; state key = full content of the pinned object (no abstraction); content added by a later change is invisible to the key and is covered only to the depth of the unmerged pass.",
         "DESIGN.md §4 C10"),

 "C04": ("exploration",
         "bounded-exhaustive enumeration of calendars-as-words over {N,B,S} x month-boundary positions x dates x modifiers x flags on the real roll, vs linear-search specification",
         "Every calendar roll can distinguish on an 8-day (11-day) window, at every month-boundary position on three anchors, in three realisations, plus all built-in calendars over every date 1970-2200 and all week masks; every modifier and both settlement flags. Complete within the window bound.",
         "Trusted: the calendar's own is_bus_day/is_settlement (checked by C06/C07); civil-date model cross-checked against chrono.",
         "DESIGN.md §4 C04"),
 "C05": ("exploration",
         "bounded-exhaustive enumeration of holiday words x week masks x every i8 day count x flags on the real add_bus_days/lag/add_days/bus_date_range, vs index arithmetic on the business-day list",
         "Every holiday/settlement word on a one-week window over periodic week masks, every start date, EVERY i8 count, both flags; named calendars over years of dates x every i8 and over every date 1970-2200 x a count menu.",
         "Trusted: the calendar's own predicates; civil-date model.",
         "DESIGN.md §4 C05"),
 "C06": ("exploration",
         "bounded-exhaustive enumeration of small unions, name strings, token strings and equality scenarios on the real calendars vs AND-of-members model and a reference grammar",
         "All unions of 1-3 members / 0-2 settlement calendars over holiday subsets and week masks; all name strings list|list of lists of length 1-2 over a name alphabet x every date 1970-2200; all token strings up to length 5 (6); equality scenarios at the range boundaries in every operand form.",
         "Trusted: single built-in calendars as given (C07); reference grammar in the harness.",
         "DESIGN.md §4 C06"),
 "C08": ("exploration",
         "exhaustive enumeration of every start date 1970-2200 x month offsets x 35 roll kinds on the real add_months/get_roll/get_imm/get_eom vs civil-date arithmetic",
         "Complete over every date of the supported range, offsets -40..40 (-130..130) and +-{48,...,1200}, all roll kinds; per-month functions for every month of 1600-2409; other modifiers equal roll(unadjusted).",
         "Trusted: civil-date model (Hinnant algorithms), cross-checked against chrono.",
         "DESIGN.md §4 C08"),

 "C01": ("exploration",
         "bounded-exhaustive enumeration of expression programs (<=3-4 operators) on the real Dual, lock-step against a reference model",
         "Every expression program with at most 3 operators (4 in the thorough tier) over 6 leaves, 10 unary and 4 binary operators in all float/dual operand mixes and owned/borrowed forms is run on the real code and compared with plain f64 evaluation and the true gradient; complete within that bound, no sampling.",
         "Trusted: RefDual chain-rule model (validated by finite differences on all <=2-operator programs); statrs for the normal cdf; leaf value table.",
         "DESIGN.md §4 C01"),
 "C02": ("exploration",
         "bounded-exhaustive enumeration of expression programs on the real Dual2 run in lock step with Dual, against a full-Hessian reference model",
         "Same program space as C01 on Dual2: value, gradient, every ordered pair of the Hessian (symmetry included), equality with the first-order run, and lossless down-conversion are checked for every program with <= 3 (4) operators.",
         "Trusted: RefDual full-Hessian model (validated by second-order finite differences on all <=2-operator programs).",
         "DESIGN.md §4 C02"),
 "C03": ("exploration",
         "bounded-exhaustive enumeration of variable-list layouts x storage relations x operators on the real code vs a by-name canonical form",
         "All ordered pairs of operands over every ordered name list on 3 (4) names, every zero/non-zero pattern, shared and unshared storage, every binary operator and ==, for Dual and Dual2; all five vars_cmp classes must be non-empty or the run refuses to report.",
         "Trusted: RefDual by-name model; derivative values from a fixed generic table (layouts exhaustive).",
         "DESIGN.md §4 C03"),
 "C17": ("exploration",
         "bounded-exhaustive enumeration of (stored list, requested list) pairs on the real read-back functions; exact oracle",
         "Every number layout on 3 (4) names against every requested ordered list over names + one absent name: gradient1, gradient2, gradient1_manifold compared exactly entry by entry; manifold product rule for every pair of a 3-name pool.",
         "Trusted: nothing beyond the specification of the number (exact comparison).",
         "DESIGN.md §4 C17"),
 "C18": ("exploration",
         "bounded-exhaustive enumeration of kind/order cells and operator x kind-pair table on the real container; differential oracle",
         "All 3x3 order-change cells with tag lists, all From conversions, and every operator of the Number container on all 3x3 kind pairings are executed; arithmetic must be bit-identical to the contained types' operators and the two Dual/Dual2 arms must refuse.",
         "Trusted: operators of the contained types (checked by C01-C03, C19).",
         "DESIGN.md §4 C18"),

 "C19": ("exploration",
         "bounded-exhaustive enumeration of operand pairs/sequences on the real code vs a by-name reference model",
         "Every pair over a signed value table x derivative contents x operand form (dual-dual, dual-float, float-dual; Dual, Dual2, Number) is executed on the real operators and compared with float comparison / RefDual; every sequence up to length 4-5 for sum. Complete within that alphabet, silent on other magnitudes.",
         "Trusted: harness RefDual model (harness/src/refdual.rs); float semantics of the platform.",
         "DESIGN.md §4 C19"),
}
PENDING = {}

def main():
    props = [json.loads(l) for l in open(os.path.join(ROOT, "properties.jsonl"))]
    checks = []
    na = []
    for p in props:
        pid = p["id"]
        if pid in CHECKS:
            cat, tech, text, note, ref = CHECKS[pid]
            checks.append({
                "property_id": pid,
                "quick_cmd": f"./check {pid} --tier quick",
                "thorough_cmd": f"./check {pid} --tier thorough",
                "evidence_file": f"/verif/evidence/{pid}.json",
                "replay_cmd_template": f"./check {pid} --replay {{path}}",
                "engine": "rlverif",
                "level_claimed": {"category": cat, "text": text, "design_ref": ref},
                "level_note": note,
                "technique": tech,
            })
        else:
            na.append({"property_id": pid, "reason": PENDING.get(pid, "check under construction in this session (design in DESIGN.md §4); not claimed until it runs")})
    hooks_commits = subprocess.run(["git", "-C", "/repo", "log", "--format=%H", "--grep=^verif hooks"], capture_output=True, text=True).stdout.split()
    m = {
        "version": 1,
        "setup_cmd": "./check --build-only",
        "hooks": {
            "guard": "cfg(rateslib_verif)",
            "enable": "RUSTFLAGS=\"--cfg rateslib_verif\" (set by ./check; the harness crate depends on rateslib by path = /repo)",
            "baseline_off_cmd": "cd /repo && cargo test --workspace --no-fail-fast --offline",
            "source_commits": hooks_commits,
            "add_only": True,
        },
        "engines": [
            {"name": "rlverif", "path": "/verif/harness", "serves_properties": sorted(CHECKS.keys()),
             "kind_free_text": "Rust harness linking the real rateslib crate: E1 bounded-exhaustive stateless explorer against in-harness reference models; E2 explicit-state BFS (stateright) over the real mutators to a fixpoint"},
        ],
        "checks": checks,
        "not_applicable": na,
        "notes": "All checks are decided by exhaustive enumeration of a stated finite space (no sampling). known_findings.json lists fixed/open defects; see DESIGN.md.",
    }
    json.dump(m, open(os.path.join(ROOT, "MANIFEST.json"), "w"), indent=1)
    print("MANIFEST.json:", len(checks), "checks,", len(na), "not claimed")

if __name__ == "__main__":
    main()
