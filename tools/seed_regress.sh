#!/usr/bin/env bash
# re-run the recorded reporting check(s) of every stored seed against the current harness (no re-confirmation)
# usage: seed_regress.sh <glob-of-property-dirs> <worktree> <out>
OUT="$3"; : > "$OUT"
for d in $1; do
  for m in "$d"/m*; do
    [ -f "$m/patch.diff" ] || continue
    checks=$(python3 - "$m/meta.json" <<'PY'
import json,sys
m=json.load(open(sys.argv[1])); d=m['detection']
if 'check' in d: print(d['check'])
else: print(','.join(k for k,v in d.items() if v['exit_code']==1))
PY
)
    python3 /verif/tools/seed_trial.py "$m" --checks "$checks" --no-confirm --wt "$2" >> "$OUT" 2>&1
  done
done
echo done >> "$OUT"
