#!/usr/bin/env python3
"""Store confirmed seeded changes under /verif/seeded/<id>/<m>/ from a batch result file of seed_batch2.sh.
usage: seed_store.py <results.jsonl> <round> [note]"""
import json, os, shutil, sys, glob

res, rnd = sys.argv[1], int(sys.argv[2])
note = sys.argv[3] if len(sys.argv) > 3 else None
for line in open(res):
    line = line.strip()
    if not line.startswith('{'):
        continue
    d = json.loads(line)
    src = os.path.realpath(d['seed'])
    pid, m = d['property'], os.path.basename(src)
    ok = d.get('demo_passes_without') and d.get('demo_fails_with') and d.get('suite_passes_with')
    if not ok:
        print('NOT CONFIRMED, skipped:', src)
        continue
    dst = os.path.join('/verif/seeded', pid, m)
    os.makedirs(dst, exist_ok=True)
    shutil.copy(os.path.join(src, 'patch.diff'), dst)
    for f in glob.glob(os.path.join(src, 'demo_*.rs')):
        shutil.copy(f, dst)
    am = json.load(open(os.path.join(src, 'meta.json')))
    meta = {
        'property': pid,
        'round': rnd,
        'summary': am.get('summary') or am.get('change'),
        'needs': am.get('needs') or am.get('trigger'),
        'files': am.get('files'),
        'author': 'independent sub-agent given only the property text and a scratch worktree (round %d)' % rnd,
        'author_ran': am.get('ran') or am.get('author_ran'),
        'confirmed_by_me': {
            'how': 'tools/seed_trial.py in a scratch worktree at /repo HEAD',
            'demo_passes_without_change': d['demo_passes_without'],
            'demo_fails_with_change': d['demo_fails_with'],
            'suite_passes_with_change': d['suite_passes_with'],
            'suite_summary': d.get('suite_summary'),
        },
        'detection': {k: {'tier': 'quick', 'exit_code': v.get('rc'), 'violation_keys': v.get('violations', [])} for k, v in d['detection'].items()},
    }
    if note:
        meta['note'] = note
    json.dump(meta, open(os.path.join(dst, 'meta.json'), 'w'), indent=1)
    print('stored', dst, [k for k, v in d['detection'].items() if v.get('rc') == 1])
