#!/usr/bin/env bash
# tools/try_patch.sh <patch.diff> <ID> [tier]  — apply a seeded change to /repo, run one check, revert.
set -u
P="$1"; ID="$2"; TIER="${3:-quick}"
cd /repo || exit 2
if ! git diff --quiet; then echo "/repo not clean"; exit 2; fi
git apply "$P" || { echo "patch does not apply"; exit 2; }
cd /verif && ./check "$ID" --tier "$TIER" 2>&1 | tail -n 12
rc=${PIPESTATUS[0]}
git -C /repo checkout -- . 
git -C /repo status --short | grep -v '^??' 
echo "try_patch rc=$rc"
exit $rc
